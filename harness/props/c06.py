"""C06 — Hamming, Golay and quadratic-residue codes (DESIGN §5 C06).

Besides the per-word sweeps (messages exhaustive, received words, single / double errors) the run
exercises three input classes that single fresh big-endian calls cannot reach:

* argument containers: the same logical bits in every container the entry points accept (bitarray
  big / little endian, non-zero pad bits in the buffer, imported buffer, subclass, frozenbitarray;
  ndarray rows, strided columns, reversed views, uint8 / bool for the ndarray entry points),
* histories: every object an entry point returns is kept, calls go on (same code, other codes),
  some kept objects are overwritten by the caller, and all kept objects are read again later,
* structured received words: one word of every coset (every syndrome), low-weight error patterns,
  words of one code resized to the length of another, code words under the transformations a sloppy
  checker may be blind to (reversed, complemented, rotated, octets swapped, …),
* argument provenance: ndarrays that are read-only (setflags, frombuffer over bytes, broadcast views,
  memory maps), that live in foreign memory (bytearray), Fortran-ordered rows / columns, non-native
  byte order, other item sizes, object dtype, subclasses, unaligned, and views with an explicit random
  layout (item size x byte order x offset x stride x writeable; the Lean model reads the same buffer);
  bitarrays produced by the library's own converters / by slicing; the output of one entry point
  handed to another; undocumented containers (immutable bitarray for the in-place repair, list,
  tuple, str, bytes, 2-D, float): the call may raise, what it returns must be right,
* error paths: calls that are rejected or raise (wrong length shorter / longer / empty, no bits at
  all, wrong container, an exception in the middle of a repair) inside the histories, and — in
  forked processes in which the library has been imported and nothing has been called ("scenarios") —
  as the FIRST call a class ever sees, for every code x entry point x kind, each followed by the
  single / double error sweep through every entry point.  Siblings of that: the first call uses an
  unusual container, goes to another class, to a caller-defined HammingCommon class with the same
  dimensions / name, happens inside BPTC / VBPTC, the modules are reloaded, rejected calls later,
* ambient interpreter state (scenarios): root logger at DEBUG, failing stdout / stderr, random
  reseeded between the calls, warnings as errors, numpy errstate raise, and a `python -O` process.
"""
import gc
import io
import itertools
import json
import logging
import os
import random as _random
import sys
import warnings

import numpy
from bitarray import bitarray, frozenbitarray
from bitarray.util import int2ba

try:
    from common import bits_str, impl_error
except ImportError:  # run as a script (the fresh-process helper of shrink())
    import sys

    sys.path.insert(0, os.path.dirname(os.path.dirname(os.path.abspath(__file__))))
    from common import bits_str, impl_error

PROP = "C06"
MODULES = ["C06"]
GEN = ["Codes"]
MATCHERS = {}

FAIL_CAP = 12  # failure records kept per (kind, code); the rest is only counted


def codes():
    from okdmr.dmrlib.etsi.fec.hamming_7_4_3 import Hamming743
    from okdmr.dmrlib.etsi.fec.hamming_13_9_3 import Hamming1393
    from okdmr.dmrlib.etsi.fec.hamming_15_11_3 import Hamming15113
    from okdmr.dmrlib.etsi.fec.hamming_16_11_4 import Hamming16114
    from okdmr.dmrlib.etsi.fec.hamming_17_12_3 import Hamming17123
    from okdmr.dmrlib.etsi.fec.golay_20_8_7 import Golay2087
    from okdmr.dmrlib.etsi.fec.quadratic_residue_16_7_6 import QuadraticResidue1676

    return [
        ("h743", Hamming743, 7, 4, 3, True),
        ("h1393", Hamming1393, 13, 9, 3, True),
        ("h15113", Hamming15113, 15, 11, 3, True),
        ("h16114", Hamming16114, 16, 11, 4, True),
        ("h17123", Hamming17123, 17, 12, 3, True),
        ("golay2087", Golay2087, 20, 8, 7, False),
        ("qr1676", QuadraticResidue1676, 16, 7, 6, False),
    ]


def call(fn, *a):
    try:
        return fn(*a)
    except BaseException as e:  # noqa
        return impl_error(e)


_DIG = {0: "0", 1: "1"}  # also the keys False / True / 0.0 / 1.0 (equal, same hash)


def canon(obj, flat=False) -> str:
    """logical content of an argument / result object as 0101… (never a repr); flat: a column / row
    matrix counts as its sequence of elements"""
    if isinstance(obj, str):
        return obj
    try:
        if isinstance(obj, numpy.ndarray):
            if flat:
                obj = obj.ravel()
            return "".join(map(_DIG.__getitem__, obj.tolist()))
        if isinstance(obj, bitarray):
            return obj.to01()
        return "".join("1" if b else "0" for b in obj)
    except BaseException as e:  # noqa
        return "ERR uncanonical " + type(e).__name__


def b01(x) -> str:
    if isinstance(x, str):
        return x
    return "1" if x else "0"


def gen_str(cls, m):
    return canon(call(cls.generate, m))


# ------------------------------------------------------------------------------------------------
# argument containers
# ------------------------------------------------------------------------------------------------
class _SubBitarray(bitarray):
    pass


BA_FORMS = ("be", "le", "dirty-be", "dirty-le", "sub-le", "buf-be", "buf-le", "frozen-be", "frozen-le")
NP_FORMS = ("np-int64", "np-col", "np-rev", "np-uint8", "np-bool")
MUTABLE_BA_FORMS = tuple(f for f in BA_FORMS if not f.startswith("frozen"))
# bitarrays that come out of another code path of the library / of the caller's own conversions
BA_LIB_FORMS = ("lib-n2b", "lib-n2b-le", "ba-slice", "ba-from-bytes")
# ---- provenance of an ndarray argument: who owns the memory, may it be written, how is it laid out
NP_PROV_FORMS = (
    "np-ro",  # setflags(write=False)
    "np-frombuf",  # numpy.frombuffer(<bytes>): a read-only view of an immutable object
    "np-frombuf-rw",  # numpy.frombuffer(<bytearray>): writeable, memory owned by the caller's bytearray
    "np-bcast",  # a row of numpy.broadcast_to(...): read-only
    "np-bcast-same",  # numpy.broadcast_to(a, a.shape): read-only view of a writeable array
    "np-frow",  # row of a Fortran-ordered table (strided)
    "np-fcol",  # column of a Fortran-ordered table (contiguous)
    "np-ro-col",  # column of a C-ordered table that was frozen
    "np-be64",  # non-native byte order
    "np-be16",
    "np-be32",
    "np-int8",
    "np-int16",
    "np-uint64",
    "np-object",  # dtype=object of Python ints
    "np-object-bool",  # dtype=object of Python bools
    "np-sub",  # view as a subclass of ndarray
    "np-memmap-ro",  # numpy.memmap(mode="r")
    "np-lib-b2n",  # produced by the library's own bitarray_to_numpy_array
    "np-unaligned",  # int64 elements at an odd offset of a bytes object (read-only, not aligned)
)
# the logical bits in a container no entry point documents: the call may raise, but what it returns must be right
ODD_FORMS = ("odd-list", "odd-tuple", "odd-str", "odd-bytes", "odd-2d-row", "odd-2d-col", "odd-float", "odd-robuf")
# no bits at all
VOID_FORMS = ("odd-none", "odd-int", "odd-0d", "odd-object", "odd-val2", "odd-valneg", "odd-valnan")  # the last three: elements that are no bits
READONLY_NP_FORMS = ("np-ro", "np-frombuf", "np-bcast", "np-bcast-same", "np-ro-col", "np-memmap-ro", "np-unaligned")


class _SubNd(numpy.ndarray):
    pass


def is_np_form(form: str) -> bool:
    return form.startswith("np-")


def _endian(form: str) -> str:
    return "little" if form.endswith("le") else "big"


def endian_of(b) -> str:
    e = b.endian
    return e() if callable(e) else e


def layout_form(sz, big, off, stride, pad, ro) -> str:
    return f"np-lay/{sz}/{'B' if big else 'L'}/{off}/{stride}/{pad}/{'ro' if ro else 'rw'}"


def layout_buffer(form: str, s: str):
    """(itemsize, big, offset, stride, read-only, buffer octets) of an explicit-layout ndarray form"""
    _, sz, bo, off, stride, pad, ro = form.split("/")
    sz, off, stride, pad = int(sz), int(off), int(stride), int(pad)
    buf = bytearray([pad]) * (off + len(s) * stride + sz + 3)
    for i, ch in enumerate(s):
        buf[off + i * stride : off + i * stride + sz] = int(ch).to_bytes(sz, "big" if bo == "B" else "little")
    return sz, bo == "B", off, stride, ro == "ro", buf


def layout_line_args(form: str, s: str) -> str:
    sz, big, off, stride, _, buf = layout_buffer(form, s)
    return f"{sz} {'big' if big else 'little'} {off} {stride} {len(s)} {bytes(buf).hex()}"


def random_layout(rng) -> str:
    sz = rng.choice((1, 1, 2, 4, 8, 8))
    stride = sz * rng.choice((1, 1, 2, 3, 13)) + rng.choice((0, 0, 0, 1, 3))
    return layout_form(sz, rng.random() < 0.4 and sz > 1, rng.choice((0, 0, 1, 3, 8, 24)), stride, rng.choice((0, 1, 255, 170)), rng.random() < 0.5)


def mk_arg(form: str, s: str):
    """an argument object holding the logical bits `s`; None when the container cannot hold len(s) bits"""
    if form in ("be", "le"):
        return bitarray(s, endian=_endian(form))
    if form.startswith("dirty-"):
        # pad bits of the buffer are 1 (tobytes() hides them, the buffer protocol does not)
        b = bitarray(len(s), endian=_endian(form))
        b.setall(1)
        for i, ch in enumerate(s):
            b[i] = ch == "1"
        return b
    if form == "sub-le":
        return _SubBitarray(s, endian="little")
    if form.startswith("buf-"):
        if len(s) % 8:
            return None
        raw = bytearray(bitarray(s, endian=_endian(form)).tobytes())
        return bitarray(buffer=raw, endian=_endian(form))  # imported, writable buffer
    if form.startswith("frozen-"):
        return frozenbitarray(s, endian=_endian(form))
    vals = [int(ch) for ch in s]
    if form.startswith("lib-n2b"):
        from okdmr.dmrlib.utils.bits_bytes import numpy_array_to_bitarray

        b = numpy_array_to_bitarray(numpy.array(vals, dtype=int))
        return bitarray(b, endian="little") if form.endswith("le") else b
    if form == "ba-slice":
        return bitarray("101" + s + "01")[3 : 3 + len(s)]  # what callers do: a slice of a longer burst
    if form == "ba-from-bytes":
        b = bitarray()
        b.frombytes(bitarray(s).tobytes())
        return b[: len(s)]
    if form == "np-int64":
        return numpy.array(vals, dtype=numpy.int64)
    if form == "np-col":
        # what BPTC passes: a column of an int table (strided view)
        t = numpy.ones((len(s), 3), dtype=int)
        t[:, 1] = vals
        return t[:, 1]
    if form == "np-rev":
        return numpy.array(vals[::-1], dtype=int)[::-1]  # negative stride
    if form == "np-uint8":
        return numpy.array(vals, dtype=numpy.uint8)
    if form == "np-bool":
        return numpy.array(vals, dtype=bool)
    # ---- provenance
    if form == "np-ro":
        a = numpy.array(vals, dtype=numpy.int64)
        a.setflags(write=False)
        return a
    if form == "np-frombuf":
        return numpy.frombuffer(bytes(vals), dtype=numpy.uint8)
    if form == "np-frombuf-rw":
        return numpy.frombuffer(bytearray(vals), dtype=numpy.uint8)
    if form == "np-bcast":
        return numpy.broadcast_to(numpy.array(vals, dtype=int), (3, len(vals)))[1]
    if form == "np-bcast-same":
        a = numpy.array(vals, dtype=int)
        return numpy.broadcast_to(a, a.shape)
    if form == "np-frow":
        t = numpy.asfortranarray(numpy.ones((3, len(vals)), dtype=int))
        t[1, :] = vals
        return t[1, :]
    if form == "np-fcol":
        t = numpy.asfortranarray(numpy.ones((len(vals), 3), dtype=int))
        t[:, 1] = vals
        return t[:, 1]
    if form == "np-ro-col":
        t = numpy.ones((len(vals), 3), dtype=int)
        t[:, 1] = vals
        t.setflags(write=False)
        return t[:, 1]
    if form in ("np-be64", "np-be16", "np-be32", "np-int8", "np-int16", "np-uint64"):
        dt = {"np-be64": ">i8", "np-be16": ">u2", "np-be32": ">i4", "np-int8": "i1", "np-int16": "<i2", "np-uint64": "<u8"}[form]
        return numpy.array(vals, dtype=numpy.dtype(dt))
    if form == "np-object":
        a = numpy.empty(len(vals), dtype=object)
        a[...] = vals
        return a
    if form == "np-object-bool":
        a = numpy.empty(len(vals), dtype=object)
        a[...] = [bool(v) for v in vals]
        return a
    if form == "np-sub":
        return numpy.array(vals, dtype=int).view(_SubNd)
    if form == "np-memmap-ro":
        if not vals:
            a = numpy.array(vals, dtype=numpy.uint8)
            a.setflags(write=False)
            return a
        import tempfile

        try:
            with tempfile.TemporaryFile() as fh:
                fh.write(bytes(vals))
                fh.flush()
                return numpy.memmap(fh, dtype=numpy.uint8, mode="r", shape=(len(vals),))
        except OSError:  # no place for a temporary file: a frozen array instead
            a = numpy.array(vals, dtype=numpy.uint8)
            a.setflags(write=False)
            return a
    if form == "np-lib-b2n":
        from okdmr.dmrlib.utils.bits_bytes import bitarray_to_numpy_array

        return bitarray_to_numpy_array(bitarray(s))
    if form == "np-unaligned":
        raw = b"\xff" + b"".join(v.to_bytes(8, "little") for v in vals)
        return numpy.ndarray(shape=(len(vals),), dtype="<i8", buffer=raw, offset=1)
    if form.startswith("np-lay/"):
        sz, big, off, stride, ro, buf = layout_buffer(form, s)
        dt = numpy.dtype((">" if big else "<") + ("i" if sz > 1 else "u") + str(sz))
        return numpy.ndarray(shape=(len(s),), dtype=dt, buffer=bytes(buf) if ro else buf, offset=off, strides=(stride,))
    # ---- undocumented containers
    if form == "odd-list":
        return vals
    if form == "odd-tuple":
        return tuple(vals)
    if form == "odd-str":
        return s
    if form == "odd-bytes":
        return bytes(vals)
    if form == "odd-2d-row":
        return numpy.array([vals], dtype=int)
    if form == "odd-2d-col":
        return numpy.array([[v] for v in vals], dtype=int).reshape(len(vals), 1)
    if form == "odd-float":
        return numpy.array(vals, dtype=float)
    if form == "odd-robuf":
        # a bitarray over an immutable buffer (read-only); whole octets only, else the frozen variant
        if len(s) % 8 == 0 and s:
            return bitarray(buffer=bitarray(s).tobytes())
        return frozenbitarray(s)
    if form == "odd-none":
        return None
    if form == "odd-int":
        return int(s, 2) if s else 0
    if form == "odd-0d":
        return numpy.array(1 if "1" in s else 0)
    if form == "odd-object":
        return object()
    if form in ("odd-val2", "odd-valneg", "odd-valnan"):
        # an array of the right length whose elements are not all 0 / 1
        a = numpy.array(vals or [0], dtype=float if form == "odd-valnan" else int)
        a[len(a) // 2] = {"odd-val2": 2, "odd-valneg": -1, "odd-valnan": float("nan")}[form]
        return a
    raise ValueError(form)


def store_args(arg) -> str:
    """`<endian> <len> <hex of tobytes()>` of a bitarray argument (the line-protocol form)"""
    return f"{endian_of(arg)} {len(arg)} {arg.tobytes().hex() or '-'}"


# ------------------------------------------------------------------------------------------------
# the oracle: the code as the standard defines it (reference copy of the generator matrices)
# ------------------------------------------------------------------------------------------------
class Ref:
    def __init__(self, name, n, k, d, is_hamming, G):
        self.name, self.n, self.k, self.d, self.is_hamming = name, n, k, d, is_hamming
        self.G = G
        self.detects_double = name == "h16114"  # the extended code: d = 4
        rows = [int("".join(str(x) for x in r), 2) for r in G]
        cw = [0] * (2**k)
        for v in range(1, 2**k):
            low = v & -v
            cw[v] = cw[v ^ low] ^ rows[k - 1 - (low.bit_length() - 1)]
        self.cw_int = cw
        self.fmt = f"0{n}b"
        self.cw = [format(x, self.fmt) for x in cw]
        self.cwset = set(self.cw)
        self.cwints = set(cw)
        self.near1 = None
        self.near2 = None

    def enc(self, m: str) -> str:
        return self.cw[int(m, 2)]

    def is_cw(self, w: str) -> bool:
        return w in self.cwset

    def _near(self):
        if self.near1 is None:
            n1 = {}
            for c in self.cw_int:
                n1[c] = c
                for b in range(self.n):
                    n1[c ^ (1 << b)] = c
            self.near1 = n1
            if self.detects_double:
                n2 = set()
                masks = [(1 << a) | (1 << b) for a, b in itertools.combinations(range(self.n), 2)]
                for c in self.cw_int:
                    for mk in masks:
                        n2.add(c ^ mk)
                self.near2 = n2

    def cac(self, w: str):
        """what the property demands of check_and_correct(w): "1 <code word>" within distance 1,
        "0 <w>" for a (16,11,4) double error, None where the property is silent"""
        self._near()
        wi = int(w, 2)
        c = self.near1.get(wi)
        if c is not None:
            return f"1 {format(c, self.fmt)}"
        if self.near2 is not None and wi in self.near2:
            return f"0 {w}"
        return None

    def correct(self, w: str):
        r = self.cac(w)
        return None if r is None else r[2:]


class Fails:
    """ctx.fail with a cap per (kind, code) so that one defect does not write thousands of records"""

    def __init__(self, ctx):
        self.ctx = ctx
        self.n = {}

    def __call__(self, kind, inp, what, expected=None, actual=None):
        key = (kind, inp.get("code") if isinstance(inp, dict) else None)
        self.n[key] = self.n.get(key, 0) + 1
        if self.n[key] <= FAIL_CAP * self.ctx.boost:
            self.ctx.fail(kind, inp, what, expected=expected, actual=actual)
        else:
            self.ctx.count(f"suppressed-failure:{kind}")


# ------------------------------------------------------------------------------------------------
# histories
# ------------------------------------------------------------------------------------------------
# a step is a list:
#   [op, code, form, bits]            op in gen / check / cac / correct; bits "-" = no bits at all
#   ["overwrite", ref, bits]          the caller overwrites a kept object
#   ["reload", "-"]                   the library modules are executed again (importlib.reload)
#   ["ambient", what]                 process-wide interpreter state is changed (AMBIENT)
#   ["custom", name, base, variant]   a class of the caller's own next to the standard ones (CUSTOM_VARIANTS)
#   ["lib", what, bits]               another part of the library that uses the block codes is called (LIB_CALLS)
# Every gen / cac / correct step owns the next handle (0, 1, 2, …) whether or not the call returns.
RESULT_OPS = ("gen", "cac", "correct")
CALL_OPS = ("gen", "check", "cac", "correct")
META_OPS = ("reload", "ambient", "custom", "lib")
AMBIENT = ("log-debug", "stdout-raises", "stderr-raises", "reseed", "warnings-error", "np-err-raise", "gc", "restore")
CUSTOM_VARIANTS = ("subclass", "sibling", "permuted", "permuted-same-name")


def bits_of(x: str) -> str:
    return "" if x == "-" else x


def bits_tok(s: str) -> str:
    return s if s else "-"


def documented(op: str, form: str) -> bool:
    """is `form` a container the entry point behind `op` is meant to be called with"""
    if form.startswith("odd-"):
        return False
    if op == "gen":
        return True  # bitarray (annotated) and ndarray rows / columns (BPTC, VBPTC)
    if op == "check":
        return not is_np_form(form)
    if op == "cac":
        return form in MUTABLE_BA_FORMS or form in BA_LIB_FORMS
    return is_np_form(form)  # correct_numpy_array


def step_class(table, st) -> str:
    """
    strict:  documented container holding a word of the documented length: the property fixes the result;
    lenient: the right number of bits in another container: the call may raise, what it returns must be right;
    bad:     wrong length / no bits: the call is expected to be rejected; only its after-effects matter
             (and a rejected word must not be reported as a code word / as repaired)
    """
    op, code, form, s = st[0], st[1], st[2], bits_of(st[3])
    _, _, n, k, _, _ = table[code]
    if form in VOID_FORMS or len(s) != (k if op == "gen" else n):
        return "bad"
    return "strict" if documented(op, form) else "lenient"


def step_line(table, st, klass=None):
    """the model's line of a step; None when the model has no counterpart (then nothing is compared)"""
    if st[0] == "overwrite":
        return f"h.overwrite {st[1]} {st[2]}"
    if st[0] in META_OPS or st[1].startswith("custom:"):
        return None
    if klass is None:
        klass = step_class(table, st)
    if klass == "lenient" or not documented(st[0], st[2]) or st[2] in VOID_FORMS:
        return None
    return f"h.{st[0]} {st[1]} {bits_tok(bits_of(st[3]))}"


class _Raiser:
    """a text stream on which every write fails (a closed pipe, a full disk)"""

    encoding = "utf-8"

    def write(self, *_a):
        raise OSError("write failed")

    def writelines(self, *_a):
        raise OSError("write failed")

    def flush(self):
        raise OSError("flush failed")

    def isatty(self):
        return False

    def fileno(self):
        raise OSError("no descriptor")


_AMBIENT_SAVED = {}


def ambient(what: str):
    sv = _AMBIENT_SAVED
    if what == "log-debug":
        root = logging.getLogger()
        sv.setdefault("log", (root.level, list(root.handlers), logging.root.manager.disable))
        h = logging.StreamHandler(io.StringIO())
        h.setFormatter(logging.Formatter("%(asctime)s %(name)s %(levelname)s %(message)s"))
        root.addHandler(h)
        root.setLevel(logging.DEBUG)
        logging.disable(logging.NOTSET)
    elif what == "stdout-raises":
        sv.setdefault("stdout", sys.stdout)
        sys.stdout = _Raiser()
    elif what == "stderr-raises":
        sv.setdefault("stderr", sys.stderr)
        sys.stderr = _Raiser()
    elif what == "reseed":
        _random.seed(20260926)
        numpy.random.seed(20260926)
    elif what == "warnings-error":
        sv.setdefault("warnings", list(warnings.filters))
        warnings.simplefilter("error")
    elif what == "np-err-raise":
        sv.setdefault("nperr", numpy.geterr())
        numpy.seterr(all="raise")
    elif what == "gc":
        gc.collect()
    elif what == "restore":
        if "stdout" in sv:
            sys.stdout = sv.pop("stdout")
        if "stderr" in sv:
            sys.stderr = sv.pop("stderr")
        if "log" in sv:
            level, handlers, disabled = sv.pop("log")
            root = logging.getLogger()
            root.handlers[:] = handlers
            root.setLevel(level)
            logging.disable(disabled)
        if "warnings" in sv:
            warnings.filters[:] = sv.pop("warnings")
            if hasattr(warnings, "_filters_mutated"):
                warnings._filters_mutated()
        if "nperr" in sv:
            numpy.seterr(**sv.pop("nperr"))
    else:
        raise ValueError(what)


LIB_MODULES = (
    "okdmr.dmrlib.utils.bits_bytes",
    "okdmr.dmrlib.etsi.fec.fec_utils",
    "okdmr.dmrlib.etsi.fec.hamming_common",
    "okdmr.dmrlib.etsi.fec.hamming_7_4_3",
    "okdmr.dmrlib.etsi.fec.hamming_13_9_3",
    "okdmr.dmrlib.etsi.fec.hamming_15_11_3",
    "okdmr.dmrlib.etsi.fec.hamming_16_11_4",
    "okdmr.dmrlib.etsi.fec.hamming_17_12_3",
    "okdmr.dmrlib.etsi.fec.golay_20_8_7",
    "okdmr.dmrlib.etsi.fec.quadratic_residue_16_7_6",
)


def reload_library(table):
    """execute the library modules again; the table then refers to the new class objects"""
    import importlib
    import sys

    for m in LIB_MODULES:
        if m in sys.modules:
            importlib.reload(sys.modules[m])
    for c in codes():
        table[c[0]] = c


def define_custom(table, refs, name, base, variant):
    """a class of the caller's own, built on the library's HammingCommon, next to the standard ones"""
    from okdmr.dmrlib.etsi.fec.fec_utils import derive_parity_check_matrix_from_generator
    from okdmr.dmrlib.etsi.fec.hamming_common import HammingCommon

    _, bcls, n, k, d, is_hamming = table[base]
    if not is_hamming:
        raise ValueError("custom classes are built on HammingCommon")
    custom_ref(refs, name, base, variant)
    G = refs[name].G
    if variant == "subclass":
        cls = type("Sub" + bcls.__name__, (bcls,), {})
    else:
        Gm = numpy.array(G)
        cls = type(
            bcls.__name__ if variant.endswith("same-name") else "Custom" + bcls.__name__,
            (HammingCommon,),
            {
                "GENERATOR_MATRIX": Gm,
                "PARITY_CHECK_MATRIX": derive_parity_check_matrix_from_generator(Gm),
                "CORRECT_SYNDROME": numpy.zeros(n - k, dtype=int),
                "CODEWORD_LENGTH": n,
                "CODE_DIMENSION": k,
                "MINIMUM_HAMMING_DISTANCE": d,
            },
        )
    table[name] = (name, cls, n, k, d, True)


def custom_ref(refs, name, base, variant):
    """the reference of a caller-defined class (no library call involved)"""
    B = refs[base]
    k = B.k
    G = [list(map(int, row)) for row in B.G]
    if variant.startswith("permuted"):
        # the parity columns rotated by one: an equivalent code (same n, k, d), other code words
        G = [row[:k] + row[k + 1 :] + row[k : k + 1] for row in G]
    elif variant not in ("sibling", "subclass"):
        raise ValueError(variant)
    R = Ref(name, B.n, k, B.d, True, G)
    R.detects_double = B.detects_double
    refs[name] = R


LIB_CALLS = {"bptc-repair": 196, "bptc-encode": 96, "vbptc-encode": 72}  # name -> number of bits of the argument


def lib_call(what: str, bits: str):
    """the block codes used through the product codes built on them; whatever the call does is not our concern here"""
    try:
        if what == "bptc-repair":
            from okdmr.dmrlib.etsi.fec.bptc_196_96 import BPTC19696

            BPTC19696.repair_if_necessary(bitarray(bits))
        elif what == "bptc-encode":
            from okdmr.dmrlib.etsi.fec.bptc_196_96 import BPTC19696

            BPTC19696.encode(bitarray(bits))
        elif what == "vbptc-encode":
            from okdmr.dmrlib.etsi.fec.vbptc_128_72 import VBPTC12873

            VBPTC12873.encode(bitarray(bits))
        else:
            raise ValueError(what)
    except ValueError:
        raise
    except BaseException:  # noqa
        pass


def apply_meta(table, refs, st):
    if st[0] == "lib":
        lib_call(st[1], bits_of(st[2]))
    elif st[0] == "reload":
        reload_library(table)
    elif st[0] == "ambient":
        ambient(st[1])
    elif st[0] == "custom":
        define_custom(table, refs, st[1], st[2], st[3])


def apply_step(table, held, st, klass="strict"):
    """run one step on the real code; returns (output line, result object or None)"""
    op = st[0]
    if op == "overwrite":
        obj = held[st[1]]
        try:
            if isinstance(obj, numpy.ndarray):
                obj[...] = [int(c) for c in st[2]]
            else:
                obj[:] = bitarray(st[2])
            return "ok", None
        except BaseException as e:  # noqa  (read-only result objects are not a violation)
            return impl_error(e), None
    cls = table[st[1]][1]
    arg = mk_arg(st[2], bits_of(st[3]))
    ref = len(held)
    flat = klass != "strict"
    if op == "gen":
        r = call(cls.generate, arg)
        return (r, None) if isinstance(r, str) else (f"{ref} {canon(r, flat)}", r)
    if op == "check":
        r = call(cls.check, arg)
        return (b01(r) if isinstance(r, str) or r is True or r is False or isinstance(r, numpy.bool_) else f"ERR not-a-bool {type(r).__name__}"), None
    if op == "cac":
        r = call(cls.check_and_correct, arg)
        if isinstance(r, str):
            return r, None
        try:
            ok, obj = r
        except BaseException as e:  # noqa
            return impl_error(e), None
        return f"{ref} {b01(ok)} {canon(obj, flat)}", obj
    if op == "correct":
        r = call(cls.correct_numpy_array, arg)
        return (r, None) if isinstance(r, str) else (f"{ref} {canon(r, flat)}", r)
    raise ValueError(op)


def expected_line(refs, ref, st):
    """what the property demands of the step's output line (None: silent)"""
    op = st[0]
    if op == "overwrite":
        return None
    R = refs[st[1]]
    s = bits_of(st[3])
    if op == "gen":
        return f"{ref} {R.enc(s)}"
    if op == "check":
        return b01(R.is_cw(s))
    if op == "cac":
        e = R.cac(s)
        return None if e is None else f"{ref} {e}"
    if op == "correct":
        e = R.correct(s)
        return None if e is None else f"{ref} {e}"


def run_history(table, refs, steps, window=3, on_bad=None):
    """
    Runs the steps on the real code keeping every result object.  After every step the last
    `window` kept objects are read again, at the end all of them.  Returns (lines, held, expected)
    where lines = [(model line, implementation output)] including the final reads.
    on_bad(kind, index of the offending step, index of the step whose result is affected, expected, actual)
    """
    table, refs = dict(table), dict(refs)  # classes defined by the history are local to it
    held, exp, owner, lines = [], [], [], []
    mref = []  # the model's handle of a kept object (the model hands out nothing for a rejected call)
    nmodel = 0
    reported = set()

    def reread(lo, at):
        for r in range(lo, len(held)):
            if held[r] is None or r in reported:
                continue
            cur = canon(held[r])
            if cur != exp[r]:
                reported.add(r)
                if on_bad:
                    on_bad("held-result-changed", at, owner[r], exp[r], cur)

    try:
        for idx, st in enumerate(steps):
            op = st[0]
            if op in META_OPS:
                apply_meta(table, refs, st)
                continue
            if op == "overwrite":
                out, obj = apply_step(table, held, st)
                if out == "ok":
                    exp[st[1]] = st[2]
                    reported.discard(st[1])
                    if mref[st[1]] is not None:
                        lines.append((f"h.overwrite {mref[st[1]]} {st[2]}", out))
                    reread(max(0, len(held) - window), idx)
                continue
            klass = step_class(table, st)
            out, obj = apply_step(table, held, st, klass)
            ref = len(held)
            err = out.startswith("ERR")
            if klass == "bad":
                # a word of the wrong length is no code word and cannot have been repaired (elements that are
                # no bits, in containers no entry point documents, are not judged: only what happens afterwards)
                if st[2] not in VOID_FORMS and not st[2].startswith("odd-"):
                    if op == "check" and out == "1" and on_bad:
                        on_bad("rejected-call-accepted", idx, idx, "an exception, or False", out)
                    if op == "cac" and not err and out.split(" ")[1:2] == ["1"] and on_bad:
                        on_bad("rejected-call-accepted", idx, idx, "an exception, or (False, …)", out)
                obj = None
            else:
                want = expected_line(refs, ref, st)
                if want is not None and out != want and not (klass == "lenient" and err) and on_bad:
                    on_bad("wrong-result", idx, idx, want, out)
                if klass == "lenient":
                    obj = None
            line = step_line(table, st, klass)
            if line is not None:
                mout = out
                if op in RESULT_OPS and not err:
                    mout = f"{nmodel} {out.split(' ', 1)[1]}"
                lines.append((line, mout))
            if op in RESULT_OPS:
                held.append(obj)
                owner.append(idx)
                exp.append(None if obj is None else out.split(" ")[-1])
                if obj is not None and line is not None:
                    mref.append(nmodel)
                    nmodel += 1
                else:
                    mref.append(None)
            reread(max(0, len(held) - window), idx)
            if idx & (idx + 1) == 0:
                reread(0, idx)  # everything kept so far, after 1, 2, 4, 8, … steps
        reread(0, len(steps) - 1)
    finally:
        ambient("restore")
    for r, obj in enumerate(held):
        if obj is not None and mref[r] is not None:
            lines.append((f"h.read {mref[r]}", canon(obj)))
    return lines, held, exp


def history_fails(table, refs, steps) -> bool:
    bad = []
    run_history(table, refs, steps, on_bad=lambda *a: bad.append(a))
    return bool(bad)


def sub_history(steps, idxs):
    """the steps with the given indices as a history of its own (handles renumbered); None when an
    overwrite would lose its target"""
    sel = set(idxs)
    refmap, n_old, out = {}, 0, []
    for i, st in enumerate(steps):
        if st[0] in RESULT_OPS:
            if i in sel:
                refmap[n_old] = len(refmap)
            n_old += 1
        if i in sel:
            if st[0] == "overwrite":
                if st[1] not in refmap:
                    return None
                out.append(["overwrite", refmap[st[1]], st[2]])
            else:
                out.append(st)
    return out


def fresh_first_failing_each(cand_lists):
    """
    For every list of candidate histories: index of the first one that fails when it is run alone
    in a fresh process (the checking process has already called the library thousands of times, so
    a history that "fails" here may only do so because of state left behind by earlier calls), or None.
    """
    import subprocess
    import sys

    try:
        p = subprocess.run(
            [sys.executable, os.path.abspath(__file__), "--fresh"],
            input=json.dumps({"events": cand_lists}),
            capture_output=True,
            text=True,
            timeout=900,
        )
        return json.loads(p.stdout.strip().splitlines()[-1])["first"]
    except BaseException:  # noqa
        return [None] * len(cand_lists)


def _fresh_main():
    import sys

    data = json.load(sys.stdin)
    ref_json = json.load(open(os.path.join(os.path.dirname(os.path.abspath(__file__)), "..", "reference", "etsi_codes.json")))
    table = {c[0]: c for c in codes()}
    refs = {name: Ref(name, n, k, d, h, ref_json[name]["G"]) for name, _, n, k, d, h in codes()}
    def fails_fresh(hist) -> bool:
        pid = os.fork()  # every candidate sees a library on which nothing has been called yet
        if pid == 0:
            try:
                bad = history_fails(table, refs, hist)
            except BaseException:  # noqa
                os._exit(2)
            os._exit(1 if bad else 0)
        _, status = os.waitpid(pid, 0)
        return os.WIFEXITED(status) and os.WEXITSTATUS(status) == 1

    if "history" in data:
        # the whole history on a fresh library: what fails here does not depend on anything else
        steps = data["history"]
        rd, wr = os.pipe()
        pid = os.fork()
        if pid == 0:
            os.close(rd)
            ev = []
            try:
                run_history(table, refs, steps, on_bad=lambda *a: ev.append(list(a)) if len(ev) < EVENTS_PER_PROBE else None)
            except BaseException:  # noqa
                pass
            with os.fdopen(wr, "w") as fh:
                fh.write(json.dumps(ev))
            os._exit(0)
        os.close(wr)
        with os.fdopen(rd) as fh:
            events = json.loads(fh.read() or "[]")
        os.waitpid(pid, 0)
        shorts = []
        for kind, at, owner, _, _ in events:
            short = None
            for hist in small_candidates(steps, at, owner):
                if fails_fresh(hist):
                    short = hist
                    break
            shorts.append(short)
        print(json.dumps({"events": events, "shorts": shorts}))
        return
    out = []
    for cands in data["events"]:
        first = None
        for i, hist in enumerate(cands):
            if fails_fresh(hist):
                first = i
                break
        out.append(first)
    print(json.dumps({"first": out}))


def _ddmin_main():
    """delta debugging of a failing history; every trial runs in a forked child of this fresh process"""
    import sys
    import time

    data = json.load(sys.stdin)
    steps, keep, deadline = data["steps"], set(data["keep"]), time.time() + data.get("seconds", 20)
    ref_json = json.load(open(os.path.join(os.path.dirname(os.path.abspath(__file__)), "..", "reference", "etsi_codes.json")))
    table = {c[0]: c for c in codes()}
    refs = {name: Ref(name, n, k, d, h, ref_json[name]["G"]) for name, _, n, k, d, h in codes()}

    def test(idxs):
        sub = sub_history(steps, idxs)
        if sub is None:
            return False
        pid = os.fork()
        if pid == 0:
            try:
                bad = history_fails(table, refs, sub)
            except BaseException:  # noqa
                os._exit(2)
            os._exit(1 if bad else 0)
        _, status = os.waitpid(pid, 0)
        return os.WIFEXITED(status) and os.WEXITSTATUS(status) == 1

    cur = list(range(len(steps)))
    if not test(cur):
        print(json.dumps({"history": None}))
        return
    n = 2
    while time.time() < deadline:
        removable = [i for i in cur if i not in keep]
        if not removable:
            break
        chunk = max(1, -(-len(removable) // n))
        progressed = False
        for start in range(0, len(removable), chunk):
            drop = set(removable[start : start + chunk])
            cand = [i for i in cur if i not in drop]
            if test(cand):
                cur, n, progressed = cand, max(n - 1, 2), True
                break
            if time.time() > deadline:
                break
        if not progressed:
            if chunk == 1:
                break
            n = min(len(removable), n * 2)
    print(json.dumps({"history": sub_history(steps, cur)}))


DDMIN_LEFT = [3]  # delta-debugging runs left in this process (failure mode only; keeps the run time bounded)


def ddmin_fresh(prefix, keep):
    import subprocess
    import sys

    if DDMIN_LEFT[0] <= 0:
        return None
    DDMIN_LEFT[0] -= 1
    try:
        p = subprocess.run([sys.executable, os.path.abspath(__file__), "--ddmin"], input=json.dumps({"steps": prefix, "keep": sorted(keep), "seconds": 8}),
                           capture_output=True, text=True, timeout=600)
        return json.loads(p.stdout.strip().splitlines()[-1]).get("history")
    except BaseException:  # noqa
        return None


CODE_DIMS = {"h743": (7, 4), "h1393": (13, 9), "h15113": (15, 11), "h16114": (16, 11), "h17123": (17, 12), "golay2087": (20, 8), "qr1676": (16, 7)}


def refs_len(st, which):
    """documented length of the argument of a call step (custom classes share the dimensions of their base)"""
    n, k = CODE_DIMS[st[1].split(":")[1] if st[1].startswith("custom:") else st[1]]
    return k if which == "k" else n


def is_bad_step(st) -> bool:
    """a call that is expected to be rejected or to raise (wrong length, no bits, undocumented container)"""
    if st[0] not in CALL_OPS:
        return False
    return not documented(st[0], st[2]) or st[2] in VOID_FORMS or len(bits_of(st[3])) != refs_len(st, "k" if st[0] == "gen" else "n")


def small_candidates(steps, at, owner):
    """
    Short sub-histories that may still fail: the affected step alone / with the offending step /
    with the allocation of an overwritten object / with a few predecessors / with the last steps
    on the same code (smallest first).
    """
    alloc = [i for i, st in enumerate(steps[: at + 1]) if st[0] in RESULT_OPS]
    base = {owner, at} | {i for i, st in enumerate(steps[:at]) if st[0] in META_OPS}
    if steps[at][0] == "overwrite" and steps[at][1] < len(alloc):
        base.add(alloc[steps[at][1]])
    sets = [base]
    # the calls that were rejected / raised before (state left behind on an error path), the very first call
    errs = [i for i in range(at) if is_bad_step(steps[i])]
    sets.append(base | set(errs[:1]))
    sets.append(base | set(errs[-1:]))
    sets.append(base | {0})
    first_call = next((i for i in range(at) if steps[i][0] in CALL_OPS), 0)
    sets.append(base | {first_call})
    for back in (1, 2, 4, 8):
        sets.append(base | set(range(max(0, at - back), at)))
        sets.append(base | set(range(max(0, at - back), at)) | set(range(owner, min(at, owner + back + 1))))
    sets.append(base | set(errs[-8:]) | set(errs[:2]))
    code = steps[owner][1]
    same = [i for i in range(max(0, at - 4000), at) if steps[i][0] in CALL_OPS and steps[i][1] == code]
    for m in (6, 40):
        sets.append(base | set(same[-m:]))
    for m in (16, 128):
        sets.append(base | set(range(max(0, at - m), at)))
    cands = []
    for c in sets:
        sub = sub_history(steps, c)
        if sub is not None and sub not in cands:
            cands.append(sub)
    return cands


EVENTS_PER_PROBE = 48  # failures of one history that are examined (the rest is counted)
REPORTS_PER_PROBE = 6  # … and reported


def history_probe(ctx, fails, table, refs, component, steps, correspond=True):
    events = []

    def on_bad(kind, at, owner, expected, actual):
        if len(events) < EVENTS_PER_PROBE:
            events.append((kind, at, owner, expected, actual))
        else:
            # one defect usually spoils every later step: the first few are examined, the rest counted
            ctx.count(f"suppressed-failure:{kind}")

    lines, held, _ = run_history(table, refs, steps, on_bad=on_bad)
    ctx.count(f"hist:{component}:steps", len(steps))
    ctx.count(f"hist:{component}:kept-objects", len(held))
    ctx.count(f"hist:{component}:overwrites", sum(1 for s in steps if s[0] == "overwrite"))
    for st in steps:
        ctx.case(("hist", component) + tuple(st))
    if events:
        report_events(ctx, fails, steps, events)
    if correspond and not ctx.search_only and ctx.driver_ok:
        ctx.correspond(f"history.{component}", [("h.reset", "ok")] + lines)
    return held


def fresh_history(steps):
    """events of the whole history on a fresh library, each with a short history that still fails (or None)"""
    import subprocess
    import sys

    try:
        p = subprocess.run([sys.executable, os.path.abspath(__file__), "--fresh"], input=json.dumps({"history": steps}), capture_output=True, text=True, timeout=900)
        r = json.loads(p.stdout.strip().splitlines()[-1])
        return [tuple(e) for e in r["events"]], r["shorts"]
    except BaseException:  # noqa
        return [], []


def report_events(ctx, fails, steps, events):
    """
    Failing inputs of a history.  The history is run once more on a fresh library (a new process):
    what fails there is self-contained and is reported with a short sub-history that still fails
    (tried in fresh processes as well).  Failures seen only in this process — they need the state
    left behind by the earlier part of the run — are reported with the prefix of the history.
    """
    fev, shorts = fresh_history(steps)
    if fev:
        order = [i for i, sh in enumerate(shorts) if sh is not None] + [i for i, sh in enumerate(shorts) if sh is None]
        chosen = [(fev[i], shorts[i], True) for i in order[:REPORTS_PER_PROBE]]
        if shorts[order[0]] is None:
            # the steps that matter are far apart: delta debugging on the prefix, in fresh processes
            (kind, at, owner, _, _) = fev[order[0]]
            small = ddmin_fresh(steps[: at + 1], {owner, at})
            chosen[0] = (fev[order[0]], small, True)
        for _ in range(max(0, len(events) - len(chosen))):
            ctx.count(f"suppressed-failure:{events[0][0]}")
    else:
        chosen = [(ev, None, False) for ev in events[:REPORTS_PER_PROBE]]
        for ev in events[REPORTS_PER_PROBE:]:
            ctx.count(f"suppressed-failure:{ev[0]}")
    for (kind, at, owner, expected, actual), short, alone in chosen:
        if short is None:
            short = steps[: at + 1]
        if kind == "wrong-result" and steps[at][0] in RESULT_OPS:
            # the leading handle number belongs to the long history, not to the shortened one
            expected = expected.split(" ", 1)[-1]
            actual = actual if actual.startswith("ERR") else actual.split(" ", 1)[-1]
        code = steps[owner][1] if steps[owner][0] != "overwrite" else None
        if kind == "held-result-changed":
            what = (
                f"the object returned by step {owner} ({' '.join(map(str, steps[owner]))}) changed its content "
                f"after step {at} ({' '.join(map(str, steps[at]))})"
            )
        else:
            what = f"step {at} ({' '.join(map(str, steps[at]))}) of a history returns a wrong result"
        fails(
            kind if kind == "held-result-changed" else "wrong-result-in-history",
            {"code": code, "history": [" ".join(map(str, s)) for s in short], "fails_when_run_alone_in_a_fresh_process": alone},
            what if alone else what + " (seen after the earlier part of this run; the history alone did not reproduce it in a fresh process)",
            expected=expected,
            actual=actual,
        )


# ------------------------------------------------------------------------------------------------
# scenarios: histories on a library on which nothing has been called yet (one forked process each)
# ------------------------------------------------------------------------------------------------
SWEEP_BA = ("be", "le", "dirty-be", "sub-le", "lib-n2b", "ba-slice")
SWEEP_NP = ("np-int64", "np-ro", "np-frombuf", "np-col", "np-be64", "np-bool", "np-object", "np-bcast", "np-uint8", "np-ro-col")


def resized(s: str, n: int):
    """the bits of a rejected argument cut / padded to the documented length (keys that collide with it)"""
    out = []
    for fill in "01":
        for w in ((s + fill * n)[:n], (fill * n + s)[-n:]):
            if w not in out:
                out.append(w)
    return out


def sweep_steps(rng, refs, code, focus=(), light=False):
    """
    What the property says about one code, as a history: code words of a few messages, every single
    error position through every repairing entry point (containers rotate), for the extended code
    every double error, for Golay / QR every single and double error through the checker; the words
    in `focus` (arguments of earlier rejected calls) cut / padded to the documented length.
    """
    R = refs[code]
    n, k = R.n, R.k
    steps = []
    vs = [0, 2**k - 1] + [rng.randrange(2**k) for _ in range(1 if light else 3)]
    pairs = list(itertools.combinations(range(n), 2))
    for j, v in enumerate(vs):
        c = R.cw_int[v]
        steps.append(["gen", code, ("be", "le", "np-int64", "np-ro", "np-frombuf")[j % 5], format(v, f"0{k}b")])
        steps.append(["check", code, SWEEP_BA[j % len(SWEEP_BA)], R.cw[v]])
        if R.is_hamming:
            for p in range(n):
                steps.append(["cac", code, SWEEP_BA[(p + j) % len(SWEEP_BA)], format(c ^ (1 << p), R.fmt)])
            for p in range(n):
                steps.append(["correct", code, SWEEP_NP[(p + j) % len(SWEEP_NP)], format(c ^ (1 << p), R.fmt)])
            steps.append(["check", code, "le", format(c ^ (1 << rng.randrange(n)), R.fmt)])
            steps.append(["cac", code, "be", R.cw[v]])
            steps.append(["correct", code, "np-ro", R.cw[v]])
    c = R.cw_int[vs[2]]
    if R.is_hamming and R.detects_double:
        for a, b in pairs if not light else rng.sample(pairs, 40):
            steps.append(["cac", code, "be", format(c ^ (1 << a) ^ (1 << b), R.fmt)])
        for a, b in rng.sample(pairs, 30):
            steps.append(["correct", code, SWEEP_NP[(a + b) % len(SWEEP_NP)], format(c ^ (1 << a) ^ (1 << b), R.fmt)])
    if not R.is_hamming:
        for p in range(n):
            steps.append(["check", code, "be", format(c ^ (1 << p), R.fmt)])
        for a, b in pairs if not light else rng.sample(pairs, 40):
            steps.append(["check", code, "le" if (a + b) % 2 else "be", format(c ^ (1 << a) ^ (1 << b), R.fmt)])
        for _ in range(30):
            e = 0
            for b in rng.sample(range(n), rng.randrange(3, R.d + 2)):
                e |= 1 << b
            steps.append(["check", code, "be", format(c ^ e, R.fmt)])
    seen = []
    for f in focus:
        for w in resized(f, n):
            if w in seen:
                continue
            seen.append(w)
            steps.append(["check", code, "be", w])
            if R.is_hamming:
                steps.append(["cac", code, "be", w])
                steps.append(["correct", code, "np-int64", w])
        for m in resized(f, k)[:2]:
            steps.append(["gen", code, "be", m])
    return steps


def scenario_steps(sc, refs):
    if "steps" in sc:
        return [list(st) for st in sc["steps"]]
    import random

    refs = dict(refs)
    for st in sc["pre"]:
        if st[0] == "custom":
            custom_ref(refs, st[1], st[2], st[3])
    rng = random.Random(f"{sc['id']}:{sc.get('seed', 0)}")
    sweep = sweep_steps(rng, refs, sc["code"], sc.get("focus", ()), sc.get("light", False))
    if sc.get("between"):
        # e.g. random reseeded between the calls
        mixed = []
        for i, st in enumerate(sweep):
            if i % 7 == 3:
                mixed.append(list(sc["between"]))
            mixed.append(st)
        sweep = mixed
    return [list(st) for st in sc["pre"]] + sweep


SCENARIO_SHRINKS = 60  # short failing histories looked for per run of the scenario process


def _scenarios_main():
    """
    stdin: {"scenarios": [...], "lines": bool}.  Every scenario runs in a process forked from this
    one, which has imported the library and called nothing.  stdout: one JSON list of results.
    """
    import sys
    import traceback

    data = json.load(sys.stdin)
    ref_json = json.load(open(os.path.join(os.path.dirname(os.path.abspath(__file__)), "..", "reference", "etsi_codes.json")))
    table = {c[0]: c for c in codes()}
    refs = {name: Ref(name, n, k, d, h, ref_json[name]["G"]) for name, _, n, k, d, h in codes()}
    for R in refs.values():
        R._near()  # the reference tables are built once, before any fork
    gc.collect()
    gc.freeze()  # … and are of no interest to a collection in the forked processes
    want_lines = data.get("lines", True)

    def forked(steps, lines):
        rd, wr = os.pipe()
        pid = os.fork()
        if pid == 0:
            os.close(rd)
            ev, out = [], {}
            try:
                import signal

                signal.alarm(300)  # a call that never returns must not hold up the check
                ls, _, _ = run_history(table, refs, steps, on_bad=lambda *a: ev.append(list(a)) if len(ev) < EVENTS_PER_PROBE else None)
                if lines:
                    out["lines"] = ls
            except BaseException:  # noqa
                out["crash"] = traceback.format_exc()[-600:]
            out["events"] = ev
            try:
                with os.fdopen(wr, "w") as fh:
                    fh.write(json.dumps(out))
            finally:
                os._exit(0)
        os.close(wr)
        with os.fdopen(rd) as fh:
            raw = fh.read()
        os.waitpid(pid, 0)
        try:
            return json.loads(raw)
        except ValueError:
            return {"events": [], "crash": "the scenario process died"}

    shrinks = [SCENARIO_SHRINKS]
    results = []
    for sc in data["scenarios"]:
        try:
            steps = scenario_steps(sc, refs)
        except BaseException:  # noqa
            results.append({"id": sc.get("id"), "events": [], "crash": traceback.format_exc()[-600:], "nsteps": 0})
            continue
        res = forked(steps, want_lines)
        res["id"] = sc.get("id")
        res["nsteps"] = len(steps)
        res["shorts"] = []
        npre = len(sc.get("pre", ()))
        for kind, at, owner, _, _ in res["events"][:2]:
            short = None
            if shrinks[0] > 0:
                shrinks[0] -= 1
                cands = []
                for idxs in ({owner, at}, set(range(npre)) | {owner, at}):
                    sub = sub_history(steps, idxs)
                    if sub is not None and sub not in cands:
                        cands.append(sub)
                for sub in small_candidates(steps, at, owner):
                    if sub not in cands:
                        cands.append(sub)
                cands.append(steps[: at + 1])
                for sub in cands:
                    if forked(sub, False)["events"]:
                        short = sub
                        break
            res["shorts"].append(short)
        if res["events"]:
            res["steps"] = steps[: max(e[1] for e in res["events"][:2]) + 1]
        results.append(res)
    sys.stdout.write(json.dumps(results) + "\n")
    sys.stdout.flush()


def start_scenarios(scs, flags=(), lines=True, env=None):
    """the scenario process runs next to the rest of the check; collect_scenarios() waits for it"""
    import subprocess
    import sys
    import tempfile

    try:
        fin = tempfile.TemporaryFile("w+")
        fin.write(json.dumps({"scenarios": scs, "lines": lines}))
        fin.seek(0)
        fout = tempfile.TemporaryFile("w+")
        p = subprocess.Popen([sys.executable, *flags, os.path.abspath(__file__), "--scenarios"], stdin=fin, stdout=fout, stderr=subprocess.DEVNULL,
                             env=dict(os.environ, **env) if env else None)
        return p, fout, scs, flags
    except BaseException as e:  # noqa
        return None, None, scs, flags


def collect_scenarios(ctx, fails, handle, label):
    p, fout, scs, flags = handle
    results = None
    if p is not None:
        try:
            p.wait(timeout=1800)
            fout.seek(0)
            results = json.loads(fout.read().strip().splitlines()[-1])
        except BaseException as e:  # noqa
            results = None
    if results is None or len(results) != len(scs):
        # the histories on a fresh library are part of what this check claims to have examined
        from common import Infra

        raise Infra(f"C06 scenario process '{label}' did not deliver its results ({'no output' if results is None else 'incomplete'})")
    by_group = {}
    for sc, res in zip(scs, results):
        group = sc["group"]
        ctx.count(f"scenario:{label}:{group}")
        ctx.count(f"scenario:{label}:steps", res.get("nsteps", 0))
        ctx.case(("scenario", label, sc["id"]))
        if res.get("crash"):
            ctx.notes.append(f"scenario {sc['id']} ({label}) did not run to its end: {res['crash'][-300:]}")
            ctx.count(f"scenario:{label}:crashed")
        if res.get("lines"):
            by_group.setdefault(group, []).append(("h.reset", "ok"))
            by_group[group] += [tuple(x) for x in res["lines"]]
        evs = res.get("events", [])
        steps = res.get("steps", [])
        for i, (kind, at, owner, expected, actual) in enumerate(evs):
            if i >= 2:
                ctx.count(f"suppressed-failure:{kind}")
                continue
            short = res["shorts"][i] if i < len(res.get("shorts", [])) else None
            alone = short is not None
            hist = short if short is not None else steps[: at + 1]
            if kind == "wrong-result" and steps[at][0] in RESULT_OPS:
                expected = expected.split(" ", 1)[-1]
                actual = actual if actual.startswith("ERR") else actual.split(" ", 1)[-1]
            if kind == "held-result-changed":
                what = f"the object returned by '{' '.join(map(str, steps[owner]))}' changed its content after '{' '.join(map(str, steps[at]))}'"
            elif kind == "rejected-call-accepted":
                what = f"'{' '.join(map(str, steps[at]))}': a word of the wrong length is reported as a code word / as repaired"
            else:
                what = f"'{' '.join(map(str, steps[at]))}' returns a wrong result"
            inp = {"code": steps[owner][1] if steps[owner][0] in CALL_OPS else None, "history": [" ".join(map(str, s)) for s in hist],
                   "scenario": sc["id"], "fails_when_run_alone_in_a_fresh_process": alone}
            if flags:
                inp["python_flags"] = list(flags)
            fails(kind if kind != "wrong-result" else "wrong-result-in-history", inp,
                  what + f" in a history that starts on a freshly imported library (scenario {sc['id']}" + (f", python {' '.join(flags)}" if flags else "") + ")",
                  expected=expected, actual=actual)
    if not ctx.search_only and ctx.driver_ok:
        for group, lines in sorted(by_group.items()):
            ctx.correspond(f"scenario.{label}.{group}", lines)


def first_call_kinds(rng, R, op, everything=False):
    """(kind, form, bits, focus): calls that are rejected / raise, as the first thing that happens to a class"""
    n, k = R.n, R.k
    L = k if op == "gen" else n
    v = rng.randrange(2**k)
    if op == "gen":
        base = format(v, f"0{k}b")
    else:
        base = format(R.cw_int[v] ^ (1 << rng.randrange(n)), R.fmt)  # a word the repairing entry points have work to do on
    simple = {"gen": ("be", "le", "sub-le", "np-int64", "np-uint8"), "check": ("be", "le", "dirty-be", "sub-le"), "cac": ("be", "le", "dirty-le", "sub-le"),
              "correct": ("np-int64", "np-uint8", "np-ro", "np-frombuf", "np-col")}[op]
    out = []
    for kind, w in (("short1", base[:-1]), ("short1-front", base[1:]), ("half", base[: L // 2]), ("empty", ""), ("long1", base + "0"), ("long1-front", "1" + base),
                    ("twice", base + base), ("octets", base + "1" * ((-L) % 8 or 8)), ("other-len", base[:k] if op != "gen" else base + "0" * (n - k))):
        out.append((kind, rng.choice(simple), w, [w]))
    other = [(f, f, base, [base]) for f in VOID_FORMS + ODD_FORMS]
    other += [(f"short1-{f}", f, base[:-1], [base[:-1]]) for f in ("odd-list", "odd-robuf", "odd-float")]
    if op == "cac":
        other += [(f"raises-in-repair-{f}", f, base, [base]) for f in ("np-int64", "frozen-be", "frozen-le", "np-ro")]
    if op == "correct":
        other += [(f"wrong-container-{f}", f, base, [base]) for f in ("be", "frozen-le")]
    if op == "check":
        other += [(f"short1-{f}", f, base[:-1], [base[:-1]]) for f in ("np-int64", "frozen-be")]
    if not everything:
        other = rng.sample(other, 6)
    return out + other


def random_valid_step(rng, refs, name, forms=None):
    R = refs[name]
    op = rng.choice(CALL_OPS if R.is_hamming else ("gen", "check"))
    v = rng.randrange(2**R.k)
    if op == "gen":
        return ["gen", name, rng.choice(("be", "le", "np-int64")), format(v, f"0{R.k}b")]
    w = R.cw_int[v] ^ (1 << rng.randrange(R.n)) if rng.random() < 0.7 else R.cw_int[v]
    form = rng.choice({"check": ("be", "le"), "cac": ("be", "le"), "correct": ("np-int64", "np-ro")}[op])
    return [op, name, form, format(w, R.fmt)]


def build_scenarios(ctx, refs):
    rng = ctx.rng
    names = [c[0] for c in codes()]
    scs, opt = [], []

    def add(group, ident, pre, code, focus=(), light=False, to=None, between=None):
        (scs if to is None else to).append({"id": f"{group}/{ident}", "group": group, "pre": pre, "code": code, "focus": list(focus), "light": light, "seed": ctx.seed, "between": between})

    for name in names:
        R = refs[name]
        ops = CALL_OPS if R.is_hamming else ("gen", "check")
        # ---- the first call on the class is rejected / raises
        for op in ops:
            for kind, form, w, focus in first_call_kinds(rng, R, op, everything=ctx.thorough()):
                add("first-call-fails", f"{name}/{op}/{kind}", [[op, name, form, bits_tok(w)]], name, focus, light=not R.is_hamming)
            # ---- the first call is a valid one in an unusual container
            docs = [f for f in BA_FORMS + BA_LIB_FORMS + NP_FORMS + NP_PROV_FORMS if documented(op, f) and f not in ("be", "np-int64")]
            always = [f for f in ("le", "np-bool", "np-ro") if f in docs][:2]
            for form in docs if ctx.thorough() else always + rng.sample([f for f in docs if f not in always], 2):
                L = R.k if op == "gen" else R.n
                if form.startswith("buf-") and L % 8:
                    continue
                v = rng.randrange(2**R.k)
                w = format(v, f"0{R.k}b") if op == "gen" else format(R.cw_int[v] ^ (1 << rng.randrange(R.n)), R.fmt)
                add("first-call-unusual-container", f"{name}/{op}/{form}", [[op, name, form, w]], name, light=True)
        # ---- rejected calls later in a history / several of them
        for i in range(3):
            pre = [random_valid_step(rng, refs, name) for _ in range(rng.randrange(3, 24))]
            op = rng.choice(ops)
            kind, form, w, focus = rng.choice(first_call_kinds(rng, R, op, everything=True))
            pre.append([op, name, form, bits_tok(w)])
            add("rejected-call-later", f"{name}/{i}/{op}/{kind}", pre, name, focus, light=True)
        pre, focus = [], []
        for _ in range(6):
            op = rng.choice(ops)
            kind, form, w, f = rng.choice(first_call_kinds(rng, R, op, everything=True))
            pre.append([op, name, form, bits_tok(w)])
            focus += f
            if rng.random() < 0.4:
                pre.append(random_valid_step(rng, refs, name))
        add("several-rejected-calls", name, pre, name, focus[:3], light=True)
        # ---- the modules are executed again
        op = rng.choice(ops)
        kind, form, w, focus = rng.choice(first_call_kinds(rng, R, op, everything=True)[:9])
        add("reloaded", f"{name}/used-then-reloaded/{op}/{kind}", [random_valid_step(rng, refs, name) for _ in range(5)] + [["reload", "-"], [op, name, form, bits_tok(w)]], name, focus, light=True)
        add("reloaded", f"{name}/reloaded-at-once/{op}/{kind}", [["reload", "-"], [op, name, form, bits_tok(w)]], name, focus, light=True)
        # ---- interpreter / process state
        for what in AMBIENT[:-1]:
            add("ambient", f"{name}/{what}", [["ambient", what]], name, light=True, between=["ambient", what] if what == "reseed" else None)
        add("ambient", f"{name}/all", [["ambient", w] for w in AMBIENT[:-1]], name, light=True)
        # ---- python -O (asserts stripped): valid calls only
        add("python-O", name, [], name, to=opt)
        add("python-O", f"{name}/ambient", [["ambient", "log-debug"], ["ambient", "reseed"]], name, light=True, to=opt)
    # ---- the first call of the process goes to another class
    for xa, xb in itertools.permutations(names, 2):
        Ra = refs[xa]
        op = rng.choice(CALL_OPS if Ra.is_hamming else ("gen", "check"))
        if rng.random() < 0.6:
            kind, form, w, focus = rng.choice(first_call_kinds(rng, Ra, op, everything=True)[:9])
            pre = [[op, xa, form, bits_tok(w)]]
        else:
            kind, focus = "valid", []
            pre = [random_valid_step(rng, refs, xa)]
            focus = [bits_of(pre[0][3])]
        add("first-call-on-another-class", f"{xa}-then-{xb}/{op}/{kind}", pre, xb, focus, light=True)
    # ---- the first use of a class happens inside another part of the library (product codes), also with a wrong length
    for what, users in (("bptc-repair", ("h15113", "h1393")), ("bptc-encode", ("h15113", "h1393")), ("vbptc-encode", ("h16114",))):
        L = LIB_CALLS[what]
        for kind, ln in (("valid", L), ("short", L - 1), ("long", L + 8)):
            bits = "".join(rng.choice("01") for _ in range(ln))
            for user in users:
                add("first-use-through-product-code", f"{what}/{kind}/{user}", [["lib", what, bits]], user, light=True)
    # ---- a class of the caller's own (HammingCommon with its own matrices / a subclass) next to the standard ones
    for name in names:
        R = refs[name]
        if not R.is_hamming:
            continue
        for variant in CUSTOM_VARIANTS:
            cname = f"custom:{name}:{variant}"
            rr = dict(refs)
            custom_ref(rr, cname, name, variant)
            C = rr[cname]
            op = rng.choice(CALL_OPS)
            kind, form, w, focus = rng.choice(first_call_kinds(rng, C, op, everything=True)[:9])
            c = C.cw_int[rng.randrange(2**C.k)]
            use = [["cac", cname, "be", format(c ^ (1 << p), C.fmt)] for p in range(C.n)] + [["correct", cname, "np-int64", format(c ^ (1 << p), C.fmt)] for p in range(C.n)]
            first = [[op, cname, form, bits_tok(w)]] if rng.random() < 0.6 else []
            add("own-class-first", f"{name}/{variant}/{op}/{kind if first else 'valid'}", [["custom", cname, name, variant]] + first + use, name, focus, light=True)
            kind, form, w, focus = rng.choice(first_call_kinds(rng, R, op, everything=True)[:9])
            first = [[op, name, form, bits_tok(w)]] if rng.random() < 0.6 else [random_valid_step(rng, refs, name)]
            add("own-class-second", f"{name}/{variant}/{op}", [["custom", cname, name, variant]] + first, cname, focus, light=True)
    return scs, opt


def parse_step(s: str):
    p = s.split(" ")
    if p[0] == "overwrite":
        return ["overwrite", int(p[1]), p[2]]
    if p[0] in CALL_OPS and len(p) == 3:
        p.append("-")
    return p


def as_out(r) -> str:
    if isinstance(r, str):
        return r
    if isinstance(r, tuple):
        return f"{b01(r[0])} {canon(r[1])}"
    if r is True or r is False or isinstance(r, numpy.bool_):
        return b01(r)
    return canon(r)


def table_view_results(cls, R):
    """
    Views of the class's own tables handed to the entry points (rows of G are code words, rows of H
    are words of length n, columns of G have length k).  [(description, actual, expected)]; the last
    entries say whether the tables still hold what the reference copy of the standard says.
    """
    from okdmr.dmrlib.utils.bits_bytes import numpy_array_to_bitarray

    out = []
    G, H = cls.GENERATOR_MATRIX, cls.PARITY_CHECK_MATRIX
    for tname, T in (("GENERATOR_MATRIX", G), ("PARITY_CHECK_MATRIX", H)):
        for i in range(T.shape[0]):
            ws = canon(T[i])
            if len(ws) != R.n or ws.startswith("ERR"):
                continue
            out.append((f"check(numpy_array_to_bitarray({tname}[{i}]))", as_out(call(lambda: cls.check(numpy_array_to_bitarray(T[i])))), b01(R.is_cw(ws))))
            if R.is_hamming:
                want = R.correct(ws)
                got = as_out(call(cls.correct_numpy_array, T[i]))
                if want is not None:
                    out.append((f"correct_numpy_array({tname}[{i}])  (a row view of the class table)", got, want))
    for j in range(G.shape[1]):
        ms = canon(G[:, j])
        if len(ms) == R.k and not ms.startswith("ERR"):
            out.append((f"generate(GENERATOR_MATRIX[:, {j}])  (a column view of the class table)", as_out(call(cls.generate, G[:, j])), R.enc(ms)))
    out.append(("GENERATOR_MATRIX afterwards", json.dumps(numpy.asarray(cls.GENERATOR_MATRIX).tolist()), json.dumps([list(map(int, r)) for r in R.G])))
    Href = [[int(R.G[i][R.k + j]) for i in range(R.k)] + [int(j == t) for t in range(R.n - R.k)] for j in range(R.n - R.k)]
    out.append(("PARITY_CHECK_MATRIX afterwards", json.dumps(numpy.asarray(cls.PARITY_CHECK_MATRIX).tolist()), json.dumps(Href)))
    return out


def chain_results(cls, R, ms, pos):
    """
    Arguments produced by the library itself: the output of one entry point (or of the library's own
    converters) handed to another one.  [(description, actual, expected)] for the message `ms` and
    the error position `pos`.
    """
    from okdmr.dmrlib.utils.bits_bytes import bitarray_to_numpy_array, numpy_array_to_bitarray

    n, k = R.n, R.k
    c = R.enc(ms)
    e = c[:pos] + ("1" if c[pos] == "0" else "0") + c[pos + 1 :]
    out = []
    g = call(cls.generate, bitarray(ms))
    if isinstance(g, str):
        return [("generate(m)", g, c)]
    out.append(("generate(generate(m)[:k])  (a slice of the returned array, as BPTC does)", as_out(call(cls.generate, g[:k])), c))
    out.append(("check(numpy_array_to_bitarray(generate(m)))", as_out(call(lambda: cls.check(numpy_array_to_bitarray(g)))), "1"))
    r = call(cls.check, g)  # the array itself: not documented for check, may raise
    if not isinstance(r, str):
        out.append(("check(generate(m))", as_out(r), "1"))
    try:
        g[pos] ^= 1  # the caller inverts one element of the array the library returned
    except BaseException as x:  # noqa
        return out + [("generate(m)[pos] ^= 1", impl_error(x), "a writeable array")]
    if not R.is_hamming:
        out.append(("check(numpy_array_to_bitarray(generate(m) with one element inverted))", as_out(call(lambda: cls.check(numpy_array_to_bitarray(g)))), "0"))
        return out
    r1 = call(cls.correct_numpy_array, g)
    out.append(("correct_numpy_array(generate(m) with one element inverted)", as_out(r1), c))
    if not isinstance(r1, str):
        out.append(("correct_numpy_array(correct_numpy_array(…))  (the result handed back)", as_out(call(cls.correct_numpy_array, r1)), c))
        out.append(("check(numpy_array_to_bitarray(correct_numpy_array(…)))", as_out(call(lambda: cls.check(numpy_array_to_bitarray(r1)))), "1"))
    g = call(cls.generate, bitarray(ms))
    if isinstance(g, str):
        return out + [("generate(m) once more", g, c)]
    g[pos] ^= 1
    r2 = call(lambda: cls.check_and_correct(numpy_array_to_bitarray(g)))
    out.append(("check_and_correct(numpy_array_to_bitarray(generate(m) with one element inverted))", as_out(r2), f"1 {c}"))
    if isinstance(r2, tuple) and len(r2) == 2:
        out.append(("check(check_and_correct(…)[1])", as_out(call(cls.check, r2[1])), "1"))
        out.append(("check_and_correct(check_and_correct(…)[1])", as_out(call(cls.check_and_correct, r2[1])), f"1 {c}"))
        out.append(("generate(check_and_correct(…)[1][:k])", as_out(call(lambda: cls.generate(r2[1][:k]))), c))
        out.append(("correct_numpy_array(bitarray_to_numpy_array(check_and_correct(…)[1]))", as_out(call(lambda: cls.correct_numpy_array(bitarray_to_numpy_array(r2[1])))), c))
    # the same received word through both repairing entry points, one after the other
    w = bitarray(e)
    a = bitarray_to_numpy_array(w)
    out.append(("correct_numpy_array(bitarray_to_numpy_array(w)), then check_and_correct(w)", as_out(call(cls.correct_numpy_array, a)) + " / " + as_out(call(cls.check_and_correct, w)), f"{c} / 1 {c}"))
    return out


# ------------------------------------------------------------------------------------------------
# ------------------------------------------------------------------------------------------------
# history / object-identity probes (harness/histories.py); the adapters of the four FEC properties live in harness/hist_fec.py
def ENTRY_POINTS():
    import hist_fec

    return hist_fec.entry_points("c06")


def run(ctx):
    import histories

    histories.run(ctx, ENTRY_POINTS)  # generic history / object-identity probes (adapters: harness/hist_fec.py)
    ctx.rule = (
        "per code: every one of the 2^k messages through generate; received words = all 2^n words "
        "(n<=17 always, Golay 2^20: a seeded quarter in quick, all in thorough) plus one word of every "
        "coset, every single-bit (for (16,11,4) double-bit; Golay/QR single+double+sampled triple) "
        "neighbour of code words through check / check_and_correct / correct_numpy_array; every "
        "message and a fixed share of the words again in every accepted argument container "
        "(bitarray big/little endian, dirty pad bits, imported buffer, subclass, frozen; ndarray "
        "int64/column view/reversed view/uint8/bool); histories that keep every returned object "
        "(code book of >= 8448 (thorough 70000) encodes per code, overwrite-then-call-again, random interleaving of all "
        "codes and entry points, words of one code resized to another code) and read them again "
        "afterwards; every message x every single error position through check_and_correct (both tiers) and "
        "correct_numpy_array; ndarray arguments of every provenance (read-only, frombuffer over bytes / bytearray, "
        "broadcast views, Fortran-ordered rows / columns, non-native byte order, other item sizes, object dtype, "
        "subclass, read-only memory map, unaligned, explicit random layouts: item size x byte order x offset x "
        "stride x writeable) for generate / correct_numpy_array (exact result) and check / check_and_correct "
        "(may raise, must not return a wrong answer), likewise immutable bitarrays and list / tuple / str / bytes / "
        "2-D / float containers; code words under transformations (reversed, complemented, rotated, halves "
        "swapped, octets swapped / bit-reversed, shifted, code word of the other code of the same length); "
        "outputs of one entry point fed to another; rejected calls (wrong length shorter / longer / empty, no "
        "bits, wrong container) inside the interleaved history; and, in forked processes on a freshly imported "
        "library, scenarios: the first call on a class is a rejected one (every code x entry point x kind) or uses "
        "an unusual container or goes to another class / a caller-defined HammingCommon class with the same "
        "dimensions or name / happens inside BPTC / VBPTC, rejected calls later, reloaded modules, root logger "
        "at DEBUG, failing stdout / stderr, reseeded random, warnings as errors, numpy errstate raise, and python "
        "-O — each followed by the single (and (16,11,4) double) error sweep through every entry point; a case "
        "is non-trivial unless it is the all-zero word; distinct = distinct (code, operation, container, word), "
        "history or scenario"
    )
    ctx.trusted_base += [
        "Lean 4.33 kernel",
        "tools/extract.py (reads GENERATOR_MATRIX / PARITY_CHECK_MATRIX / CORRECT_SYNDROME / n,k,d of the 7 classes from /repo)",
        "hand-written model of generate/check/check_and_correct (Model/Codes.lean), of the bitarray buffer, of the "
        "memory layout of an ndarray argument, of rejected calls and of the object history (Model/CodesStore.lean) "
        "tied to the code by this run's correspondence; the model is stateless between calls, the scenario "
        "processes are what ties that to the code",
        "numpy / bitarray are trusted as the substrate of the implementation (tobytes()/endian()/iteration of bitarray define the buffer <-> logical bits relation the model states)",
        "Spec/EtsiCodes.lean + harness/reference/etsi_codes.json: hand-maintained reference copy of the ETSI Annex B.3 generator matrices",
    ]
    ctx.assumptions += [
        "bit strings are passed as bitarrays (either bit order) of the documented length, or, for generate / "
        "correct_numpy_array, as one-dimensional 0/1 ndarrays of any integer / bool / object dtype, layout and "
        "writeability; check_and_correct repairs in place and therefore gets a mutable bitarray (an immutable one, "
        "or any other container, may be refused with an exception but must not be answered wrongly)",
        "a call with a word of the wrong length is rejected (AssertionError; not under python -O, where asserts "
        "are stripped: there only calls of the documented length are examined)",
        "single-threaded callers (forced thread interleavings are not examined)",
    ]
    fails = Fails(ctx)
    ref_json = json.load(open(os.path.join(os.path.dirname(os.path.abspath(__file__)), "..", "reference", "etsi_codes.json")))
    table = {c[0]: c for c in codes()}
    refs = {name: Ref(name, n, k, d, h, ref_json[name]["G"]) for name, _, n, k, d, h in codes()}
    # class tables as they are now (they must still be the same at the end of the run)
    tables0 = {
        name: {a: getattr(c[1], a).tolist() for a in ("GENERATOR_MATRIX", "PARITY_CHECK_MATRIX", "CORRECT_SYNDROME")}
        for name, c in table.items()
    }
    do_corr = not ctx.search_only and ctx.driver_ok
    long_held = []  # (code, history description, object, content at return) read again at the very end
    # histories on a freshly imported library run in processes of their own, next to the sweeps below
    scs, scs_opt = build_scenarios(ctx, refs)
    h_fresh = start_scenarios(scs, lines=do_corr)
    h_opt = start_scenarios(scs_opt, flags=("-OO",), lines=do_corr, env={"PYTHONHASHSEED": str(1 + ctx.seed % 1000)})  # a fixed, seed-dependent str hash

    for name, cls, n, k, d, is_hamming in codes():
        R = refs[name]
        # ---------------- messages: exhaustive
        cw = {}
        pairs = []
        rG = ref_json[name]["G"]
        for v in range(2**k):
            m = int2ba(v, length=k)
            out = gen_str(cls, bitarray(m))
            cw[v] = out
            # oracle: the code word is the one the standard's generator matrix (reference copy) gives
            exp = "".join(str(sum(rG[i][j] & m[i] for i in range(k)) % 2) for j in range(n))
            if out != exp:
                fails("not-the-etsi-codeword", {"code": name, "message": bits_str(m)}, f"{name}.generate differs from the ETSI B.3 generator matrix", expected=exp, actual=out)
            pairs.append((f"code.gen {name} {bits_str(m)}", out))
            ctx.case((name, "gen", v), nontrivial=v != 0, sample={"code": name, "op": "generate", "message": bits_str(m), "out": out} if v == 5 else None)
            # oracle: systematic, length, passes the checker
            if isinstance(out, str) and out.startswith("ERR"):
                fails("generate-raises", {"code": name, "message": bits_str(m)}, f"{name}.generate raised {out}")
                continue
            if len(out) != n or out[:k] != bits_str(m):
                fails("not-systematic", {"code": name, "message": bits_str(m)}, f"{name}.generate is not systematic / wrong length", expected=bits_str(m), actual=out)
            c = call(cls.check, bitarray(out))
            if c is not True:
                fails("generated-word-rejected", {"code": name, "message": bits_str(m)}, f"{name}.check rejects generate output", expected=True, actual=str(c))
        if do_corr:
            ctx.correspond(f"{name}.generate", pairs)
        cwset = set(cw.values())
        ctx.count(f"{name}:messages", 2**k)
        # oracle: exactly 2^k distinct code words, minimum distance (all pairs via linearity AND sampled pairs)
        if len(cwset) != 2**k:
            fails("codewords-not-distinct", {"code": name}, f"{name}: generate is not injective", expected=2**k, actual=len(cwset))
        wmin = min((w.count("1") for w in cwset if "1" in w), default=0)
        if wmin < d:
            wit = next(v for v, w in cw.items() if w.count("1") == wmin and "1" in w)
            fails("min-distance", {"code": name, "message": bits_str(int2ba(wit, length=k))}, f"{name}: code word of weight {wmin} < d={d}", expected=d, actual=wmin)
        for _ in range(ctx.budget(300, 5000)):
            a, b = ctx.rng.randrange(2**k), ctx.rng.randrange(2**k)
            if a == b:
                continue
            dist = sum(x != y for x, y in zip(cw[a], cw[b]))
            ctx.case((name, "dist", a, b))
            if dist < d:
                fails("min-distance", {"code": name, "a": a, "b": b}, f"{name}: two code words at distance {dist} < {d}", expected=d, actual=dist)

        # ---------------- the code book as a caller collects it: every returned array is kept
        rounds = max(1, -(-ctx.budget(8448, 70000) // 2**k))  # more kept arrays than a pool of 8192 / 65536 would hold
        gen_forms = BA_FORMS + BA_LIB_FORMS + NP_FORMS + NP_PROV_FORMS
        steps = []
        for r in range(rounds):
            for v0 in range(2**k):
                # the code book in counting order first, then messages at random (no period that a
                # recycling scheme of the implementation could share)
                v = v0 if r == 0 else ctx.rng.randrange(2**k)
                form = "be" if r == 0 else ctx.rng.choice(gen_forms)
                if form.startswith("buf-") and k % 8:
                    form = "le"
                steps.append(["gen", name, form, format(v, f"0{k}b")])
        held = history_probe(ctx, fails, table, refs, f"{name}.codebook", steps, correspond=True)
        # the code book as a whole (what the property says about code words, said about the kept arrays)
        book = [canon(o) if o is not None else None for o in held[: 2**k]]
        if None not in book and len(set(book)) != len(book):
            a = next(i for i in range(len(book)) if book.index(book[i]) != i)
            fails(
                "held-codebook-not-distinct",
                {"code": name, "history": [" ".join(s) for s in steps[: 2**k]]},
                f"[{name}.generate(m) for m in all messages] holds {len(set(book))} distinct code words instead of {len(book)}: "
                f"entries {book.index(book[a])} and {a} are equal",
                expected=len(book),
                actual=len(set(book)),
            )
        keep = sorted(ctx.rng.sample(range(len(held)), min(len(held), 256)))
        for i in keep:
            if held[i] is not None:
                long_held.append((name, " ".join(steps[i]), held[i], R.enc(steps[i][3])))
        del held

        # ---------------- received words
        exhaustive = n <= 17 or ctx.thorough()
        if exhaustive:
            words = range(2**n)
        else:
            # Golay, quick: a seeded quarter of the 2^20 words (chosen by a mix of all bits), thorough: all
            q = ctx.seed % 4
            words = [wv for wv in range(2**n) if (wv ^ (wv >> 7) ^ (wv >> 13)) % 4 == q or wv == 2**n - 1]
        pairs_c, pairs_cac, pairs_cor = [], [], []
        do_cac = is_hamming and (n <= 17)
        for wv in words:
            w = int2ba(wv, length=n)
            ws = w.to01()
            c = call(cls.check, bitarray(w))
            pairs_c.append((f"code.check {name} {ws}", ("1" if c else "0") if isinstance(c, (bool,)) or c in (True, False) else str(c)))
            ctx.case((name, "check", wv), nontrivial=wv != 0)
            if c not in (True, False) or bool(c) != (ws in cwset) or bool(c) != R.is_cw(ws):
                fails("checker-not-exact", {"code": name, "word": ws}, f"{name}.check disagrees with code word membership", expected=R.is_cw(ws), actual=str(c))
            if do_cac and (n <= 13 or (wv % 4 == ctx.seed % 4) or ctx.thorough()):
                r = call(cls.check_and_correct, bitarray(w))
                rs = r if isinstance(r, str) else f"{'1' if r[0] else '0'} {bits_str(r[1])}"
                pairs_cac.append((f"code.cac {name} {ws}", rs))
                ctx.case((name, "cac", wv), nontrivial=wv != 0)
                want = R.cac(ws)
                if want is not None and rs != want:
                    fails(
                        "single-error-not-repaired" if want[0] == "1" else "double-error-not-reported",
                        {"code": name, "word": ws},
                        f"{name}.check_and_correct mis-handles a word within distance {1 if want[0] == '1' else 2} of a code word",
                        expected=want,
                        actual=rs,
                    )
        ctx.count(f"{name}:words", len(pairs_c))

        # ---------------- structured words: one word of every coset; low-weight patterns for Golay / QR
        struct = []
        for s in range(2 ** (n - k)):
            struct.append(R.cw_int[ctx.rng.randrange(2**k)] ^ s)
            struct.append(s)
        ctx.count(f"{name}:coset-words", len(struct))
        if not is_hamming:
            lw = 0
            smp = sorted({ctx.rng.randrange(2**k) for _ in range(ctx.budget(24, 2**k))} | {0, 2**k - 1})
            for v in smp:
                for i in range(n):
                    struct.append(R.cw_int[v] ^ (1 << i))
                    lw += 1
                for i, j in itertools.combinations(range(n), 2):
                    struct.append(R.cw_int[v] ^ (1 << i) ^ (1 << j))
                    lw += 1
                for _ in range(60):
                    e = 0
                    for b in ctx.rng.sample(range(n), ctx.rng.choice((3, 4, d - 1, d, d + 1))):
                        e |= 1 << b
                    struct.append(R.cw_int[v] ^ e)
                    lw += 1
            ctx.count(f"{name}:low-weight-error-words", lw)
        for wi in struct:
            ws = format(wi, R.fmt)
            c = call(cls.check, bitarray(ws))
            pairs_c.append((f"code.check {name} {ws}", b01(c) if c in (True, False) else str(c)))
            ctx.case((name, "check", wi), nontrivial=wi != 0)
            if c not in (True, False) or bool(c) != R.is_cw(ws):
                fails("checker-not-exact", {"code": name, "word": ws}, f"{name}.check disagrees with code word membership", expected=R.is_cw(ws), actual=str(c))
            if do_cac:
                r = call(cls.check_and_correct, bitarray(ws))
                rs = r if isinstance(r, str) else f"{b01(r[0])} {bits_str(r[1])}"
                pairs_cac.append((f"code.cac {name} {ws}", rs))
                want = R.cac(ws)
                if want is not None and rs != want:
                    fails(
                        "single-error-not-repaired" if want[0] == "1" else "double-error-not-reported",
                        {"code": name, "word": ws},
                        f"{name}.check_and_correct mis-handles a word within distance {1 if want[0] == '1' else 2} of a code word",
                        expected=want,
                        actual=rs,
                    )

        # ---------------- code words under the transformations a sloppy checker may be blind to
        def octets(x):
            return [x[i : i + 8] for i in range(0, len(x), 8)]

        tw = []
        twin = next((o for o in refs.values() if o is not R and o.n == n), None)
        for v in sorted({ctx.rng.randrange(2**k) for _ in range(ctx.budget(24, 256))} | {1, 2**k - 1}):
            c = R.cw[v]
            comp = format(R.cw_int[v] ^ (2**n - 1), R.fmt)
            tw += [c[::-1], comp, c[k:] + c[:k], c[:k] + c[k:][::-1], c[:k][::-1] + c[k:], c[:k] + comp[k:], comp[:k] + c[k:],
                   c[1:] + "0", c[1:] + "1", "0" + c[:-1], "1" + c[:-1], "".join(octets(c)[::-1])[:n].ljust(n, "0"), "".join(o[::-1] for o in octets(c)),
                   "".join(o[::-1] for o in octets(c.ljust(-(-n // 8) * 8, "0")))[:n]]
            tw += [c[r:] + c[:r] for r in range(1, n)]
            if twin is not None:
                o = twin.cw_int[ctx.rng.randrange(2**twin.k)]
                tw += [format(o, R.fmt), format(o ^ R.cw_int[v], R.fmt)]
        ctx.count(f"{name}:transformed-code-words", len(tw))
        for ws in tw:
            c = call(cls.check, bitarray(ws))
            pairs_c.append((f"code.check {name} {ws}", b01(c) if c in (True, False) else str(c)))
            ctx.case((name, "check", int(ws, 2)), nontrivial="1" in ws)
            if c not in (True, False) or bool(c) != R.is_cw(ws):
                fails("checker-not-exact", {"code": name, "word": ws}, f"{name}.check disagrees with code word membership on a transformed code word", expected=R.is_cw(ws), actual=str(c))
            if do_cac:
                r = call(cls.check_and_correct, bitarray(ws))
                rs = r if isinstance(r, str) else f"{b01(r[0])} {bits_str(r[1])}"
                pairs_cac.append((f"code.cac {name} {ws}", rs))
                want = R.cac(ws)
                if want is not None and rs != want:
                    fails("single-error-not-repaired" if want[0] == "1" else "double-error-not-reported", {"code": name, "word": ws}, f"{name}.check_and_correct mis-handles a transformed code word within distance {1 if want[0] == '1' else 2} of a code word", expected=want, actual=rs)

        # ---------------- arguments produced by the library itself: the output of one entry point handed to another
        nchain = 0
        for v in sorted({ctx.rng.randrange(2**k) for _ in range(ctx.budget(40, 400))} | {0, 2**k - 1}):
            ms = format(v, f"0{k}b")
            pos = ctx.rng.randrange(n)
            nchain += 1
            for desc, got, want in chain_results(cls, R, ms, pos):
                ctx.case((name, "chain", desc, ms, pos))
                if got != want:
                    fails("chained-call-wrong", {"code": name, "chain": desc, "message": ms, "position": pos}, f"{name}: {desc} gives a wrong result", expected=want, actual=got)
        ctx.count(f"{name}:chained-calls", nchain)
        for desc, got, want in table_view_results(cls, R):
            ctx.case((name, "table-view", desc))
            ctx.count(f"{name}:class-table-views")
            if got != want:
                fails("chained-call-wrong", {"code": name, "chain": desc, "table_views": True}, f"{name}: {desc} gives a wrong result", expected=want, actual=got)

        # ---------------- error patterns on code words
        msgs = range(2**k) if (ctx.thorough() or k <= 9) else sorted({ctx.rng.randrange(2**k) for _ in range(ctx.budget(200, 200))} | {0, 2**k - 1})
        if is_hamming:
            for v in range(2**k):  # every message x every position, in both tiers
                c = cw[v]
                for i in range(n):
                    w = bitarray(c)
                    w.invert(i)
                    ws = w.to01()
                    r = call(cls.check_and_correct, w)
                    rs = r if isinstance(r, str) else f"{'1' if r[0] else '0'} {bits_str(r[1])}"
                    pairs_cac.append((f"code.cac {name} {ws}", rs))
                    ctx.case((name, "single", v, i), sample={"code": name, "op": "check_and_correct", "word": ws, "out": rs} if (v, i) == (3, 2) else None)
                    if rs != f"1 {c}":
                        fails("single-error-not-repaired", {"code": name, "message": bits_str(int2ba(v, length=k)), "position": i}, f"{name}.check_and_correct does not repair a single error", expected=f"1 {c}", actual=rs)
            ctx.count(f"{name}:single-errors", 2**k * n)
            # the same through the ndarray entry point (containers rotate); a seeded quarter of the messages of the big codes in quick
            cnt = 0
            for v in range(2**k):
                if not (ctx.thorough() or k <= 9 or v % 4 == ctx.seed % 4):
                    continue
                ci = R.cw_int[v]
                for i in range(n):
                    ws = format(ci ^ (1 << i), R.fmt)
                    form = SWEEP_NP[(v + i) % len(SWEEP_NP)]
                    out = canon(call(cls.correct_numpy_array, mk_arg(form, ws)))
                    pairs_cor.append((f"code.correct {name} {ws}", out))
                    ctx.case((name, "single-np", v, i))
                    cnt += 1
                    if out != R.cw[v]:
                        fails("single-error-not-repaired", {"code": name, "op": "correct_numpy_array", "form": form, "word": ws}, f"{name}.correct_numpy_array does not repair a single error in a {form} array", expected=R.cw[v], actual=out)
            ctx.count(f"{name}:single-errors:correct_numpy_array", cnt)
        if name == "h16114":
            pairs_ij = list(itertools.combinations(range(16), 2))
            dmsgs = msgs if ctx.thorough() else sorted({ctx.rng.randrange(2**k) for _ in range(ctx.budget(40, 40))} | {0, 2**k - 1})
            for v in dmsgs:
                c = cw[v]
                for i, j in pairs_ij:
                    w = bitarray(c)
                    w.invert(i)
                    w.invert(j)
                    ws = bits_str(w)
                    r = call(cls.check_and_correct, w)
                    rs = r if isinstance(r, str) else f"{'1' if r[0] else '0'} {bits_str(r[1])}"
                    pairs_cac.append((f"code.cac {name} {ws}", rs))
                    ctx.case((name, "double", v, i, j))
                    if rs != f"0 {ws}":
                        fails("double-error-not-reported", {"code": name, "message": bits_str(int2ba(v, length=k)), "positions": [i, j]}, "Hamming(16,11,4) mis-handles a double error", expected=f"0 {ws}", actual=rs)
            ctx.count(f"{name}:double-errors", len(dmsgs) * len(pairs_ij))

        # ---------------- the same logical bits in every accepted container
        pairs_form = []
        # generate: every message in every container
        fmsgs = range(2**k) if (k <= 9 or ctx.thorough()) else sorted({ctx.rng.randrange(2**k) for _ in range(ctx.budget(512, 512))} | {0, 1, 2**k - 1})
        for fi, form0 in enumerate(gen_forms[1:] + ("np-lay",)):
            cnt = 0
            # the provenance variants share the messages of the bigger codes among them
            share = 1 if ctx.thorough() or 2**k <= 128 else 6 if form0 == "np-memmap-ro" else 3 if form0 in NP_PROV_FORMS + BA_LIB_FORMS else 1
            for v in fmsgs:
                if (v + fi) % share:
                    continue
                ms = format(v, f"0{k}b")
                # "np-lay": an ndarray view with an explicit memory layout (item size, byte order, offset, stride, writeable or not)
                form = random_layout(ctx.rng) if form0 == "np-lay" else form0
                arg = mk_arg(form, ms)
                if arg is None:
                    continue
                if form0 == "np-lay":
                    line = f"code.genN {name} {layout_line_args(form, ms)}"
                else:
                    line = f"code.genS {name} {store_args(arg)}" if form in BA_FORMS + BA_LIB_FORMS else f"code.gen {name} {ms}"
                res = call(cls.generate, arg)
                out = canon(res)
                cnt += 1
                if out == R.cw[v] and not form.startswith("frozen") and res is not arg:
                    # the caller goes on using its argument object: the array it was given must not follow
                    try:
                        if isinstance(arg, numpy.ndarray):
                            arg[...] = 1 - arg if arg.dtype != bool else ~arg
                        else:
                            arg.invert()
                    except BaseException:  # noqa
                        pass
                    after = canon(res)
                    if after != out:
                        fails("held-result-changed", {"code": name, "op": "generate, then the caller inverts its argument object", "form": form, "message": ms}, f"the array returned by {name}.generate changed when the caller modified the argument object afterwards", expected=out, actual=after)
                    try:
                        if isinstance(arg, numpy.ndarray):
                            arg[...] = 1 - arg if arg.dtype != bool else ~arg
                        else:
                            arg.invert()
                    except BaseException:  # noqa
                        pass
                ctx.case((name, "gen", form, v), nontrivial=v != 0)
                pairs_form.append((line, out))
                if out != R.cw[v]:
                    fails("container-changes-result", {"code": name, "op": "generate", "form": form, "message": ms}, f"{name}.generate of the same message held in a {form} container differs", expected=R.cw[v], actual=out)
                elif canon(arg) != ms:
                    again = canon(call(cls.generate, arg))
                    if again != R.cw[v]:
                        fails("container-changes-result", {"code": name, "op": "generate twice on one object", "form": form, "message": ms}, f"{name}.generate altered its argument: the second call on the same object differs", expected=R.cw[v], actual=again)
            if cnt:
                ctx.count(f"{name}:container:{form0}:generate", cnt)
        # words: clean code words, every single error position, doubles, some arbitrary words
        wsel = []
        smp = sorted({ctx.rng.randrange(2**k) for _ in range(ctx.budget(48, 400))} | {0, 2**k - 1})
        for v in smp:
            c = R.cw_int[v]
            wsel.append(c)
            wsel += [c ^ (1 << b) for b in range(n)]
            prs = list(itertools.combinations(range(n), 2))
            for i, j in prs if name == "h16114" and v in smp[:8] else ctx.rng.sample(prs, 6):
                wsel.append(c ^ (1 << i) ^ (1 << j))
        wsel += [ctx.rng.randrange(2**n) for _ in range(ctx.budget(200, 2000))]
        def lenient(op, form, ws, r):
            """an undocumented container: the call may raise; what it returns must be what the property says"""
            if isinstance(r, str):
                ctx.count(f"{name}:lenient:{op}:raised")
                return
            ctx.count(f"{name}:lenient:{op}:returned")
            if op == "check":
                if (r is not True and r is not False and not isinstance(r, numpy.bool_)) or bool(r) != R.is_cw(ws):
                    fails("container-changes-result", {"code": name, "op": "check", "form": form, "word": ws}, f"{name}.check of a word held in a {form} container returns (does not raise) and disagrees with code word membership", expected=R.is_cw(ws), actual=str(r))
            elif op == "check_and_correct":
                try:
                    rs = f"{b01(r[0])} {canon(r[1], True)}"
                except BaseException as e:  # noqa
                    rs = impl_error(e)
                want = R.cac(ws)
                if want is not None and rs != want:
                    fails("container-changes-result", {"code": name, "op": "check_and_correct", "form": form, "word": ws}, f"{name}.check_and_correct of a word held in a {form} container returns (does not raise) a wrong verdict / word", expected=want, actual=rs)
            elif op == "correct_numpy_array":
                out = canon(r, True)
                want = R.correct(ws)
                if want is not None and out != want:
                    fails("container-changes-result", {"code": name, "op": "correct_numpy_array", "form": form, "word": ws}, f"{name}.correct_numpy_array of a word held in a {form} container returns (does not raise) a wrong word", expected=want, actual=out)

        np_word_forms = NP_FORMS + NP_PROV_FORMS + ("np-lay",)
        for fi, form0 in enumerate(BA_FORMS[1:] + BA_LIB_FORMS + np_word_forms + ODD_FORMS):
            cnt = 0
            # the provenance variants share the words among them (every word meets a third of them), the
            # memory-mapped file is the most expensive to set up
            share = (12 if form0 == "np-memmap-ro" else 4 if form0 in NP_PROV_FORMS else 2 if form0 in BA_LIB_FORMS else 1) if not ctx.thorough() else (3 if form0 == "np-memmap-ro" else 1)
            for wn, wi in enumerate(wsel):
                if (wn + fi) % share:
                    continue
                ws = format(wi, R.fmt)
                form = random_layout(ctx.rng) if form0 == "np-lay" else form0
                if form in ODD_FORMS:
                    if wn % 8 == 0:
                        cnt += 1
                        ctx.case((name, "odd", form, wi), nontrivial=wi != 0)
                        lenient("check", form, ws, call(cls.check, mk_arg(form, ws)))
                        if is_hamming:
                            lenient("check_and_correct", form, ws, call(cls.check_and_correct, mk_arg(form, ws)))
                            lenient("correct_numpy_array", form, ws, call(cls.correct_numpy_array, mk_arg(form, ws)))
                    continue
                if is_np_form(form):
                    if is_hamming:
                        arg = mk_arg(form, ws)
                        out = canon(call(cls.correct_numpy_array, arg))
                        pairs_cor.append((f"code.correctN {name} {layout_line_args(form, ws)}" if form0 == "np-lay" else f"code.correct {name} {ws}", out))
                        ctx.case((name, "correct", form, wi), nontrivial=wi != 0)
                        cnt += 1
                        want = R.correct(ws)
                        if want is not None and out != want:
                            fails("container-changes-result", {"code": name, "op": "correct_numpy_array", "form": form, "word": ws}, f"{name}.correct_numpy_array mis-handles a word within distance {1 if want != ws else 2} of a code word held in a {form0} array", expected=want, actual=out)
                        elif want is not None and wn % 3 == 0:
                            # the same array object handed over once more (a read-only one cannot have been repaired in place)
                            again = canon(call(cls.correct_numpy_array, arg))
                            if again != want:
                                fails("container-changes-result", {"code": name, "op": "correct_numpy_array twice on one object", "form": form, "word": ws}, f"{name}.correct_numpy_array: the second call on the same {form0} array differs", expected=want, actual=again)
                        if wn % 8 == 1:
                            # ndarray has no invert(): raises when there is something to repair
                            lenient("check_and_correct", form, ws, call(cls.check_and_correct, mk_arg(form, ws)))
                    if not is_hamming or wn % 4 == 0:
                        ctx.case((name, "check", form, wi), nontrivial=wi != 0)
                        cnt += not is_hamming
                        lenient("check", form, ws, call(cls.check, mk_arg(form, ws)))
                    continue
                arg = mk_arg(form, ws)
                if arg is None:
                    continue
                st = store_args(arg)
                c1 = call(cls.check, arg)
                c2 = call(cls.check, arg)  # the same object again
                pairs_form.append((f"code.checkS {name} {st}", b01(c1)))
                ctx.case((name, "check", form, wi), nontrivial=wi != 0)
                cnt += 1
                for cx, nth in ((c1, "first"), (c2, "second")):
                    if cx not in (True, False) or bool(cx) != R.is_cw(ws):
                        fails("container-changes-result", {"code": name, "op": "check" if nth == "first" else "check twice on one object", "form": form, "word": ws}, f"{name}.check ({nth} call) of the same word held in a {form} container disagrees with code word membership", expected=R.is_cw(ws), actual=str(cx))
                        break
                if is_hamming and documented("cac", form):
                    r = call(cls.check_and_correct, arg)
                    if isinstance(r, str):
                        rs, rl = r, r
                    else:
                        rs = f"{b01(r[0])} {canon(r[1])}"
                        # the repaired bits written as a buffer of the argument's bit order (a canonical
                        # encoding of the logical bits: which object / bit order comes back is not compared)
                        try:
                            rl = f"{b01(r[0])} {bitarray(canon(r[1]), endian=st.split(' ')[0]).tobytes().hex() or '-'}"
                        except ValueError:
                            rl = rs
                    pairs_form.append((f"code.cacS {name} {st}", rl))
                    ctx.case((name, "cac", form, wi), nontrivial=wi != 0)
                    want = R.cac(ws)
                    if want is not None and rs != want:
                        fails("container-changes-result", {"code": name, "op": "check_and_correct", "form": form, "word": ws}, f"{name}.check_and_correct mis-handles a word within distance {1 if want[0] == '1' else 2} of a code word held in a {form} container", expected=want, actual=rs)
                elif is_hamming:
                    # an immutable bitarray: the repair cannot be done in place; raising is accepted, a wrong answer is not
                    lenient("check_and_correct", form, ws, call(cls.check_and_correct, arg))
            if cnt:
                ctx.count(f"{name}:container:{form0}:{'ndarray entry points' if is_np_form(form0) else 'undocumented container' if form0 in ODD_FORMS else 'check+check_and_correct'}", cnt)

        # ---------------- overwrite a returned object, call again
        steps = []
        nres = 0
        osel = sorted({ctx.rng.randrange(2**k) for _ in range(ctx.budget(96, 1024))} | {0, 1, 2**k - 1})
        for v in osel:
            ms = format(v, f"0{k}b")
            other = format(ctx.rng.randrange(2**k), f"0{k}b")
            junk = ctx.rng.choice(("0" * n, "1" * n, format(R.cw_int[v] ^ (2**n - 1), R.fmt), format(ctx.rng.randrange(2**n), R.fmt)))
            steps += [["gen", name, "be", ms], ["overwrite", nres, junk], ["gen", name, ctx.rng.choice(gen_forms[:2] + NP_FORMS[:2]), ms],
                      ["gen", name, "be", other], ["check", name, "be", R.cw[v]]]
            nres += 3
            if is_hamming:
                e = format(R.cw_int[v] ^ (1 << ctx.rng.randrange(n)), R.fmt)
                junk2 = ctx.rng.choice(("0" * n, "1" * n, format(ctx.rng.randrange(2**n), R.fmt)))
                steps += [["cac", name, ctx.rng.choice(("be", "le")), e], ["overwrite", nres, junk2], ["cac", name, "be", e],
                          ["correct", name, "np-int64", e], ["overwrite", nres + 2, junk2], ["correct", name, ctx.rng.choice(NP_FORMS), e],
                          ["cac", name, "be", R.cw[v]], ["overwrite", nres + 4, junk], ["check", name, "le", R.cw[v]], ["cac", name, "le", R.cw[v]]]
                nres += 6
        history_probe(ctx, fails, table, refs, f"{name}.overwrite-call-again", steps)

        if do_corr:
            ctx.correspond(f"{name}.check", pairs_c)
            if pairs_cac:
                ctx.correspond(f"{name}.check_and_correct", pairs_cac)
            if pairs_cor:
                ctx.correspond(f"{name}.correct_numpy_array", pairs_cor)
            if pairs_form:
                ctx.correspond(f"{name}.containers", pairs_form)

    # ---------------- all codes and entry points interleaved at random, everything kept
    names = [c[0] for c in codes()]
    steps = []
    nres = 0
    res_len = []
    for _ in range(ctx.budget(4000, 40000)):
        name = ctx.rng.choice(names)
        _, cls, n, k, d, is_hamming = table[name]
        R = refs[name]
        if nres and ctx.rng.random() < 0.08:
            # overwrite a kept object with something of its own length
            r = ctx.rng.randrange(nres)
            nn = res_len[r]
            steps.append(["overwrite", r, format(ctx.rng.randrange(2**nn), f"0{nn}b")])
            continue
        v = ctx.rng.randrange(2**k)
        kind = ctx.rng.random()
        wi = R.cw_int[v]
        if kind < 0.35:
            wi ^= 1 << ctx.rng.randrange(n)
        elif kind < 0.5:
            i, j = ctx.rng.sample(range(n), 2)
            wi ^= (1 << i) | (1 << j)
        elif kind < 0.6:
            wi = ctx.rng.randrange(2**n)
        ws = format(wi, R.fmt)
        op = ctx.rng.choice(("gen", "check", "cac", "correct") if is_hamming else ("gen", "check"))
        if ctx.rng.random() < 0.07:
            # a call that is rejected / raises (wrong length, no bits, undocumented container); now and then
            # followed by the valid words its argument collides with after cutting / padding
            _, form, w, focus = ctx.rng.choice(first_call_kinds(ctx.rng, R, op, everything=True))
            new = [[op, name, form, bits_tok(w)]]
            ctx.count("hist:interleaved:rejected-or-odd-calls")
            if ctx.rng.random() < 0.5:
                for w2 in resized(focus[0], n)[:2]:
                    new.append(["check", name, "be", w2])
                    if is_hamming:
                        new.append(["cac", name, ctx.rng.choice(("be", "le")), w2])
            for st in new:
                steps.append(st)
                if st[0] in RESULT_OPS:
                    nres += 1
                    res_len.append(n)
            continue
        if ctx.rng.random() < 0.01:
            steps.append(["ambient", "reseed"])
            continue
        if op == "gen":
            form = ctx.rng.choice(gen_forms)
            if form.startswith("buf-") and k % 8:
                form = "be"
            steps.append(["gen", name, form, format(v, f"0{k}b")])
        elif op == "check":
            form = ctx.rng.choice(BA_FORMS + BA_LIB_FORMS + (NP_PROV_FORMS if ctx.rng.random() < 0.15 else ()))
            if form.startswith("buf-") and n % 8:
                form = "le"
            steps.append(["check", name, form, ws])
        elif op == "cac":
            form = ctx.rng.choice(MUTABLE_BA_FORMS + BA_LIB_FORMS + (("frozen-be", "odd-robuf", "np-ro") if ctx.rng.random() < 0.1 else ()))
            if form.startswith("buf-") and n % 8:
                form = "dirty-le"
            steps.append(["cac", name, form, ws])
        else:
            steps.append(["correct", name, random_layout(ctx.rng) if ctx.rng.random() < 0.15 else ctx.rng.choice(NP_FORMS + NP_PROV_FORMS), ws])
        if op in RESULT_OPS:
            nres += 1
            res_len.append(n)
    held = history_probe(ctx, fails, table, refs, "interleaved", steps)
    del held

    # ---------------- words of one code resized to the length of another (keys that collide after
    # padding / truncation), checked right after the original was seen by its own code
    steps = []
    for xa, xb in itertools.permutations(names, 2):
        _, _, na, ka, _, _ = table[xa]
        _, _, nb, kb, _, hb = table[xb]
        Ra, Rb = refs[xa], refs[xb]
        for _ in range(ctx.budget(24, 200)):
            c = Ra.cw[ctx.rng.randrange(2**ka)]
            if ctx.rng.random() < 0.3:
                ci = int(c, 2) ^ (1 << ctx.rng.randrange(na))
                c = format(ci, Ra.fmt)
            fill = ctx.rng.choice("01")
            if ctx.rng.random() < 0.5:
                w = (c + fill * nb)[:nb]  # padded / cut at the end (what tobytes() padding does)
            else:
                w = (fill * nb + c)[-nb:]  # padded / cut at the front (what int() of the bits does)
            steps.append(["check", xa, "be", c])
            steps.append(["check", xb, ctx.rng.choice(("be", "le")), w])
            if hb:
                steps.append(["cac", xb, ctx.rng.choice(("be", "le")), w])
    history_probe(ctx, fails, table, refs, "resized-words-across-codes", steps)

    # ---------------- everything kept since the beginning is read once more; class tables untouched
    bad = 0
    for name, desc, obj, want in long_held:
        cur = canon(obj)
        if cur != want:
            bad += 1
            fails("held-result-changed", {"code": name, "history": [desc, "… the rest of the run …"]}, f"the array returned by '{desc}' no longer holds its code word at the end of the run", expected=want, actual=cur)
    ctx.count("hist:kept-until-end-of-run", len(long_held))
    for name, c in table.items():
        for a, v0 in tables0[name].items():
            if getattr(c[1], a).tolist() != v0:
                fails("class-table-changed", {"code": name, "table": a}, f"{name}.{a} was modified during the run", expected="unchanged", actual="changed")
    collect_scenarios(ctx, fails, h_fresh, "fresh")
    collect_scenarios(ctx, fails, h_opt, "python-O")
    ctx.exhaustive = ctx.thorough()
    rank_failures(ctx, refs)


def failure_as_step(refs, f):
    """the single call a non-history failure record is about, as a history step (None: not expressible)"""
    inp = f.get("input") or {}
    if not isinstance(inp, dict) or "code" not in inp or "history" in inp:
        return None
    code, form, op = inp["code"], inp.get("form", "be"), inp.get("op", "")
    if "twice" in op or "then the caller" in op or "chain" in inp or form.startswith("odd-"):
        return None
    if "message" in inp:
        if "position" in inp or "positions" in inp:
            wi = int(refs[code].enc(inp["message"]), 2)
            for p in [inp["position"]] if "position" in inp else inp["positions"]:
                wi ^= 1 << (refs[code].n - 1 - p)
            return ["cac", code, "be", format(wi, refs[code].fmt)]
        return ["gen", code, form, inp["message"]]
    if "word" in inp:
        if op.startswith("correct_numpy_array") or (op == "" and is_np_form(form)):
            return ["correct", code, form, inp["word"]]
        if f["kind"] == "checker-not-exact" or op == "check":
            return ["check", code, form, inp["word"]]
        return ["cac", code, form, inp["word"]]
    return None


def rank_failures(ctx, refs):
    """
    Failing inputs that fail on their own in a fresh process are reported first: a defect that
    depends on what was called before (a cache, a recycled buffer) also spoils single calls of the
    sweeps, and such a record alone does not reproduce anything.
    """
    if not ctx.failures:
        return
    todo = []
    for f in ctx.failures:
        if isinstance(f.get("input"), dict) and "fails_when_run_alone_in_a_fresh_process" not in f["input"]:
            st = failure_as_step(refs, f)
            if st is not None:
                todo.append((f, st))
            if len(todo) >= 400:
                break
    if todo:
        try:
            res = fresh_first_failing_each([[[st]] for _, st in todo])
            for (f, _), r in zip(todo, res):
                f["input"]["fails_when_run_alone_in_a_fresh_process"] = r is not None
                if r is None:
                    f["what"] += " (this call alone does not fail in a fresh process: it depends on earlier calls of the run)"
        except BaseException as e:  # noqa
            ctx.notes.append(f"fresh-process classification of the failing inputs did not run: {type(e).__name__}")

    def key(f):
        v = f["input"].get("fails_when_run_alone_in_a_fresh_process") if isinstance(f.get("input"), dict) else None
        if v is True:
            return 0
        if isinstance(f.get("input"), dict) and "history" in f["input"]:
            return 1  # at least carries the calls that came before
        return 3 if v is False else 2

    ctx.failures.sort(key=key)


# ------------------------------------------------------------------------------------------------
def replay(obj):
    if str((obj.get("failure") or {}).get("kind", "")).startswith("history:"):
        import histories

        return histories.replay((obj.get("failure") or {}).get("input") or {}, ENTRY_POINTS)
    f = obj.get("failure") or {}
    inp = f.get("input", {})
    table = {c[0]: c for c in codes()}
    print(json.dumps(obj.get("type")), f.get("what"))
    still = None
    if "history" in inp:
        ref_json = json.load(open(os.path.join(os.path.dirname(os.path.abspath(__file__)), "..", "reference", "etsi_codes.json")))
        refs = {name: Ref(name, n, k, d, h, ref_json[name]["G"]) for name, _, n, k, d, h in codes()}
        steps = [parse_step(s) for s in inp["history"] if not s.startswith("…")]
        bad = []
        if inp.get("python_flags"):
            # the history needs an interpreter started with these flags (e.g. -O): a process of its own
            handle = start_scenarios([{"id": "replay", "group": "replay", "steps": steps}], flags=tuple(inp["python_flags"]), lines=True)
            handle[0].wait(timeout=600)
            handle[1].seek(0)
            res = json.loads(handle[1].read().strip().splitlines()[-1])[0]
            lines, bad = res.get("lines", []), [tuple(e) for e in res.get("events", [])]
            print(f"(run by: python {' '.join(inp['python_flags'])})")
        else:
            lines, held, exp = run_history(table, refs, steps, on_bad=lambda *a: bad.append(a))
        for line, out in lines:
            print(f"implementation  {line:60s} -> {out}")
        for kind, at, owner, want, got in bad:
            print(f"{kind}: result of step {owner} after step {at}: expected {want}, actual {got}")
        still = bool(bad)
    elif "chain" in inp:
        ref_json = json.load(open(os.path.join(os.path.dirname(os.path.abspath(__file__)), "..", "reference", "etsi_codes.json")))
        name, cls, n, k, d, h = table[inp["code"]]
        R = Ref(name, n, k, d, h, ref_json[name]["G"])
        still = False
        for desc, got, want in table_view_results(cls, R) if inp.get("table_views") else chain_results(cls, R, inp["message"], inp["position"]):
            print(f"implementation {name}" + ("" if inp.get("table_views") else f", message {inp['message']}, position {inp['position']}") + f": {desc} = {got}" + ("" if got == want else f"   (expected {want})"))
            still = still or got != want
    elif "code" in inp:
        name, cls, n, k, d, _ = table[inp["code"]]
        form = inp.get("form", "be")
        op = inp.get("op", "")
        if "message" in inp:
            out = canon(call(cls.generate, mk_arg(form, inp["message"])))
            print(f"implementation {name}.generate({inp['message']} as {form}) = {out}")
            if op.startswith("generate"):
                still = out != f.get("expected")
            if not out.startswith("ERR"):
                w = bitarray(out)
                for p in ([inp["position"]] if "position" in inp else inp.get("positions", [])):
                    w.invert(p)
                print(f"implementation {name}.check({bits_str(w)}) = {call(cls.check, bitarray(w))}")
                if hasattr(cls, "check_and_correct"):
                    r = call(cls.check_and_correct, bitarray(w))
                    rs = r if isinstance(r, str) else f"{b01(r[0])} {canon(r[1])}"
                    print(f"implementation {name}.check_and_correct({bits_str(w)}) = {rs}")
                    if "position" in inp or "positions" in inp:
                        still = rs != f.get("expected")
        if "word" in inp:
            ws = inp["word"]
            exp = f.get("expected")

            def verdict(opkey, out):
                # an undocumented container may raise; a documented one must give the expected result
                if documented(opkey, form):
                    return out != str(exp)
                return not out.startswith("ERR") and out != str(exp)

            if op.startswith("correct_numpy_array") or (op == "" and is_np_form(form)):
                arg = mk_arg(form, ws)
                r = call(cls.correct_numpy_array, arg)
                if "twice" in op:
                    r = call(cls.correct_numpy_array, arg)
                out = canon(r, True)
                print(f"implementation {name}.correct_numpy_array({ws} as {form}){' (second call on the same array)' if 'twice' in op else ''} = {out}")
                still = verdict("correct", out)
            elif op.startswith("check_and_correct") or (f.get("kind") != "checker-not-exact" and not op.startswith("check")):
                if hasattr(cls, "check_and_correct"):
                    r = call(cls.check_and_correct, mk_arg(form, ws))
                    rs = r if isinstance(r, str) else f"{b01(r[0])} {canon(r[1], True)}"
                    print(f"implementation {name}.check_and_correct({ws} as {form}) = {rs}")
                    still = verdict("cac", rs)
            else:
                arg = mk_arg(form, ws)
                c = call(cls.check, arg)
                c2 = call(cls.check, arg)
                print(f"implementation {name}.check({ws} as {form}) = {c}, again on the same object = {c2}")
                still = verdict("check", str(c)) or verdict("check", str(c2))
    print("expected:", f.get("expected"), "actual:", f.get("actual"))
    return 1 if still or still is None else 0


if __name__ == "__main__":
    import sys

    if sys.argv[1:] == ["--fresh"]:
        _fresh_main()
    elif sys.argv[1:] == ["--scenarios"]:
        _scenarios_main()
    elif sys.argv[1:] == ["--ddmin"]:
        _ddmin_main()
