"""C06 — Hamming, Golay and quadratic-residue codes (DESIGN §5 C06).

Besides the per-word sweeps (messages exhaustive, received words, single / double errors) the run
exercises three input classes that single fresh big-endian calls cannot reach:

* argument containers: the same logical bits in every container the entry points accept (bitarray
  big / little endian, non-zero pad bits in the buffer, imported buffer, subclass, frozenbitarray;
  ndarray rows, strided columns, reversed views, uint8 / bool for the ndarray entry points),
* histories: every object an entry point returns is kept, calls go on (same code, other codes),
  some kept objects are overwritten by the caller, and all kept objects are read again later,
* structured received words: one word of every coset (every syndrome), low-weight error patterns,
  words of one code resized to the length of another.
"""
import itertools
import json
import os

import numpy
from bitarray import bitarray, frozenbitarray
from bitarray.util import int2ba

try:
    from common import bits_str, impl_error
except ImportError:  # run as a script (the fresh-process helper of shrink())
    import sys

    sys.path.insert(0, os.path.dirname(os.path.dirname(os.path.abspath(__file__))))
    from common import bits_str, impl_error

PROP = "C06"
MODULES = ["C06"]
GEN = ["Codes"]
MATCHERS = {}

FAIL_CAP = 12  # failure records kept per (kind, code); the rest is only counted


def codes():
    from okdmr.dmrlib.etsi.fec.hamming_7_4_3 import Hamming743
    from okdmr.dmrlib.etsi.fec.hamming_13_9_3 import Hamming1393
    from okdmr.dmrlib.etsi.fec.hamming_15_11_3 import Hamming15113
    from okdmr.dmrlib.etsi.fec.hamming_16_11_4 import Hamming16114
    from okdmr.dmrlib.etsi.fec.hamming_17_12_3 import Hamming17123
    from okdmr.dmrlib.etsi.fec.golay_20_8_7 import Golay2087
    from okdmr.dmrlib.etsi.fec.quadratic_residue_16_7_6 import QuadraticResidue1676

    return [
        ("h743", Hamming743, 7, 4, 3, True),
        ("h1393", Hamming1393, 13, 9, 3, True),
        ("h15113", Hamming15113, 15, 11, 3, True),
        ("h16114", Hamming16114, 16, 11, 4, True),
        ("h17123", Hamming17123, 17, 12, 3, True),
        ("golay2087", Golay2087, 20, 8, 7, False),
        ("qr1676", QuadraticResidue1676, 16, 7, 6, False),
    ]


def call(fn, *a):
    try:
        return fn(*a)
    except BaseException as e:  # noqa
        return impl_error(e)


def canon(obj) -> str:
    """logical content of an argument / result object as 0101… (never a repr)"""
    if isinstance(obj, str):
        return obj
    try:
        if isinstance(obj, numpy.ndarray):
            return "".join(str(int(x)) for x in obj.tolist())
        return "".join("1" if b else "0" for b in obj)
    except BaseException as e:  # noqa
        return "ERR uncanonical " + type(e).__name__


def b01(x) -> str:
    if isinstance(x, str):
        return x
    return "1" if x else "0"


def gen_str(cls, m):
    return canon(call(cls.generate, m))


# ------------------------------------------------------------------------------------------------
# argument containers
# ------------------------------------------------------------------------------------------------
class _SubBitarray(bitarray):
    pass


BA_FORMS = ("be", "le", "dirty-be", "dirty-le", "sub-le", "buf-be", "buf-le", "frozen-be", "frozen-le")
NP_FORMS = ("np-int64", "np-col", "np-rev", "np-uint8", "np-bool")
MUTABLE_BA_FORMS = tuple(f for f in BA_FORMS if not f.startswith("frozen"))


def _endian(form: str) -> str:
    return "little" if form.endswith("le") else "big"


def endian_of(b) -> str:
    e = b.endian
    return e() if callable(e) else e


def mk_arg(form: str, s: str):
    """an argument object holding the logical bits `s`; None when the container cannot hold len(s) bits"""
    if form in ("be", "le"):
        return bitarray(s, endian=_endian(form))
    if form.startswith("dirty-"):
        # pad bits of the buffer are 1 (tobytes() hides them, the buffer protocol does not)
        b = bitarray(len(s), endian=_endian(form))
        b.setall(1)
        for i, ch in enumerate(s):
            b[i] = ch == "1"
        return b
    if form == "sub-le":
        return _SubBitarray(s, endian="little")
    if form.startswith("buf-"):
        if len(s) % 8:
            return None
        raw = bytearray(bitarray(s, endian=_endian(form)).tobytes())
        return bitarray(buffer=raw, endian=_endian(form))  # imported, writable buffer
    if form.startswith("frozen-"):
        return frozenbitarray(s, endian=_endian(form))
    vals = [int(ch) for ch in s]
    if form == "np-int64":
        return numpy.array(vals, dtype=numpy.int64)
    if form == "np-col":
        # what BPTC passes: a column of an int table (strided view)
        t = numpy.ones((len(s), 3), dtype=int)
        t[:, 1] = vals
        return t[:, 1]
    if form == "np-rev":
        return numpy.array(vals[::-1], dtype=int)[::-1]  # negative stride
    if form == "np-uint8":
        return numpy.array(vals, dtype=numpy.uint8)
    if form == "np-bool":
        return numpy.array(vals, dtype=bool)
    raise ValueError(form)


def store_args(arg) -> str:
    """`<endian> <len> <hex of tobytes()>` of a bitarray argument (the line-protocol form)"""
    return f"{endian_of(arg)} {len(arg)} {arg.tobytes().hex() or '-'}"


# ------------------------------------------------------------------------------------------------
# the oracle: the code as the standard defines it (reference copy of the generator matrices)
# ------------------------------------------------------------------------------------------------
class Ref:
    def __init__(self, name, n, k, d, is_hamming, G):
        self.name, self.n, self.k, self.d, self.is_hamming = name, n, k, d, is_hamming
        rows = [int("".join(str(x) for x in r), 2) for r in G]
        cw = [0] * (2**k)
        for v in range(1, 2**k):
            low = v & -v
            cw[v] = cw[v ^ low] ^ rows[k - 1 - (low.bit_length() - 1)]
        self.cw_int = cw
        self.fmt = f"0{n}b"
        self.cw = [format(x, self.fmt) for x in cw]
        self.cwset = set(self.cw)
        self.cwints = set(cw)
        self.near1 = None
        self.near2 = None

    def enc(self, m: str) -> str:
        return self.cw[int(m, 2)]

    def is_cw(self, w: str) -> bool:
        return w in self.cwset

    def _near(self):
        if self.near1 is None:
            n1 = {}
            for c in self.cw_int:
                n1[c] = c
                for b in range(self.n):
                    n1[c ^ (1 << b)] = c
            self.near1 = n1
            if self.name == "h16114":
                n2 = set()
                masks = [(1 << a) | (1 << b) for a, b in itertools.combinations(range(self.n), 2)]
                for c in self.cw_int:
                    for mk in masks:
                        n2.add(c ^ mk)
                self.near2 = n2

    def cac(self, w: str):
        """what the property demands of check_and_correct(w): "1 <code word>" within distance 1,
        "0 <w>" for a (16,11,4) double error, None where the property is silent"""
        self._near()
        wi = int(w, 2)
        c = self.near1.get(wi)
        if c is not None:
            return f"1 {format(c, self.fmt)}"
        if self.near2 is not None and wi in self.near2:
            return f"0 {w}"
        return None

    def correct(self, w: str):
        r = self.cac(w)
        return None if r is None else r[2:]


class Fails:
    """ctx.fail with a cap per (kind, code) so that one defect does not write thousands of records"""

    def __init__(self, ctx):
        self.ctx = ctx
        self.n = {}

    def __call__(self, kind, inp, what, expected=None, actual=None):
        key = (kind, inp.get("code") if isinstance(inp, dict) else None)
        self.n[key] = self.n.get(key, 0) + 1
        if self.n[key] <= FAIL_CAP * self.ctx.boost:
            self.ctx.fail(kind, inp, what, expected=expected, actual=actual)
        else:
            self.ctx.count(f"suppressed-failure:{kind}")


# ------------------------------------------------------------------------------------------------
# histories
# ------------------------------------------------------------------------------------------------
# a step is a list: [op, code, form, bits] with op in gen / check / cac / correct, or
# ["overwrite", ref, bits].  Every gen / cac / correct allocates the next handle (0, 1, 2, …).
RESULT_OPS = ("gen", "cac", "correct")


def step_line(st) -> str:
    if st[0] == "overwrite":
        return f"h.overwrite {st[1]} {st[2]}"
    return f"h.{st[0]} {st[1]} {st[3]}"


def apply_step(table, held, st):
    """run one step on the real code; returns (output line, result object or None)"""
    op = st[0]
    if op == "overwrite":
        obj = held[st[1]]
        try:
            if isinstance(obj, numpy.ndarray):
                obj[...] = [int(c) for c in st[2]]
            else:
                obj[:] = bitarray(st[2])
            return "ok", None
        except BaseException as e:  # noqa  (read-only result objects are not a violation)
            return impl_error(e), None
    cls = table[st[1]][1]
    arg = mk_arg(st[2], st[3])
    ref = len(held)
    if op == "gen":
        r = call(cls.generate, arg)
        return (r, None) if isinstance(r, str) else (f"{ref} {canon(r)}", r)
    if op == "check":
        return b01(call(cls.check, arg)), None
    if op == "cac":
        r = call(cls.check_and_correct, arg)
        if isinstance(r, str):
            return r, None
        try:
            ok, obj = r
        except BaseException as e:  # noqa
            return impl_error(e), None
        return f"{ref} {b01(ok)} {canon(obj)}", obj
    if op == "correct":
        r = call(cls.correct_numpy_array, arg)
        return (r, None) if isinstance(r, str) else (f"{ref} {canon(r)}", r)
    raise ValueError(op)


def expected_line(refs, ref, st):
    """what the property demands of the step's output line (None: silent)"""
    op = st[0]
    if op == "overwrite":
        return None
    R = refs[st[1]]
    if op == "gen":
        return f"{ref} {R.enc(st[3])}"
    if op == "check":
        return b01(R.is_cw(st[3]))
    if op == "cac":
        e = R.cac(st[3])
        return None if e is None else f"{ref} {e}"
    if op == "correct":
        e = R.correct(st[3])
        return None if e is None else f"{ref} {e}"


def run_history(table, refs, steps, window=3, on_bad=None):
    """
    Runs the steps on the real code keeping every result object.  After every step the last
    `window` kept objects are read again, at the end all of them.  Returns (lines, held, expected)
    where lines = [(model line, implementation output)] including the final reads.
    on_bad(kind, index of the offending step, index of the step whose result is affected, expected, actual)
    """
    held, exp, owner, lines = [], [], [], []
    reported = set()

    def reread(lo, at):
        for r in range(lo, len(held)):
            if held[r] is None or r in reported:
                continue
            cur = canon(held[r])
            if cur != exp[r]:
                reported.add(r)
                if on_bad:
                    on_bad("held-result-changed", at, owner[r], exp[r], cur)

    for idx, st in enumerate(steps):
        out, obj = apply_step(table, held, st)
        if st[0] == "overwrite":
            if out == "ok":
                exp[st[1]] = st[2]
                reported.discard(st[1])
                lines.append((step_line(st), out))
                reread(max(0, len(held) - window), idx)
            continue
        ref = len(held)
        want = expected_line(refs, ref, st)
        if want is not None and out != want and on_bad:
            on_bad("wrong-result", idx, idx, want, out)
        lines.append((step_line(st), out))
        if st[0] in RESULT_OPS:
            held.append(obj)
            owner.append(idx)
            exp.append(None if obj is None else out.split(" ")[-1])
        reread(max(0, len(held) - window), idx)
        if idx & (idx + 1) == 0:
            reread(0, idx)  # everything kept so far, after 1, 2, 4, 8, … steps
    reread(0, len(steps) - 1)
    for r, obj in enumerate(held):
        if obj is not None:
            lines.append((f"h.read {r}", canon(obj)))
    return lines, held, exp


def history_fails(table, refs, steps) -> bool:
    bad = []
    run_history(table, refs, steps, on_bad=lambda *a: bad.append(a))
    return bool(bad)


def sub_history(steps, idxs):
    """the steps with the given indices as a history of its own (handles renumbered); None when an
    overwrite would lose its target"""
    sel = set(idxs)
    refmap, n_old, out = {}, 0, []
    for i, st in enumerate(steps):
        if st[0] in RESULT_OPS:
            if i in sel:
                refmap[n_old] = len(refmap)
            n_old += 1
        if i in sel:
            if st[0] == "overwrite":
                if st[1] not in refmap:
                    return None
                out.append(["overwrite", refmap[st[1]], st[2]])
            else:
                out.append(st)
    return out


def fresh_first_failing_each(cand_lists):
    """
    For every list of candidate histories: index of the first one that fails when it is run alone
    in a fresh process (the checking process has already called the library thousands of times, so
    a history that "fails" here may only do so because of state left behind by earlier calls), or None.
    """
    import subprocess
    import sys

    try:
        p = subprocess.run(
            [sys.executable, os.path.abspath(__file__), "--fresh"],
            input=json.dumps({"events": cand_lists}),
            capture_output=True,
            text=True,
            timeout=900,
        )
        return json.loads(p.stdout.strip().splitlines()[-1])["first"]
    except BaseException:  # noqa
        return [None] * len(cand_lists)


def _fresh_main():
    import sys

    data = json.load(sys.stdin)
    ref_json = json.load(open(os.path.join(os.path.dirname(os.path.abspath(__file__)), "..", "reference", "etsi_codes.json")))
    table = {c[0]: c for c in codes()}
    refs = {name: Ref(name, n, k, d, h, ref_json[name]["G"]) for name, _, n, k, d, h in codes()}
    def fails_fresh(hist) -> bool:
        pid = os.fork()  # every candidate sees a library on which nothing has been called yet
        if pid == 0:
            try:
                bad = history_fails(table, refs, hist)
            except BaseException:  # noqa
                os._exit(2)
            os._exit(1 if bad else 0)
        _, status = os.waitpid(pid, 0)
        return os.WIFEXITED(status) and os.WEXITSTATUS(status) == 1

    if "history" in data:
        # the whole history on a fresh library: what fails here does not depend on anything else
        steps = data["history"]
        rd, wr = os.pipe()
        pid = os.fork()
        if pid == 0:
            os.close(rd)
            ev = []
            try:
                run_history(table, refs, steps, on_bad=lambda *a: ev.append(list(a)) if len(ev) < EVENTS_PER_PROBE else None)
            except BaseException:  # noqa
                pass
            with os.fdopen(wr, "w") as fh:
                fh.write(json.dumps(ev))
            os._exit(0)
        os.close(wr)
        with os.fdopen(rd) as fh:
            events = json.loads(fh.read() or "[]")
        os.waitpid(pid, 0)
        shorts = []
        for kind, at, owner, _, _ in events:
            short = None
            for hist in small_candidates(steps, at, owner):
                if fails_fresh(hist):
                    short = hist
                    break
            shorts.append(short)
        print(json.dumps({"events": events, "shorts": shorts}))
        return
    out = []
    for cands in data["events"]:
        first = None
        for i, hist in enumerate(cands):
            if fails_fresh(hist):
                first = i
                break
        out.append(first)
    print(json.dumps({"first": out}))


def _ddmin_main():
    """delta debugging of a failing history; every trial runs in a forked child of this fresh process"""
    import sys
    import time

    data = json.load(sys.stdin)
    steps, keep, deadline = data["steps"], set(data["keep"]), time.time() + data.get("seconds", 20)
    ref_json = json.load(open(os.path.join(os.path.dirname(os.path.abspath(__file__)), "..", "reference", "etsi_codes.json")))
    table = {c[0]: c for c in codes()}
    refs = {name: Ref(name, n, k, d, h, ref_json[name]["G"]) for name, _, n, k, d, h in codes()}

    def test(idxs):
        sub = sub_history(steps, idxs)
        if sub is None:
            return False
        pid = os.fork()
        if pid == 0:
            try:
                bad = history_fails(table, refs, sub)
            except BaseException:  # noqa
                os._exit(2)
            os._exit(1 if bad else 0)
        _, status = os.waitpid(pid, 0)
        return os.WIFEXITED(status) and os.WEXITSTATUS(status) == 1

    cur = list(range(len(steps)))
    if not test(cur):
        print(json.dumps({"history": None}))
        return
    n = 2
    while time.time() < deadline:
        removable = [i for i in cur if i not in keep]
        if not removable:
            break
        chunk = max(1, -(-len(removable) // n))
        progressed = False
        for start in range(0, len(removable), chunk):
            drop = set(removable[start : start + chunk])
            cand = [i for i in cur if i not in drop]
            if test(cand):
                cur, n, progressed = cand, max(n - 1, 2), True
                break
            if time.time() > deadline:
                break
        if not progressed:
            if chunk == 1:
                break
            n = min(len(removable), n * 2)
    print(json.dumps({"history": sub_history(steps, cur)}))


DDMIN_LEFT = [3]  # delta-debugging runs left in this process (failure mode only; keeps the run time bounded)


def ddmin_fresh(prefix, keep):
    import subprocess
    import sys

    if DDMIN_LEFT[0] <= 0:
        return None
    DDMIN_LEFT[0] -= 1
    try:
        p = subprocess.run([sys.executable, os.path.abspath(__file__), "--ddmin"], input=json.dumps({"steps": prefix, "keep": sorted(keep), "seconds": 8}),
                           capture_output=True, text=True, timeout=600)
        return json.loads(p.stdout.strip().splitlines()[-1]).get("history")
    except BaseException:  # noqa
        return None


def small_candidates(steps, at, owner):
    """
    Short sub-histories that may still fail: the affected step alone / with the offending step /
    with the allocation of an overwritten object / with a few predecessors / with the last steps
    on the same code (smallest first).
    """
    alloc = [i for i, st in enumerate(steps[: at + 1]) if st[0] in RESULT_OPS]
    base = {owner, at}
    if steps[at][0] == "overwrite" and steps[at][1] < len(alloc):
        base.add(alloc[steps[at][1]])
    sets = [base]
    for back in (1, 2, 4, 8):
        sets.append(base | set(range(max(0, at - back), at)))
        sets.append(base | set(range(max(0, at - back), at)) | set(range(owner, min(at, owner + back + 1))))
    code = steps[owner][1]
    same = [i for i in range(max(0, at - 4000), at) if steps[i][0] != "overwrite" and steps[i][1] == code]
    for m in (6, 40):
        sets.append(base | set(same[-m:]))
    for m in (16, 128):
        sets.append(base | set(range(max(0, at - m), at)))
    cands = []
    for c in sets:
        sub = sub_history(steps, c)
        if sub is not None and sub not in cands:
            cands.append(sub)
    return cands


EVENTS_PER_PROBE = 48  # failures of one history that are examined (the rest is counted)
REPORTS_PER_PROBE = 6  # … and reported


def history_probe(ctx, fails, table, refs, component, steps, correspond=True):
    events = []

    def on_bad(kind, at, owner, expected, actual):
        if len(events) < EVENTS_PER_PROBE:
            events.append((kind, at, owner, expected, actual))
        else:
            # one defect usually spoils every later step: the first few are examined, the rest counted
            ctx.count(f"suppressed-failure:{kind}")

    lines, held, _ = run_history(table, refs, steps, on_bad=on_bad)
    ctx.count(f"hist:{component}:steps", len(steps))
    ctx.count(f"hist:{component}:kept-objects", len(held))
    ctx.count(f"hist:{component}:overwrites", sum(1 for s in steps if s[0] == "overwrite"))
    for st in steps:
        ctx.case(("hist", component) + tuple(st))
    if events:
        report_events(ctx, fails, steps, events)
    if correspond and not ctx.search_only and ctx.driver_ok:
        ctx.correspond(f"history.{component}", [("h.reset", "ok")] + lines)
    return held


def fresh_history(steps):
    """events of the whole history on a fresh library, each with a short history that still fails (or None)"""
    import subprocess
    import sys

    try:
        p = subprocess.run([sys.executable, os.path.abspath(__file__), "--fresh"], input=json.dumps({"history": steps}), capture_output=True, text=True, timeout=900)
        r = json.loads(p.stdout.strip().splitlines()[-1])
        return [tuple(e) for e in r["events"]], r["shorts"]
    except BaseException:  # noqa
        return [], []


def report_events(ctx, fails, steps, events):
    """
    Failing inputs of a history.  The history is run once more on a fresh library (a new process):
    what fails there is self-contained and is reported with a short sub-history that still fails
    (tried in fresh processes as well).  Failures seen only in this process — they need the state
    left behind by the earlier part of the run — are reported with the prefix of the history.
    """
    fev, shorts = fresh_history(steps)
    if fev:
        order = [i for i, sh in enumerate(shorts) if sh is not None] + [i for i, sh in enumerate(shorts) if sh is None]
        chosen = [(fev[i], shorts[i], True) for i in order[:REPORTS_PER_PROBE]]
        if shorts[order[0]] is None:
            # the steps that matter are far apart: delta debugging on the prefix, in fresh processes
            (kind, at, owner, _, _) = fev[order[0]]
            small = ddmin_fresh(steps[: at + 1], {owner, at})
            chosen[0] = (fev[order[0]], small, True)
        for _ in range(max(0, len(events) - len(chosen))):
            ctx.count(f"suppressed-failure:{events[0][0]}")
    else:
        chosen = [(ev, None, False) for ev in events[:REPORTS_PER_PROBE]]
        for ev in events[REPORTS_PER_PROBE:]:
            ctx.count(f"suppressed-failure:{ev[0]}")
    for (kind, at, owner, expected, actual), short, alone in chosen:
        if short is None:
            short = steps[: at + 1]
        if kind == "wrong-result" and steps[at][0] in RESULT_OPS:
            # the leading handle number belongs to the long history, not to the shortened one
            expected = expected.split(" ", 1)[-1]
            actual = actual if actual.startswith("ERR") else actual.split(" ", 1)[-1]
        code = steps[owner][1] if steps[owner][0] != "overwrite" else None
        if kind == "held-result-changed":
            what = (
                f"the object returned by step {owner} ({' '.join(map(str, steps[owner]))}) changed its content "
                f"after step {at} ({' '.join(map(str, steps[at]))})"
            )
        else:
            what = f"step {at} ({' '.join(map(str, steps[at]))}) of a history returns a wrong result"
        fails(
            kind if kind == "held-result-changed" else "wrong-result-in-history",
            {"code": code, "history": [" ".join(map(str, s)) for s in short], "fails_when_run_alone_in_a_fresh_process": alone},
            what if alone else what + " (seen after the earlier part of this run; the history alone did not reproduce it in a fresh process)",
            expected=expected,
            actual=actual,
        )


def parse_step(s: str):
    p = s.split(" ")
    if p[0] == "overwrite":
        return ["overwrite", int(p[1]), p[2]]
    return p


# ------------------------------------------------------------------------------------------------
def run(ctx):
    ctx.rule = (
        "per code: every one of the 2^k messages through generate; received words = all 2^n words "
        "(n<=16 always, n=17 and Golay 2^20 thorough, a seeded sample otherwise) plus one word of every "
        "coset, every single-bit (for (16,11,4) double-bit; Golay/QR single+double+sampled triple) "
        "neighbour of code words through check / check_and_correct / correct_numpy_array; every "
        "message and a fixed share of the words again in every accepted argument container "
        "(bitarray big/little endian, dirty pad bits, imported buffer, subclass, frozen; ndarray "
        "int64/column view/reversed view/uint8/bool); histories that keep every returned object "
        "(code book of >= 4096 encodes per code, overwrite-then-call-again, random interleaving of all "
        "codes and entry points, words of one code resized to another code) and read them again "
        "afterwards; a case is non-trivial unless it is the all-zero word; distinct = distinct "
        "(code, operation, container, word) or history"
    )
    ctx.trusted_base += [
        "Lean 4.33 kernel",
        "tools/extract.py (reads GENERATOR_MATRIX / PARITY_CHECK_MATRIX / CORRECT_SYNDROME / n,k,d of the 7 classes from /repo)",
        "hand-written model of generate/check/check_and_correct (Model/Codes.lean), of the bitarray buffer and of the "
        "object history (Model/CodesStore.lean) tied to the code by this run's correspondence",
        "numpy / bitarray are trusted as the substrate of the implementation (tobytes()/endian()/iteration of bitarray define the buffer <-> logical bits relation the model states)",
        "Spec/EtsiCodes.lean + harness/reference/etsi_codes.json: hand-maintained reference copy of the ETSI Annex B.3 generator matrices",
    ]
    ctx.assumptions += [
        "bit strings are passed as bitarrays (either bit order) of the documented length, or, for generate / "
        "correct_numpy_array, as one-dimensional 0/1 ndarrays; check_and_correct gets a mutable bitarray",
        "single-threaded callers",
    ]
    fails = Fails(ctx)
    ref_json = json.load(open(os.path.join(os.path.dirname(os.path.abspath(__file__)), "..", "reference", "etsi_codes.json")))
    table = {c[0]: c for c in codes()}
    refs = {name: Ref(name, n, k, d, h, ref_json[name]["G"]) for name, _, n, k, d, h in codes()}
    # class tables as they are now (they must still be the same at the end of the run)
    tables0 = {
        name: {a: getattr(c[1], a).tolist() for a in ("GENERATOR_MATRIX", "PARITY_CHECK_MATRIX", "CORRECT_SYNDROME")}
        for name, c in table.items()
    }
    do_corr = not ctx.search_only and ctx.driver_ok
    long_held = []  # (code, history description, object, content at return) read again at the very end

    for name, cls, n, k, d, is_hamming in codes():
        R = refs[name]
        # ---------------- messages: exhaustive
        cw = {}
        pairs = []
        rG = ref_json[name]["G"]
        for v in range(2**k):
            m = int2ba(v, length=k)
            out = gen_str(cls, bitarray(m))
            cw[v] = out
            # oracle: the code word is the one the standard's generator matrix (reference copy) gives
            exp = "".join(str(sum(rG[i][j] & m[i] for i in range(k)) % 2) for j in range(n))
            if out != exp:
                fails("not-the-etsi-codeword", {"code": name, "message": bits_str(m)}, f"{name}.generate differs from the ETSI B.3 generator matrix", expected=exp, actual=out)
            pairs.append((f"code.gen {name} {bits_str(m)}", out))
            ctx.case((name, "gen", v), nontrivial=v != 0, sample={"code": name, "op": "generate", "message": bits_str(m), "out": out} if v == 5 else None)
            # oracle: systematic, length, passes the checker
            if isinstance(out, str) and out.startswith("ERR"):
                fails("generate-raises", {"code": name, "message": bits_str(m)}, f"{name}.generate raised {out}")
                continue
            if len(out) != n or out[:k] != bits_str(m):
                fails("not-systematic", {"code": name, "message": bits_str(m)}, f"{name}.generate is not systematic / wrong length", expected=bits_str(m), actual=out)
            c = call(cls.check, bitarray(out))
            if c is not True:
                fails("generated-word-rejected", {"code": name, "message": bits_str(m)}, f"{name}.check rejects generate output", expected=True, actual=str(c))
        if do_corr:
            ctx.correspond(f"{name}.generate", pairs)
        cwset = set(cw.values())
        ctx.count(f"{name}:messages", 2**k)
        # oracle: exactly 2^k distinct code words, minimum distance (all pairs via linearity AND sampled pairs)
        if len(cwset) != 2**k:
            fails("codewords-not-distinct", {"code": name}, f"{name}: generate is not injective", expected=2**k, actual=len(cwset))
        wmin = min((w.count("1") for w in cwset if "1" in w), default=0)
        if wmin < d:
            wit = next(v for v, w in cw.items() if w.count("1") == wmin and "1" in w)
            fails("min-distance", {"code": name, "message": bits_str(int2ba(wit, length=k))}, f"{name}: code word of weight {wmin} < d={d}", expected=d, actual=wmin)
        for _ in range(ctx.budget(300, 5000)):
            a, b = ctx.rng.randrange(2**k), ctx.rng.randrange(2**k)
            if a == b:
                continue
            dist = sum(x != y for x, y in zip(cw[a], cw[b]))
            ctx.case((name, "dist", a, b))
            if dist < d:
                fails("min-distance", {"code": name, "a": a, "b": b}, f"{name}: two code words at distance {dist} < {d}", expected=d, actual=dist)

        # ---------------- the code book as a caller collects it: every returned array is kept
        rounds = max(1, -(-ctx.budget(4096, 16384) // 2**k))
        gen_forms = BA_FORMS + NP_FORMS
        steps = []
        for r in range(rounds):
            for v0 in range(2**k):
                # the code book in counting order first, then messages at random (no period that a
                # recycling scheme of the implementation could share)
                v = v0 if r == 0 else ctx.rng.randrange(2**k)
                form = "be" if r == 0 else ctx.rng.choice(gen_forms)
                if form.startswith("buf-") and k % 8:
                    form = "le"
                steps.append(["gen", name, form, format(v, f"0{k}b")])
        held = history_probe(ctx, fails, table, refs, f"{name}.codebook", steps, correspond=True)
        # the code book as a whole (what the property says about code words, said about the kept arrays)
        book = [canon(o) if o is not None else None for o in held[: 2**k]]
        if None not in book and len(set(book)) != len(book):
            a = next(i for i in range(len(book)) if book.index(book[i]) != i)
            fails(
                "held-codebook-not-distinct",
                {"code": name, "history": [" ".join(s) for s in steps[: 2**k]]},
                f"[{name}.generate(m) for m in all messages] holds {len(set(book))} distinct code words instead of {len(book)}: "
                f"entries {book.index(book[a])} and {a} are equal",
                expected=len(book),
                actual=len(set(book)),
            )
        keep = sorted(ctx.rng.sample(range(len(held)), min(len(held), 256)))
        for i in keep:
            if held[i] is not None:
                long_held.append((name, " ".join(steps[i]), held[i], R.enc(steps[i][3])))
        del held

        # ---------------- received words
        exhaustive = n <= 16 or (ctx.thorough() and n <= 20)
        if exhaustive:
            words = range(2**n)
        else:
            words = sorted({ctx.rng.randrange(2**n) for _ in range(ctx.budget(4000, 4000))} | {0, 2**n - 1})
        pairs_c, pairs_cac, pairs_cor = [], [], []
        do_cac = is_hamming and (n <= 17)
        for wv in words:
            w = int2ba(wv, length=n)
            ws = bits_str(w)
            c = call(cls.check, bitarray(w))
            pairs_c.append((f"code.check {name} {ws}", ("1" if c else "0") if isinstance(c, (bool,)) or c in (True, False) else str(c)))
            ctx.case((name, "check", wv), nontrivial=wv != 0)
            if c not in (True, False) or bool(c) != (ws in cwset) or bool(c) != R.is_cw(ws):
                fails("checker-not-exact", {"code": name, "word": ws}, f"{name}.check disagrees with code word membership", expected=R.is_cw(ws), actual=str(c))
            if do_cac and (not exhaustive or n <= 13 or (wv % 4 == ctx.seed % 4) or (ctx.thorough() and n <= 16)):
                r = call(cls.check_and_correct, bitarray(w))
                rs = r if isinstance(r, str) else f"{'1' if r[0] else '0'} {bits_str(r[1])}"
                pairs_cac.append((f"code.cac {name} {ws}", rs))
                ctx.case((name, "cac", wv), nontrivial=wv != 0)
                want = R.cac(ws)
                if want is not None and rs != want:
                    fails(
                        "single-error-not-repaired" if want[0] == "1" else "double-error-not-reported",
                        {"code": name, "word": ws},
                        f"{name}.check_and_correct mis-handles a word within distance {1 if want[0] == '1' else 2} of a code word",
                        expected=want,
                        actual=rs,
                    )
        ctx.count(f"{name}:words", len(pairs_c))

        # ---------------- structured words: one word of every coset; low-weight patterns for Golay / QR
        struct = []
        for s in range(2 ** (n - k)):
            struct.append(R.cw_int[ctx.rng.randrange(2**k)] ^ s)
            struct.append(s)
        ctx.count(f"{name}:coset-words", len(struct))
        if not is_hamming:
            lw = 0
            smp = sorted({ctx.rng.randrange(2**k) for _ in range(ctx.budget(24, 2**k))} | {0, 2**k - 1})
            for v in smp:
                for i in range(n):
                    struct.append(R.cw_int[v] ^ (1 << i))
                    lw += 1
                for i, j in itertools.combinations(range(n), 2):
                    struct.append(R.cw_int[v] ^ (1 << i) ^ (1 << j))
                    lw += 1
                for _ in range(60):
                    e = 0
                    for b in ctx.rng.sample(range(n), ctx.rng.choice((3, 4, d - 1, d, d + 1))):
                        e |= 1 << b
                    struct.append(R.cw_int[v] ^ e)
                    lw += 1
            ctx.count(f"{name}:low-weight-error-words", lw)
        for wi in struct:
            ws = format(wi, R.fmt)
            c = call(cls.check, bitarray(ws))
            pairs_c.append((f"code.check {name} {ws}", b01(c) if c in (True, False) else str(c)))
            ctx.case((name, "check", wi), nontrivial=wi != 0)
            if c not in (True, False) or bool(c) != R.is_cw(ws):
                fails("checker-not-exact", {"code": name, "word": ws}, f"{name}.check disagrees with code word membership", expected=R.is_cw(ws), actual=str(c))
            if do_cac:
                r = call(cls.check_and_correct, bitarray(ws))
                rs = r if isinstance(r, str) else f"{b01(r[0])} {bits_str(r[1])}"
                pairs_cac.append((f"code.cac {name} {ws}", rs))
                want = R.cac(ws)
                if want is not None and rs != want:
                    fails(
                        "single-error-not-repaired" if want[0] == "1" else "double-error-not-reported",
                        {"code": name, "word": ws},
                        f"{name}.check_and_correct mis-handles a word within distance {1 if want[0] == '1' else 2} of a code word",
                        expected=want,
                        actual=rs,
                    )

        # ---------------- error patterns on code words
        msgs = range(2**k) if (ctx.thorough() or k <= 9) else sorted({ctx.rng.randrange(2**k) for _ in range(ctx.budget(200, 200))} | {0, 2**k - 1})
        if is_hamming:
            for v in msgs:
                c = cw[v]
                for i in range(n):
                    w = bitarray(c)
                    w.invert(i)
                    ws = bits_str(w)
                    r = call(cls.check_and_correct, w)
                    rs = r if isinstance(r, str) else f"{'1' if r[0] else '0'} {bits_str(r[1])}"
                    pairs_cac.append((f"code.cac {name} {ws}", rs))
                    ctx.case((name, "single", v, i), sample={"code": name, "op": "check_and_correct", "word": ws, "out": rs} if (v, i) == (3, 2) else None)
                    if rs != f"1 {c}":
                        fails("single-error-not-repaired", {"code": name, "message": bits_str(int2ba(v, length=k)), "position": i}, f"{name}.check_and_correct does not repair a single error", expected=f"1 {c}", actual=rs)
            ctx.count(f"{name}:single-errors", len(msgs) * n)
        if name == "h16114":
            pairs_ij = list(itertools.combinations(range(16), 2))
            dmsgs = msgs if ctx.thorough() else sorted({ctx.rng.randrange(2**k) for _ in range(ctx.budget(40, 40))} | {0, 2**k - 1})
            for v in dmsgs:
                c = cw[v]
                for i, j in pairs_ij:
                    w = bitarray(c)
                    w.invert(i)
                    w.invert(j)
                    ws = bits_str(w)
                    r = call(cls.check_and_correct, w)
                    rs = r if isinstance(r, str) else f"{'1' if r[0] else '0'} {bits_str(r[1])}"
                    pairs_cac.append((f"code.cac {name} {ws}", rs))
                    ctx.case((name, "double", v, i, j))
                    if rs != f"0 {ws}":
                        fails("double-error-not-reported", {"code": name, "message": bits_str(int2ba(v, length=k)), "positions": [i, j]}, "Hamming(16,11,4) mis-handles a double error", expected=f"0 {ws}", actual=rs)
            ctx.count(f"{name}:double-errors", len(dmsgs) * len(pairs_ij))

        # ---------------- the same logical bits in every accepted container
        pairs_form = []
        # generate: every message in every container
        fmsgs = range(2**k) if (k <= 9 or ctx.thorough()) else sorted({ctx.rng.randrange(2**k) for _ in range(ctx.budget(512, 512))} | {0, 1, 2**k - 1})
        for form in gen_forms[1:]:
            cnt = 0
            for v in fmsgs:
                ms = format(v, f"0{k}b")
                arg = mk_arg(form, ms)
                if arg is None:
                    continue
                line = f"code.genS {name} {store_args(arg)}" if form in BA_FORMS else f"code.gen {name} {ms}"
                res = call(cls.generate, arg)
                out = canon(res)
                cnt += 1
                if out == R.cw[v] and not form.startswith("frozen") and res is not arg:
                    # the caller goes on using its argument object: the array it was given must not follow
                    try:
                        if isinstance(arg, numpy.ndarray):
                            arg[...] = 1 - arg if arg.dtype != bool else ~arg
                        else:
                            arg.invert()
                    except BaseException:  # noqa
                        pass
                    after = canon(res)
                    if after != out:
                        fails("held-result-changed", {"code": name, "op": "generate, then the caller inverts its argument object", "form": form, "message": ms}, f"the array returned by {name}.generate changed when the caller modified the argument object afterwards", expected=out, actual=after)
                    try:
                        if isinstance(arg, numpy.ndarray):
                            arg[...] = 1 - arg if arg.dtype != bool else ~arg
                        else:
                            arg.invert()
                    except BaseException:  # noqa
                        pass
                ctx.case((name, "gen", form, v), nontrivial=v != 0)
                pairs_form.append((line, out))
                if out != R.cw[v]:
                    fails("container-changes-result", {"code": name, "op": "generate", "form": form, "message": ms}, f"{name}.generate of the same message held in a {form} container differs", expected=R.cw[v], actual=out)
                elif canon(arg) != ms:
                    again = canon(call(cls.generate, arg))
                    if again != R.cw[v]:
                        fails("container-changes-result", {"code": name, "op": "generate twice on one object", "form": form, "message": ms}, f"{name}.generate altered its argument: the second call on the same object differs", expected=R.cw[v], actual=again)
            if cnt:
                ctx.count(f"{name}:container:{form}:generate", cnt)
        # words: clean code words, every single error position, doubles, some arbitrary words
        wsel = []
        smp = sorted({ctx.rng.randrange(2**k) for _ in range(ctx.budget(48, 400))} | {0, 2**k - 1})
        for v in smp:
            c = R.cw_int[v]
            wsel.append(c)
            wsel += [c ^ (1 << b) for b in range(n)]
            prs = list(itertools.combinations(range(n), 2))
            for i, j in prs if name == "h16114" and v in smp[:8] else ctx.rng.sample(prs, 6):
                wsel.append(c ^ (1 << i) ^ (1 << j))
        wsel += [ctx.rng.randrange(2**n) for _ in range(ctx.budget(200, 2000))]
        for form in BA_FORMS[1:] + (NP_FORMS if is_hamming else ()):
            cnt = 0
            for wi in wsel:
                ws = format(wi, R.fmt)
                if form in NP_FORMS:
                    arg = mk_arg(form, ws)
                    out = canon(call(cls.correct_numpy_array, arg))
                    pairs_cor.append((f"code.correct {name} {ws}", out))
                    ctx.case((name, "correct", form, wi), nontrivial=wi != 0)
                    cnt += 1
                    want = R.correct(ws)
                    if want is not None and out != want:
                        fails("container-changes-result", {"code": name, "op": "correct_numpy_array", "form": form, "word": ws}, f"{name}.correct_numpy_array mis-handles a word within distance {1 if want != ws else 2} of a code word held in a {form} array", expected=want, actual=out)
                    continue
                arg = mk_arg(form, ws)
                if arg is None:
                    continue
                st = store_args(arg)
                c1 = call(cls.check, arg)
                c2 = call(cls.check, arg)  # the same object again
                pairs_form.append((f"code.checkS {name} {st}", b01(c1)))
                ctx.case((name, "check", form, wi), nontrivial=wi != 0)
                cnt += 1
                for cx, nth in ((c1, "first"), (c2, "second")):
                    if cx not in (True, False) or bool(cx) != R.is_cw(ws):
                        fails("container-changes-result", {"code": name, "op": "check" if nth == "first" else "check twice on one object", "form": form, "word": ws}, f"{name}.check ({nth} call) of the same word held in a {form} container disagrees with code word membership", expected=R.is_cw(ws), actual=str(cx))
                        break
                if is_hamming and form in MUTABLE_BA_FORMS:
                    r = call(cls.check_and_correct, arg)
                    if isinstance(r, str):
                        rs, rl = r, r
                    else:
                        rs = f"{b01(r[0])} {canon(r[1])}"
                        # the repaired bits written as a buffer of the argument's bit order (a canonical
                        # encoding of the logical bits: which object / bit order comes back is not compared)
                        try:
                            rl = f"{b01(r[0])} {bitarray(canon(r[1]), endian=st.split(' ')[0]).tobytes().hex() or '-'}"
                        except ValueError:
                            rl = rs
                    pairs_form.append((f"code.cacS {name} {st}", rl))
                    ctx.case((name, "cac", form, wi), nontrivial=wi != 0)
                    want = R.cac(ws)
                    if want is not None and rs != want:
                        fails("container-changes-result", {"code": name, "op": "check_and_correct", "form": form, "word": ws}, f"{name}.check_and_correct mis-handles a word within distance {1 if want[0] == '1' else 2} of a code word held in a {form} container", expected=want, actual=rs)
            if cnt:
                ctx.count(f"{name}:container:{form}:{'correct_numpy_array' if form in NP_FORMS else 'check+check_and_correct'}", cnt)

        # ---------------- overwrite a returned object, call again
        steps = []
        nres = 0
        osel = sorted({ctx.rng.randrange(2**k) for _ in range(ctx.budget(96, 1024))} | {0, 1, 2**k - 1})
        for v in osel:
            ms = format(v, f"0{k}b")
            other = format(ctx.rng.randrange(2**k), f"0{k}b")
            junk = ctx.rng.choice(("0" * n, "1" * n, format(R.cw_int[v] ^ (2**n - 1), R.fmt), format(ctx.rng.randrange(2**n), R.fmt)))
            steps += [["gen", name, "be", ms], ["overwrite", nres, junk], ["gen", name, ctx.rng.choice(gen_forms[:2] + NP_FORMS[:2]), ms],
                      ["gen", name, "be", other], ["check", name, "be", R.cw[v]]]
            nres += 3
            if is_hamming:
                e = format(R.cw_int[v] ^ (1 << ctx.rng.randrange(n)), R.fmt)
                junk2 = ctx.rng.choice(("0" * n, "1" * n, format(ctx.rng.randrange(2**n), R.fmt)))
                steps += [["cac", name, ctx.rng.choice(("be", "le")), e], ["overwrite", nres, junk2], ["cac", name, "be", e],
                          ["correct", name, "np-int64", e], ["overwrite", nres + 2, junk2], ["correct", name, ctx.rng.choice(NP_FORMS), e],
                          ["cac", name, "be", R.cw[v]], ["overwrite", nres + 4, junk], ["check", name, "le", R.cw[v]], ["cac", name, "le", R.cw[v]]]
                nres += 6
        history_probe(ctx, fails, table, refs, f"{name}.overwrite-call-again", steps)

        if do_corr:
            ctx.correspond(f"{name}.check", pairs_c)
            if pairs_cac:
                ctx.correspond(f"{name}.check_and_correct", pairs_cac)
            if pairs_cor:
                ctx.correspond(f"{name}.correct_numpy_array", pairs_cor)
            if pairs_form:
                ctx.correspond(f"{name}.containers", pairs_form)

    # ---------------- all codes and entry points interleaved at random, everything kept
    names = [c[0] for c in codes()]
    steps = []
    nres = 0
    res_len = []
    for _ in range(ctx.budget(4000, 40000)):
        name = ctx.rng.choice(names)
        _, cls, n, k, d, is_hamming = table[name]
        R = refs[name]
        if nres and ctx.rng.random() < 0.08:
            # overwrite a kept object with something of its own length
            r = ctx.rng.randrange(nres)
            nn = res_len[r]
            steps.append(["overwrite", r, format(ctx.rng.randrange(2**nn), f"0{nn}b")])
            continue
        v = ctx.rng.randrange(2**k)
        kind = ctx.rng.random()
        wi = R.cw_int[v]
        if kind < 0.35:
            wi ^= 1 << ctx.rng.randrange(n)
        elif kind < 0.5:
            i, j = ctx.rng.sample(range(n), 2)
            wi ^= (1 << i) | (1 << j)
        elif kind < 0.6:
            wi = ctx.rng.randrange(2**n)
        ws = format(wi, R.fmt)
        op = ctx.rng.choice(("gen", "check", "cac", "correct") if is_hamming else ("gen", "check"))
        if op == "gen":
            form = ctx.rng.choice(gen_forms)
            if form.startswith("buf-") and k % 8:
                form = "be"
            steps.append(["gen", name, form, format(v, f"0{k}b")])
        elif op == "check":
            form = ctx.rng.choice(BA_FORMS)
            if form.startswith("buf-") and n % 8:
                form = "le"
            steps.append(["check", name, form, ws])
        elif op == "cac":
            form = ctx.rng.choice(MUTABLE_BA_FORMS)
            if form.startswith("buf-") and n % 8:
                form = "dirty-le"
            steps.append(["cac", name, form, ws])
        else:
            steps.append(["correct", name, ctx.rng.choice(NP_FORMS), ws])
        if op in RESULT_OPS:
            nres += 1
            res_len.append(n)
    held = history_probe(ctx, fails, table, refs, "interleaved", steps)
    del held

    # ---------------- words of one code resized to the length of another (keys that collide after
    # padding / truncation), checked right after the original was seen by its own code
    steps = []
    for xa, xb in itertools.permutations(names, 2):
        _, _, na, ka, _, _ = table[xa]
        _, _, nb, kb, _, hb = table[xb]
        Ra, Rb = refs[xa], refs[xb]
        for _ in range(ctx.budget(24, 200)):
            c = Ra.cw[ctx.rng.randrange(2**ka)]
            if ctx.rng.random() < 0.3:
                ci = int(c, 2) ^ (1 << ctx.rng.randrange(na))
                c = format(ci, Ra.fmt)
            fill = ctx.rng.choice("01")
            if ctx.rng.random() < 0.5:
                w = (c + fill * nb)[:nb]  # padded / cut at the end (what tobytes() padding does)
            else:
                w = (fill * nb + c)[-nb:]  # padded / cut at the front (what int() of the bits does)
            steps.append(["check", xa, "be", c])
            steps.append(["check", xb, ctx.rng.choice(("be", "le")), w])
            if hb:
                steps.append(["cac", xb, ctx.rng.choice(("be", "le")), w])
    history_probe(ctx, fails, table, refs, "resized-words-across-codes", steps)

    # ---------------- everything kept since the beginning is read once more; class tables untouched
    bad = 0
    for name, desc, obj, want in long_held:
        cur = canon(obj)
        if cur != want:
            bad += 1
            fails("held-result-changed", {"code": name, "history": [desc, "… the rest of the run …"]}, f"the array returned by '{desc}' no longer holds its code word at the end of the run", expected=want, actual=cur)
    ctx.count("hist:kept-until-end-of-run", len(long_held))
    for name, c in table.items():
        for a, v0 in tables0[name].items():
            if getattr(c[1], a).tolist() != v0:
                fails("class-table-changed", {"code": name, "table": a}, f"{name}.{a} was modified during the run", expected="unchanged", actual="changed")
    ctx.exhaustive = ctx.thorough()
    rank_failures(ctx, refs)


def failure_as_step(refs, f):
    """the single call a non-history failure record is about, as a history step (None: not expressible)"""
    inp = f.get("input") or {}
    if not isinstance(inp, dict) or "code" not in inp or "history" in inp:
        return None
    code, form, op = inp["code"], inp.get("form", "be"), inp.get("op", "")
    if "twice" in op or "then the caller" in op:
        return None
    if "message" in inp:
        if "position" in inp or "positions" in inp:
            wi = int(refs[code].enc(inp["message"]), 2)
            for p in [inp["position"]] if "position" in inp else inp["positions"]:
                wi ^= 1 << (refs[code].n - 1 - p)
            return ["cac", code, "be", format(wi, refs[code].fmt)]
        return ["gen", code, form, inp["message"]]
    if "word" in inp:
        if form in NP_FORMS:
            return ["correct", code, form, inp["word"]]
        if f["kind"] == "checker-not-exact" or op == "check":
            return ["check", code, form, inp["word"]]
        return ["cac", code, form if form in MUTABLE_BA_FORMS else "be", inp["word"]]
    return None


def rank_failures(ctx, refs):
    """
    Failing inputs that fail on their own in a fresh process are reported first: a defect that
    depends on what was called before (a cache, a recycled buffer) also spoils single calls of the
    sweeps, and such a record alone does not reproduce anything.
    """
    if not ctx.failures:
        return
    todo = []
    for f in ctx.failures:
        if isinstance(f.get("input"), dict) and "fails_when_run_alone_in_a_fresh_process" not in f["input"]:
            st = failure_as_step(refs, f)
            if st is not None:
                todo.append((f, st))
            if len(todo) >= 400:
                break
    if todo:
        try:
            res = fresh_first_failing_each([[[st]] for _, st in todo])
            for (f, _), r in zip(todo, res):
                f["input"]["fails_when_run_alone_in_a_fresh_process"] = r is not None
                if r is None:
                    f["what"] += " (this call alone does not fail in a fresh process: it depends on earlier calls of the run)"
        except BaseException as e:  # noqa
            ctx.notes.append(f"fresh-process classification of the failing inputs did not run: {type(e).__name__}")

    def key(f):
        v = f["input"].get("fails_when_run_alone_in_a_fresh_process") if isinstance(f.get("input"), dict) else None
        if v is True:
            return 0
        if isinstance(f.get("input"), dict) and "history" in f["input"]:
            return 1  # at least carries the calls that came before
        return 3 if v is False else 2

    ctx.failures.sort(key=key)


# ------------------------------------------------------------------------------------------------
def replay(obj):
    f = obj.get("failure") or {}
    inp = f.get("input", {})
    table = {c[0]: c for c in codes()}
    print(json.dumps(obj.get("type")), f.get("what"))
    still = None
    if "history" in inp:
        ref_json = json.load(open(os.path.join(os.path.dirname(os.path.abspath(__file__)), "..", "reference", "etsi_codes.json")))
        refs = {name: Ref(name, n, k, d, h, ref_json[name]["G"]) for name, _, n, k, d, h in codes()}
        steps = [parse_step(s) for s in inp["history"] if not s.startswith("…")]
        bad = []
        lines, held, exp = run_history(table, refs, steps, on_bad=lambda *a: bad.append(a))
        for line, out in lines:
            print(f"implementation  {line:60s} -> {out}")
        for kind, at, owner, want, got in bad:
            print(f"{kind}: result of step {owner} after step {at}: expected {want}, actual {got}")
        still = bool(bad)
    elif "code" in inp:
        name, cls, n, k, d, _ = table[inp["code"]]
        form = inp.get("form", "be")
        op = inp.get("op", "")
        if "message" in inp:
            out = canon(call(cls.generate, mk_arg(form, inp["message"])))
            print(f"implementation {name}.generate({inp['message']} as {form}) = {out}")
            if op.startswith("generate"):
                still = out != f.get("expected")
            if not out.startswith("ERR"):
                w = bitarray(out)
                for p in ([inp["position"]] if "position" in inp else inp.get("positions", [])):
                    w.invert(p)
                print(f"implementation {name}.check({bits_str(w)}) = {call(cls.check, bitarray(w))}")
                if hasattr(cls, "check_and_correct"):
                    r = call(cls.check_and_correct, bitarray(w))
                    rs = r if isinstance(r, str) else f"{b01(r[0])} {canon(r[1])}"
                    print(f"implementation {name}.check_and_correct({bits_str(w)}) = {rs}")
                    if "position" in inp or "positions" in inp:
                        still = rs != f.get("expected")
        if "word" in inp:
            ws = inp["word"]
            if form in NP_FORMS:
                out = canon(call(cls.correct_numpy_array, mk_arg(form, ws)))
                print(f"implementation {name}.correct_numpy_array({ws} as {form}) = {out}")
                still = out != f.get("expected")
            else:
                arg = mk_arg(form, ws)
                c = call(cls.check, arg)
                print(f"implementation {name}.check({ws} as {form}) = {c}")
                if op.startswith("check") and op != "check_and_correct" or f.get("kind") == "checker-not-exact":
                    c2 = call(cls.check, arg)
                    still = str(c) != str(f.get("expected")) or str(c2) != str(f.get("expected"))
                elif hasattr(cls, "check_and_correct"):
                    r = call(cls.check_and_correct, mk_arg(form if form in MUTABLE_BA_FORMS else "be", ws))
                    rs = r if isinstance(r, str) else f"{b01(r[0])} {canon(r[1])}"
                    print(f"implementation {name}.check_and_correct({ws} as {form}) = {rs}")
                    still = rs != f.get("expected")
    print("expected:", f.get("expected"), "actual:", f.get("actual"))
    return 1 if still or still is None else 0


if __name__ == "__main__":
    import sys

    if sys.argv[1:] == ["--fresh"]:
        _fresh_main()
    elif sys.argv[1:] == ["--ddmin"]:
        _ddmin_main()
