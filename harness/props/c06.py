"""C06 — Hamming, Golay and quadratic-residue codes (DESIGN §5 C06)."""
import itertools

from bitarray import bitarray
from bitarray.util import int2ba

from common import bits_str, impl_error

PROP = "C06"
MODULES = ["C06"]
GEN = ["Codes"]
MATCHERS = {}


def codes():
    from okdmr.dmrlib.etsi.fec.hamming_7_4_3 import Hamming743
    from okdmr.dmrlib.etsi.fec.hamming_13_9_3 import Hamming1393
    from okdmr.dmrlib.etsi.fec.hamming_15_11_3 import Hamming15113
    from okdmr.dmrlib.etsi.fec.hamming_16_11_4 import Hamming16114
    from okdmr.dmrlib.etsi.fec.hamming_17_12_3 import Hamming17123
    from okdmr.dmrlib.etsi.fec.golay_20_8_7 import Golay2087
    from okdmr.dmrlib.etsi.fec.quadratic_residue_16_7_6 import QuadraticResidue1676

    return [
        ("h743", Hamming743, 7, 4, 3, True),
        ("h1393", Hamming1393, 13, 9, 3, True),
        ("h15113", Hamming15113, 15, 11, 3, True),
        ("h16114", Hamming16114, 16, 11, 4, True),
        ("h17123", Hamming17123, 17, 12, 3, True),
        ("golay2087", Golay2087, 20, 8, 7, False),
        ("qr1676", QuadraticResidue1676, 16, 7, 6, False),
    ]


def call(fn, *a):
    try:
        return fn(*a)
    except BaseException as e:  # noqa
        return impl_error(e)


def gen_str(cls, m: bitarray):
    r = call(cls.generate, m)
    if isinstance(r, str):
        return r
    return "".join(str(int(x)) for x in r.tolist())


def run(ctx):
    ctx.rule = (
        "per code: every one of the 2^k messages through generate; received words = all 2^n words "
        "(n<=17: thorough, a seeded sample in quick; Golay 2^20 thorough only) plus every single-bit "
        "(and for (16,11,4) double-bit) neighbour of code words through check / check_and_correct; a case "
        "is non-trivial unless it is the all-zero word; distinct = distinct (code, operation, word)"
    )
    ctx.trusted_base += [
        "Lean 4.33 kernel",
        "tools/extract.py (reads GENERATOR_MATRIX / PARITY_CHECK_MATRIX / CORRECT_SYNDROME / n,k,d of the 7 classes from /repo)",
        "hand-written model of generate/check/check_and_correct (Model/Codes.lean) tied to the code by this run's correspondence",
        "numpy / bitarray are trusted as the substrate of the implementation",
        "Spec/EtsiCodes.lean + harness/reference/etsi_codes.json: hand-maintained reference copy of the ETSI Annex B.3 generator matrices",
    ]
    ctx.assumptions += ["bit strings are passed as big-endian bitarrays of the documented length"]
    import json, os
    ref = json.load(open(os.path.join(os.path.dirname(os.path.abspath(__file__)), "..", "reference", "etsi_codes.json")))
    for name, cls, n, k, d, is_hamming in codes():
        # ---------------- messages: exhaustive
        cw = {}
        pairs = []
        rG = ref[name]["G"]
        for v in range(2**k):
            m = int2ba(v, length=k)
            out = gen_str(cls, bitarray(m))
            cw[v] = out
            # oracle: the code word is the one the standard's generator matrix (reference copy) gives
            exp = "".join(str(sum(rG[i][j] & m[i] for i in range(k)) % 2) for j in range(n))
            if out != exp:
                ctx.fail("not-the-etsi-codeword", {"code": name, "message": bits_str(m)}, f"{name}.generate differs from the ETSI B.3 generator matrix", expected=exp, actual=out)
            pairs.append((f"code.gen {name} {bits_str(m)}", out))
            ctx.case((name, "gen", v), nontrivial=v != 0, sample={"code": name, "op": "generate", "message": bits_str(m), "out": out} if v == 5 else None)
            # oracle: systematic, length, passes the checker
            if isinstance(out, str) and out.startswith("ERR"):
                ctx.fail("generate-raises", {"code": name, "message": bits_str(m)}, f"{name}.generate raised {out}")
                continue
            if len(out) != n or out[:k] != bits_str(m):
                ctx.fail("not-systematic", {"code": name, "message": bits_str(m)}, f"{name}.generate is not systematic / wrong length", expected=bits_str(m), actual=out)
            c = call(cls.check, bitarray(out))
            if c is not True:
                ctx.fail("generated-word-rejected", {"code": name, "message": bits_str(m)}, f"{name}.check rejects generate output", expected=True, actual=str(c))
        if not ctx.search_only and ctx.driver_ok:
            ctx.correspond(f"{name}.generate", pairs)
        cwset = set(cw.values())
        ctx.count(f"{name}:messages", 2**k)
        # oracle: exactly 2^k distinct code words, minimum distance (all pairs via linearity AND sampled pairs)
        if len(cwset) != 2**k:
            ctx.fail("codewords-not-distinct", {"code": name}, f"{name}: generate is not injective", expected=2**k, actual=len(cwset))
        wmin = min((w.count("1") for w in cwset if "1" in w), default=0)
        if wmin < d:
            wit = next(v for v, w in cw.items() if w.count("1") == wmin and "1" in w)
            ctx.fail("min-distance", {"code": name, "message": bits_str(int2ba(wit, length=k))}, f"{name}: code word of weight {wmin} < d={d}", expected=d, actual=wmin)
        for _ in range(ctx.budget(300, 5000)):
            a, b = ctx.rng.randrange(2**k), ctx.rng.randrange(2**k)
            if a == b:
                continue
            dist = sum(x != y for x, y in zip(cw[a], cw[b]))
            ctx.case((name, "dist", a, b))
            if dist < d:
                ctx.fail("min-distance", {"code": name, "a": a, "b": b}, f"{name}: two code words at distance {dist} < {d}", expected=d, actual=dist)
        # ---------------- received words
        exhaustive = ctx.thorough() and n <= 20
        if exhaustive:
            words = range(2**n)
        else:
            words = sorted({ctx.rng.randrange(2**n) for _ in range(ctx.budget(1500, 1500))} | {0, 2**n - 1})
        pairs_c, pairs_cac = [], []
        do_cac = is_hamming and (n <= 17)
        for wv in words:
            w = int2ba(wv, length=n)
            ws = bits_str(w)
            c = call(cls.check, bitarray(w))
            pairs_c.append((f"code.check {name} {ws}", ("1" if c else "0") if isinstance(c, (bool,)) or c in (True, False) else str(c)))
            ctx.case((name, "check", wv), nontrivial=wv != 0)
            if bool(c) != (ws in cwset):
                ctx.fail("checker-not-exact", {"code": name, "word": ws}, f"{name}.check disagrees with code word membership", expected=ws in cwset, actual=str(c))
            if do_cac and (not exhaustive or n <= 16 or wv % 4 == ctx.seed % 4):
                r = call(cls.check_and_correct, bitarray(w))
                rs = r if isinstance(r, str) else f"{'1' if r[0] else '0'} {bits_str(r[1])}"
                pairs_cac.append((f"code.cac {name} {ws}", rs))
                ctx.case((name, "cac", wv), nontrivial=wv != 0)
        ctx.count(f"{name}:words", len(pairs_c))
        # ---------------- error patterns on code words
        msgs = range(2**k) if (ctx.thorough() or k <= 9) else sorted({ctx.rng.randrange(2**k) for _ in range(ctx.budget(200, 200))} | {0, 2**k - 1})
        if is_hamming:
            for v in msgs:
                c = cw[v]
                for i in range(n):
                    w = bitarray(c)
                    w.invert(i)
                    ws = bits_str(w)
                    r = call(cls.check_and_correct, w)
                    rs = r if isinstance(r, str) else f"{'1' if r[0] else '0'} {bits_str(r[1])}"
                    pairs_cac.append((f"code.cac {name} {ws}", rs))
                    ctx.case((name, "single", v, i), sample={"code": name, "op": "check_and_correct", "word": ws, "out": rs} if (v, i) == (3, 2) else None)
                    if rs != f"1 {c}":
                        ctx.fail("single-error-not-repaired", {"code": name, "message": bits_str(int2ba(v, length=k)), "position": i}, f"{name}.check_and_correct does not repair a single error", expected=f"1 {c}", actual=rs)
            ctx.count(f"{name}:single-errors", len(msgs) * n)
        if name == "h16114":
            pairs_ij = list(itertools.combinations(range(16), 2))
            dmsgs = msgs if ctx.thorough() else sorted({ctx.rng.randrange(2**k) for _ in range(ctx.budget(40, 40))} | {0, 2**k - 1})
            for v in dmsgs:
                c = cw[v]
                for i, j in pairs_ij:
                    w = bitarray(c)
                    w.invert(i)
                    w.invert(j)
                    ws = bits_str(w)
                    r = call(cls.check_and_correct, w)
                    rs = r if isinstance(r, str) else f"{'1' if r[0] else '0'} {bits_str(r[1])}"
                    pairs_cac.append((f"code.cac {name} {ws}", rs))
                    ctx.case((name, "double", v, i, j))
                    if rs != f"0 {ws}":
                        ctx.fail("double-error-not-reported", {"code": name, "message": bits_str(int2ba(v, length=k)), "positions": [i, j]}, "Hamming(16,11,4) mis-handles a double error", expected=f"0 {ws}", actual=rs)
            ctx.count(f"{name}:double-errors", len(dmsgs) * len(pairs_ij))
        if not ctx.search_only and ctx.driver_ok:
            ctx.correspond(f"{name}.check", pairs_c)
            if pairs_cac:
                ctx.correspond(f"{name}.check_and_correct", pairs_cac)
    ctx.exhaustive = ctx.thorough()


def replay(obj):
    f = obj.get("failure") or {}
    inp = f.get("input", {})
    table = {c[0]: c for c in codes()}
    print(json_dumps(obj.get("type")), f.get("what"))
    if "code" in inp:
        name, cls, n, k, d, _ = table[inp["code"]]
        if "message" in inp:
            m = bitarray(inp["message"])
            out = gen_str(cls, m)
            print(f"implementation {name}.generate({inp['message']}) = {out}")
            w = bitarray(out)
            for p in ([inp["position"]] if "position" in inp else inp.get("positions", [])):
                w.invert(p)
            print(f"implementation {name}.check({bits_str(w)}) = {call(cls.check, bitarray(w))}")
            if hasattr(cls, "check_and_correct"):
                r = call(cls.check_and_correct, bitarray(w))
                print(f"implementation {name}.check_and_correct({bits_str(w)}) = {r}")
        if "word" in inp:
            print(f"implementation {name}.check({inp['word']}) = {call(cls.check, bitarray(inp['word']))}")
    print("expected:", f.get("expected"), "actual:", f.get("actual"))
    return 1


def json_dumps(x):
    import json

    return json.dumps(x)
