"""C17 — HSTRP/RRS handler acknowledges each peer message exactly once, whatever the history (DESIGN §5 C17).

Real code: HSTRPDatagramProtocol / RRSDatagramProtocol with recording fake transports, in-process.
Round 5: constant tables (Enum members, dict-literal keys) of every module the handlers parse with are read with `ast` on every run
(props/hytera_tables.py), compared with the committed catalogue c17.enums.json (`--rebaseline` regenerates it) and swept through
datagram_received of both handler classes (run_tables below).
Model: lean/DmrVerif/Model/HstrpHandler.lean through drv_c17; its input is the abstraction of what the
real HSTRP.from_bytes returns for each datagram (None on any exception) — the harness parses nothing itself.

The property quantifies over all histories delivered to *the handler*, whatever its configuration, so
every run is parametrised by a configuration: class (RRS / base), be_active_peer, port, transport present
or absent, how the constructor was called, start attributes, logging on/off, sender address; and a
history is a *script* of operations on one or several live handler objects (`World`): datagrams,
connection_made / connection_lost, attribute re-assignment, periodic_maintenance iterations.
"""
import asyncio
import json
import logging
import os
import socket
import subprocess

if __name__ == "__main__":  # maintainer switch `/venv/bin/python harness/props/c17.py --rebaseline` (see the end of the file)
    import sys

    sys.path.insert(0, os.path.dirname(os.path.dirname(os.path.abspath(__file__))))

import ro_calls as RO
from common import BIN, impl_error
from props import hytera_tables as HT

PROP = "C17"
MODULES = ["C17", "C17p"]
GEN = ["HstrpHandler"]
MATCHERS = {}
# extra files for the drift detector (the property's own anchors are always included)
ANCHORS = ["okdmr/dmrlib/hytera/pdu/hdap.py", "okdmr/dmrlib/hytera/pdu/radio_ip.py"]

ADDR_A = ("192.0.2.1", 30001)
ADDR_B = ("192.0.2.2", 30002)
ADDRS = [ADDR_A, ADDR_B, ("192.0.2.1", 0), ("2001:db8::1", 30001, 0, 0), ("", 65535)]
PORTS = [50000, 0, 1, 3002, 30001, 65535]
# the service ports Hytera repeaters use (RRS, LP, TMP, RCP, telemetry, SDMP … for both slots): candidates for a port-keyed mode
SERVICE_PORTS = [3002, 3003, 3004, 3005, 3006, 3007, 3009, 3017, 3018, 5016] + list(range(30001, 30019))
CLOCK_JUMPS = [0.5, 5, 6, 7, 59, 61, 600, 3600, 86400, 30 * 86400]
TICK_HOST = "192.168.22.18"  # what the model says (Props/C17.maintenance_match ties it to the code)


class FakeTransport(asyncio.DatagramTransport):
    """recording transport; all transports of one World write to one log: (transport id, data, addr)"""

    def __init__(self, tid, log):
        super().__init__()
        self.tid = tid
        self.log = log
        self.closed = 0

    def sendto(self, data, addr=None):
        self.log.append((self.tid, bytes(data), addr))

    def is_closing(self):
        return self.closed > 0

    def close(self):
        self.closed += 1


class CaptureLog(logging.Handler):
    """logging-on mode: every record is formatted (as a real handler would), nothing is printed"""

    def __init__(self):
        super().__init__(level=logging.DEBUG)
        self.records = 0
        self.errors = 0

    def emit(self, record):
        try:
            record.getMessage()
            self.records += 1
        except Exception:  # noqa
            self.errors += 1


CAPTURE = CaptureLog()


class Clock:
    """the handler's clock (datetime.now() in its module, time.time(), time.monotonic()) = real clock + offset;
    the offset is only ever non-zero inside one random script"""

    offset = 0.0
    saved = None

    @classmethod
    def install(cls):
        import datetime as _dt
        import sys
        import time as _time

        mod = sys.modules[L["HSTRPDatagramProtocol"].__module__]
        real_dt = getattr(mod, "datetime", None)
        cls.saved = (mod, real_dt, _time.time, _time.monotonic)
        if isinstance(real_dt, type) and issubclass(real_dt, _dt.datetime):

            class Shifted(real_dt):
                @classmethod
                def now(klass, tz=None):
                    return real_dt.now(tz) + _dt.timedelta(seconds=cls.offset)

                @classmethod
                def utcnow(klass):
                    return real_dt.utcnow() + _dt.timedelta(seconds=cls.offset)

            mod.datetime = Shifted
        real_time, real_mono = _time.time, _time.monotonic
        _time.time = lambda: real_time() + cls.offset
        _time.monotonic = lambda: real_mono() + cls.offset

    @classmethod
    def uninstall(cls):
        import time as _time

        if cls.saved:
            mod, real_dt, t, m = cls.saved
            if real_dt is not None:
                mod.datetime = real_dt
            _time.time, _time.monotonic = t, m
            cls.saved = None
        cls.offset = 0.0


def lib():
    from okdmr.dmrlib.hytera.pdu.hdap import HDAP
    from okdmr.dmrlib.hytera.pdu.hstrp import HSTRP
    from okdmr.dmrlib.hytera.pdu.radio_registration_service import (
        RadioRegistrationService,
        RRSRadioState,
        RRSResult,
        RRSTypes,
    )
    from okdmr.dmrlib.protocols.hytera.hstrp_datagram_protocol import HSTRPDatagramProtocol
    from okdmr.dmrlib.protocols.hytera.rrs_datagram_protocol import RRSDatagramProtocol

    return locals()


L = None
_abs_cache = {}


_parse_cache = {}


def parse(data: bytes):
    """what the handler's own try/except makes of the datagram (cached: the result is only read)"""
    if data in _parse_cache:
        return _parse_cache[data]
    try:
        pdu = L["HSTRP"].from_bytes(data)
    except BaseException:  # noqa: the handler uses a bare except as well
        pdu = None
    pdu = pdu if isinstance(pdu, L["HSTRP"]) else None
    if len(_parse_cache) < 100000:
        _parse_cache[data] = pdu
    return pdu


def type_bits(t) -> str:
    return "".join("1" if b else "0" for b in (t.have_options, t.is_reject, t.is_close, t.is_connect, t.is_heartbeat, t.is_ack))


def abstract(data: bytes, sep=" "):
    """abstract model input derived from the real HSTRP.from_bytes; cached per datagram"""
    key = (data, sep)
    if key in _abs_cache:
        return _abs_cache[key]
    pdu = parse(data)
    if pdu is None:
        r = "none"
    else:
        opt = pdu.options.as_bytes().hex() or "-"
        pl = pdu.payload
        if pl is None:
            p = "N"
        elif isinstance(pl, L["RadioRegistrationService"]):
            p = f"R{pl.opcode.value}:{pl.radio_ip.as_bytes().hex()}"
        elif isinstance(pl, L["HDAP"]):
            p = "O"
        else:
            raise AssertionError(f"payload of unexpected type {type(pl)}")
        # ranges the theorems assume of a parsed message (Msg.WF)
        assert 0 <= pdu.version < 256 and 0 <= pdu.sn < 65536
        r = sep.join([str(pdu.version), type_bits(pdu.pkt_type), str(pdu.sn), opt, p])
    if len(_abs_cache) < 200000:
        _abs_cache[key] = r
    return r


# ------------------------------------------------------------------------------------------------
# handler objects and the world they live in


class SkipHistory(Exception):
    """the constructor itself failed (recorded as an oracle failure): nothing to deliver to"""


class Handler:
    """one real handler object, what it was built from, and what the property implies for it so far"""

    __slots__ = ("name", "kind", "h", "exp_registry", "rxprefix", "fp")

    def __init__(self, name, kind, h):
        self.name, self.kind, self.h = name, kind, h
        self.exp_registry = {}
        self.rxprefix = f"rx {name} "
        self.fp = None


def construct(kind, active, port, how):
    """the constructor, called in one of the ways a caller can (`how`)"""
    cls = L["RRSDatagramProtocol"] if kind == "rrs" else L["HSTRPDatagramProtocol"]
    if how == 1:
        return cls(port, active)  # positional
    if how == 2:
        h = cls(port)  # default mode, then re-configured before any traffic
        if active:
            h.be_active_peer = active
        return h
    if how == 3:
        return cls(port=port, be_active_peer=int(active))  # truthy / falsy instead of bool
    return cls(port=port, be_active_peer=active)


class World:
    """Several live handler objects, their transports, the script that led here.  Every operation runs
    on the real object, appends (model line, implementation line) to `pairs` and evaluates the property."""

    def __init__(self, ctx, pairs, tag=None):
        self.ctx, self.pairs = ctx, pairs
        self.log = []
        self.h = {}
        self.script = []
        self.next_tid = 0
        self.tag = tag
        self._start = len(pairs)
        self.setup_pairs = None
        pairs.append(("reset", "ok"))

    # ---- bookkeeping
    def end_setup(self):
        self.setup_pairs = list(self.pairs[self._start:])

    def resync(self):
        """after the pairs were flushed (the driver process ended): re-establish the set-up state"""
        self.pairs.extend(self.setup_pairs)

    def state(self, hd) -> str:
        h = hd.h
        reg = getattr(h, "registry", {})
        regs = ",".join(f"{socket.inet_aton(k).hex()}:{'1' if v == L['RRSRadioState'].Online else '0'}" for k, v in reg.items())
        t = h.transport
        return (
            f"c={int(bool(h.hstrp_connected))} sn={h.sn} reg={regs or '-'} ap={int(bool(h.be_active_peer))}"
            f" port={h.port} tr={t.tid if isinstance(t, FakeTransport) else '-'}"
        )

    @staticmethod
    def fingerprint(hd):
        h = hd.h
        reg = getattr(h, "registry", None)
        return (h.hstrp_connected, h.sn, tuple(reg.items()) if reg is not None else None, h.be_active_peer, h.port, h.transport,
                h.transport.closed if isinstance(h.transport, FakeTransport) else None)

    def fail(self, kind, what, expected=None, actual=None):
        self.ctx.count(f"oracle-failure:{kind}")
        if len(self.ctx.failures) < MAX_FAILURES:
            self.ctx.fail(kind, {"script": script_json(self.script)}, what, expected=expected, actual=actual)

    def others_untouched(self, name, what):
        """instance isolation: an operation on one handler leaves every other live handler (and its transport) alone"""
        for n, o in self.h.items():
            if n == name:
                continue
            fp = self.fingerprint(o)
            if fp != o.fp:
                self.fail("instance-isolation", f"{what} on handler {name} changed the state of handler {n}", expected=str(o.fp[:5]), actual=str(fp[:5]))
                o.fp = fp

    def _done(self, hd, model_line, line):
        self.pairs.append((model_line, line))
        if len(self.h) > 1:
            self.others_untouched(hd.name, model_line.split(" ")[0])
        hd.fp = self.fingerprint(hd)

    def snapshot(self):
        snap = []
        for hd in self.h.values():
            v = {k: (dict(x) if isinstance(x, dict) else x) for k, x in vars(hd.h).items()}
            t = hd.h.transport
            snap.append((hd, v, t.closed if isinstance(t, FakeTransport) else 0, dict(hd.exp_registry), hd.fp))
        return snap, len(self.script), set(self.h)

    def restore(self, snapshot):
        snap, n, names = snapshot
        for name in list(self.h):
            if name not in names:
                del self.h[name]
        for hd, v, closed, reg, fp in snap:
            d = vars(hd.h)
            d.clear()
            d.update({k: (dict(x) if isinstance(x, dict) else x) for k, x in v.items()})
            if isinstance(hd.h.transport, FakeTransport):
                hd.h.transport.closed = closed
            hd.exp_registry = reg
            hd.fp = fp
        del self.script[n:]

    # ---- operations
    def new(self, name, kind="rrs", active=False, port=50000, how=0):
        self.script.append(("new", name, kind, bool(active), port, how))
        try:
            h = construct(kind, active, port, how)
        except BaseException as e:  # noqa
            self.fail("raises", f"the constructor raised {type(e).__name__}: {e}")
            raise SkipHistory() from e
        hd = Handler(name, kind, h)
        self.h[name] = hd
        line = self.state(hd)
        # a new handler is empty, whatever other handlers have seen (class-level / default-argument state)
        if h.hstrp_connected is not False or h.sn != 0 or getattr(h, "registry", {}) != {} or h.transport is not None:
            self.fail("new-handler-not-empty", "a newly constructed handler does not start disconnected, S/N 0, empty registry, no transport", expected="c=0 sn=0 reg=- tr=-", actual=line)
        if bool(h.be_active_peer) != bool(active) or h.port != port:
            self.fail("config-not-stored", "constructor arguments are not what the handler stores", expected=[bool(active), port], actual=[h.be_active_peer, h.port])
        self._done(hd, f"new {name} {kind} {int(bool(active))} {port}", line)
        return hd

    def made(self, name, pre_closed=False):
        """connection_made with a fresh transport; `pre_closed`: the old transport reports is_closing()"""
        hd = self.h[name]
        h = hd.h
        self.script.append(("made", name, bool(pre_closed)))
        old = h.transport
        if pre_closed and isinstance(old, FakeTransport) and not old.closed:
            old.closed = 1
        old_closing = isinstance(old, FakeTransport) and old.closed > 0
        old_count = old.closed if isinstance(old, FakeTransport) else 0
        keep = (h.hstrp_connected, h.sn, dict(getattr(h, "registry", {})), h.be_active_peer, h.port)
        t = FakeTransport(self.next_tid, self.log)
        self.next_tid += 1
        del self.log[:]
        try:
            h.connection_made(t)
            closed = "-"
            if isinstance(old, FakeTransport) and old.closed > old_count:
                closed = str(old.tid)
            line = f"closed={closed} " + self.state(hd)
        except BaseException as e:  # noqa
            line = impl_error(e) + " " + self.state(hd)
            self.fail("raises", f"connection_made raised {type(e).__name__}: {e}")
        if h.transport is not t or self.log or keep != (h.hstrp_connected, h.sn, dict(getattr(h, "registry", {})), h.be_active_peer, h.port):
            self.fail("connection-made", "connection_made did not just store the transport", expected="transport stored, nothing sent, state kept", actual=line)
        self._done(hd, f"made {name} {t.tid} {int(old_closing)}", line)

    def lost(self, name):
        hd = self.h[name]
        h = hd.h
        self.script.append(("lost", name))
        keep = (h.sn, dict(getattr(h, "registry", {})), h.be_active_peer, h.port, h.transport)
        del self.log[:]
        try:
            h.connection_lost(None)
            line = self.state(hd)
        except BaseException as e:  # noqa
            line = impl_error(e) + " " + self.state(hd)
            self.fail("raises", f"connection_lost raised {type(e).__name__}: {e}")
        if h.hstrp_connected is not False or self.log or keep != (h.sn, dict(getattr(h, "registry", {})), h.be_active_peer, h.port, h.transport):
            self.fail("connection-lost", "connection_lost did not just reset the connected flag", expected="c=0, rest kept, nothing sent", actual=line)
        self._done(hd, f"lost {name}", line)

    def set(self, name, attr, value):
        """attribute re-configuration between datagrams"""
        hd = self.h[name]
        h = hd.h
        self.script.append(("set", name, attr, value))
        if attr == "connected":
            h.hstrp_connected = bool(value)
        elif attr == "connected-call":  # through the helper the class offers
            h.hstrp_set_connected(bool(value))
        elif attr == "sn":
            h.sn = int(value)
        elif attr == "active":
            h.be_active_peer = bool(value)
        elif attr == "port":
            h.port = int(value)
        elif attr == "registry":  # the application drops what it knew (e.g. restart of the upper layer)
            h.registry = {}
            hd.exp_registry = {}
        else:
            raise AssertionError(attr)
        self._done(hd, f"set {name} {'connected' if attr == 'connected-call' else attr} {int(value)}", self.state(hd))

    def clock(self, seconds):
        """time passes (the model has no clock: nothing the property states depends on it)"""
        self.script.append(("clock", seconds))
        Clock.offset = min(Clock.offset + seconds, 10 * 365 * 86400.0)

    def tick(self, name):
        """one iteration of periodic_maintenance"""
        hd = self.h[name]
        h = hd.h
        self.script.append(("tick", name))
        before = self.fingerprint(hd)
        del self.log[:]
        exc = one_tick(h)
        outs = list(self.log)
        if exc is not None:
            line = impl_error(exc) + " " + self.state(hd)
            if not (isinstance(exc, AttributeError) and h.transport is None and not h.hstrp_connected):
                self.fail("raises", f"periodic_maintenance raised {type(exc).__name__}: {exc}")
            else:
                self.ctx.count("precondition:tick-without-transport-raises")
        else:
            to = ",".join(sorted({f"{a[0]}:{a[1]}" for _, _, a in outs})) or "-"
            via = ",".join(sorted({str(t) for t, _, _ in outs})) or "-"
            line = "outs=" + (",".join(o.hex() for _, o, _ in outs) or "-") + f" to={to} via={via} " + self.state(hd)
        if self.fingerprint(hd) != before:
            self.fail("maintenance-changes-state", "an iteration of periodic_maintenance changed the handler's state", expected=str(before[:5]), actual=self.state(hd))
        self._done(hd, f"tick {name}", line)

    def query(self, name):
        hd = self.h[name]
        self.pairs.append((f"state {name}", self.state(hd)))

    def ro_roots(self):
        return {n: o.h for n, o in self.h.items()}

    def ro(self, name, spec):
        """round 6: one observer-style call (harness/ro_calls.py) on the handler `name` or on a library object reachable from it.
        `spec` is a call of the catalogue, or a number: that entry of the catalogue the live handler offers NOW (the script
        records the call it became).  Not a datagram: no model line, nothing may be sent, the deep picture of EVERY live
        handler (class and module data included) and the transports must be what they were."""
        hd = self.h[name]
        roots = self.ro_roots()
        if isinstance(spec, int):
            cat = RO.all_specs({name: hd.h}, RO_POOLS, RO_ARGS_RNG(spec))
            spec = cat[spec % len(cat)]
        spec = list(spec)
        self.script.append(("ro", name, spec))
        try:
            obj = RO.resolve(spec[0], roots)
        except Exception:  # noqa: that object does not exist in this state
            self.ctx.count("read-only-call:no-such-object")
            return
        text = RO.spec_text(spec)
        others = [o.h for n, o in self.h.items() if n != name]
        fps = {n: self.fingerprint(o) for n, o in self.h.items()}
        del self.log[:]
        s0 = RO.snapshot(roots)
        answer, _ = RO.perform(obj, spec, other=others[0] if others else None)
        s1 = RO.snapshot(roots)
        self.ctx.count("read-only-call:" + (spec[2] if spec[1] == "proto" else "call:" + spec[2]))
        self.ctx.count("read-only-call-answer:" + answer)
        if s0 != s1:
            self.fail("read-only-call", f"the read-only call {text} (answer: {answer}) changed the state of a handler", expected="nothing changes", actual=RO.first_diff(s0, s1))
        elif fps != {n: self.fingerprint(o) for n, o in self.h.items()}:
            self.fail("read-only-call", f"the read-only call {text} (answer: {answer}) changed a handler's connected flag / S/N / registry / configuration / transport")
        if self.log:
            self.fail("read-only-call", f"the read-only call {text} (answer: {answer}) sent something", expected=[], actual=[o.hex() for _, o, _ in self.log])

    def ro_final(self):
        """the look through every observer of every handler at the end of a history (masked: wall-clock readings are not state)"""
        roots = self.ro_roots()
        fps = {n: self.fingerprint(o) for n, o in self.h.items()}
        del self.log[:]
        final, specs, changed = RO.checked_sweep(roots, RO_POOLS, 5 + sum(1 for op in self.script if op[0] != "ro"))
        if not changed and (self.log or fps != {n: self.fingerprint(o) for n, o in self.h.items()}):
            changed = "something was sent / a transport or flag changed"
        self.sweep_changed = (changed, specs) if changed else None
        return final

    def rx(self, name, dg, addr=ADDR_A):
        hd = self.h[name]
        h = hd.h
        before = (h.hstrp_connected, h.sn)
        frame = (h.be_active_peer, h.port, h.transport)
        self.script.append(("rx", name, dg, addr))
        log = self.log
        del log[:]
        try:
            ret = h.datagram_received(dg.data, addr)
        except BaseException as e:  # noqa
            ret = e
        outs = list(log)
        if isinstance(ret, BaseException):
            line = impl_error(ret) + " " + self.state(hd)
        else:
            line = None
            for _, _, a in outs:
                if a != addr:
                    line = f"ERR sent-to-other-address {a}"
            if line is None:
                try:
                    handled, pdu = ret
                    via = ",".join(sorted({str(t) for t, _, _ in outs})) or "-"
                    line = (
                        "outs=" + (",".join(o.hex() for _, o, _ in outs) or "-")
                        + f" via={via} ret={int(bool(handled))}{int(pdu is not None)} " + self.state(hd)
                        + " peer=" + (",".join(abstract(o, "/") for _, o, _ in outs) or "-")
                    )
                except (TypeError, ValueError):
                    line = "ERR bad-return-value"
        model_line = hd.rxprefix + abstract(dg.data)
        oracle(self, hd, before, frame, dg, addr, outs, ret)
        self._done(hd, model_line, line)
        return ret, outs


RO_POOLS = {"msg": ["status", "%s %d", ""], "exc": [None]}


def RO_ARGS_RNG(k):
    import random

    return random.Random(k)


_LOOP = None


def one_tick(h):
    """runs `periodic_maintenance` up to its first `await asyncio.sleep(5)` and cancels it there; returns the exception it raised, if any"""
    global _LOOP
    if _LOOP is None or _LOOP.is_closed():
        _LOOP = asyncio.new_event_loop()

    async def go():
        task = asyncio.ensure_future(h.periodic_maintenance())
        await asyncio.sleep(0)
        if not task.done():
            task.cancel()
        try:
            await task
        except asyncio.CancelledError:
            return None
        except BaseException as e:  # noqa
            return e
        return None

    return _LOOP.run_until_complete(go())


def script_json(script):
    out = []
    for op in script:
        if op[0] == "ro":
            out.append(["ro", op[1], json.loads(json.dumps(op[2]))])
        elif op[0] == "rx":
            out.append(["rx", op[1], op[2].json(), list(op[3])])
        else:
            out.append(list(op))
    return out


def script_unjson(js):
    out = []
    for op in js:
        if op[0] == "rx":
            out.append(("rx", op[1], Dg.unjson(op[2]), tuple(op[3])))
        else:
            out.append(tuple(op))
    return out


def run_script(world, script):
    for op in script:
        getattr(world, op[0])(*op[1:])


# ------------------------------------------------------------------------------------------------
# the property on the real code
#
# The oracle reads the *datagram as the harness built it*, never the library's parse of it: type bits =
# octet 3, S/N = octets 4..6 big endian, the options and the RRS opcode / radio ip are the values the
# generator put in (`Dg.meta`).  For datagrams that are not well-formed by construction (truncated,
# garbage, bit-flipped) there is no such record; the header octets are still read raw, and only the
# question "could the handler read this at all" and the option / RRS fields fall back to what the
# library's parser reports.


class Dg:
    """a datagram and, if it is well-formed by construction, the fields it was built from"""

    __slots__ = ("data", "meta")

    def __init__(self, data: bytes, meta=None):
        self.data, self.meta = data, meta

    def json(self):
        m = None
        if self.meta is not None:
            m = dict(self.meta)
            m["opts"] = m["opts"].hex()
            m["rrs"] = [m["rrs"][0], list(m["rrs"][1])] if m["rrs"] else None
        return {"hex": self.data.hex(), "meta": m}

    @staticmethod
    def unjson(o):
        if isinstance(o, str):
            return Dg(bytes.fromhex(o))
        m = o.get("meta")
        if m is not None:
            m = dict(m)
            m["opts"] = bytes.fromhex(m["opts"])
            m["rrs"] = (m["rrs"][0], tuple(m["rrs"][1])) if m["rrs"] else None
        return Dg(bytes.fromhex(o["hex"]), m)


def is_ack_datagram(o: bytes) -> bool:
    return len(o) >= 6 and o[:2] == b"2B" and bool(o[3] & 0x01)


HEARTBEAT = bytes.fromhex("324200020000")


def oracle(w, hd, before, frame, dg, addr, outs, ret):
    """C17 as stated, for one delivery to handler `hd` of world `w`; `before` = (connected, sn) before the
    call, `frame` = (be_active_peer, port, transport) before the call, `outs` = [(transport id, data, addr)]"""
    fail = w.fail
    data, meta = dg.data, dg.meta
    h = hd.h
    exp_registry = hd.exp_registry
    transport = frame[2]
    has_tr = transport is not None
    pdu = parse(data)
    # ---- the configuration is not the datagram's business
    if h.be_active_peer is not frame[0] or h.port is not frame[1] or h.transport is not transport:
        fail("config-changed", "datagram_received changed be_active_peer / port / transport", expected=str(frame[:2]), actual=str((h.be_active_peer, h.port)))
    # ---- what the datagram is (as built, else raw header octets + the library's reading of options / RRS)
    fields = None
    if meta is not None:
        fields = (meta["tb"], meta["sn"], meta["version"], meta["opts"], meta["rrs"])
    elif pdu is not None:
        rp = pdu.payload if isinstance(pdu.payload, L["RadioRegistrationService"]) else None
        fields = (data[3], int.from_bytes(data[4:6], "big"), data[2], pdu.options.as_bytes(), (rp.opcode.value, tuple(rp.radio_ip.as_bytes())) if rp is not None else None)
    rrs = fields[4] if fields else None
    is_request = hd.kind == "rrs" and rrs is not None and rrs[0] == 3
    is_offline = hd.kind == "rrs" and rrs is not None and rrs[0] == 1
    raised = isinstance(ret, BaseException)
    if raised:
        # the one documented precondition: rrs_confirm needs the transport connection_made stores (asyncio
        # calls connection_made before any datagram).  Without it a registration request ends in
        # AttributeError after registry and S/N were updated — everything else must not raise.
        if not has_tr and is_request and isinstance(ret, AttributeError) and (meta is None or pdu is not None):
            w.ctx.count("precondition:registration-without-transport-raises")
        else:
            fail("raises", f"datagram_received raised {type(ret).__name__}: {ret}")
            return
    out_bytes = [o for _, o, _ in outs]
    if not has_tr and out_bytes:
        fail("sent-without-transport", "a handler that has no transport sent something", expected=[], actual=[o.hex() for o in out_bytes])
    if has_tr and any(t != transport.tid for t, _, _ in outs):
        fail("sent-through-other-transport", "answers went through a transport that is not this handler's", expected=transport.tid, actual=[t for t, _, _ in outs])
    if any(a != addr for _, _, a in outs):
        fail("sent-to-other-address", "an answer was not sent to the sender of the datagram", expected=str(addr), actual=str([a for _, _, a in outs]))
    if meta is not None:
        # well-formed by construction: the handler has to read it
        if pdu is None:
            if not out_bytes:
                fail("wellformed-ignored", "a well-formed HSTRP datagram was treated as 'not an HSTRP' (no acknowledgement, no handling)", expected="handled", actual="ignored")
            return
    elif pdu is None:
        if out_bytes or raised or ret != (False, None) or (h.hstrp_connected, h.sn) != before:
            fail("non-hstrp-handled", "a datagram that is no HSTRP caused output / state change", expected="no output, (False, None)", actual=str((len(out_bytes), None if raised else ret[0])))
        return
    tb, sn, version, opts, rrs = fields
    is_ack, is_hb, is_connect, is_close = bool(tb & 0x01), bool(tb & 0x02), bool(tb & 0x04), bool(tb & 0x08)
    connect_c = is_connect
    heartbeat_c = not is_connect and is_hb
    close_c = not is_connect and not is_hb and is_close
    acks = [o for o in out_bytes if is_ack_datagram(o)]
    beats = [o for o in out_bytes if o == HEARTBEAT]
    others = [o for o in out_bytes if not is_ack_datagram(o) and o != HEARTBEAT]
    if has_tr:
        # ---- acknowledgements
        if not is_ack and not heartbeat_c:
            # connect, close, data (and reject) messages: exactly one acknowledgement: ack bit, the same 16-bit S/N,
            # nothing after the header but (at most) the request's options — no payload
            ok = len(acks) == 1
            if ok:
                a = acks[0]
                ok = a[:2] == b"2B" and a[4:6] == sn.to_bytes(2, "big") and a[6:] in (opts, b"") and not (a[3] & 0x10)
            if not ok:
                want = b"2B" + bytes([version, ((tb & 0x3F) | 0x01) & ~0x10]) + sn.to_bytes(2, "big") + opts
                fail("ack-not-exactly-once", "a connect/close/data message was not answered by exactly one acknowledgement with its S/N and no payload", expected=[want.hex()], actual=[a.hex() for a in acks])
        else:
            if acks:
                kind = "ack-answered" if is_ack else "heartbeat-acknowledged"
                fail(kind, "an acknowledgement / heartbeat was acknowledged", expected=[], actual=[a.hex() for a in acks])
        if is_ack and not heartbeat_c:
            # acknowledgements are never answered; the only datagram an ack-typed message can trigger is the RRS
            # answer to a registration request it carries
            if beats or (others and not is_request):
                fail("ack-answered", "a message with the acknowledgement bit was answered", expected=[], actual=[o.hex() for o in out_bytes])
        # ---- heartbeat echo only while connected — in every configuration
        exp_beats = 1 if (heartbeat_c and before[0]) else 0
        if len(beats) != exp_beats:
            fail("heartbeat-echo", "heartbeat echoed while not connected / not echoed while connected / echoed for a non-heartbeat", expected=exp_beats, actual=len(beats))
    # ---- connected flag = last connect/close seen was a connect
    exp_conn = True if connect_c else False if close_c else before[0]
    if h.hstrp_connected != exp_conn:
        fail("connected-flag", "connected flag differs from 'last connect/close seen was a connect'", expected=exp_conn, actual=h.hstrp_connected)
    # ---- registry and registration answers
    if hd.kind == "rrs":
        if is_request or is_offline:
            exp_registry[".".join(str(x) for x in rrs[1])] = "Online" if is_request else "Offline"
        got = {k: v.name for k, v in h.registry.items()}
        if got != exp_registry:
            fail("registry", "registry differs from the fold of the last registration/offline message per radio", expected=str(exp_registry), actual=str(got))
        if is_request and has_tr:
            # exactly one success answer (result 0, renewal 300 s) for this radio, with the handler's 16-bit S/N
            ok = len(others) == 1 and 0 <= h.sn < 65536
            want = None
            if ok:
                want = b"2B\x00\x20" + h.sn.to_bytes(2, "big") + rrs_payload(0x80, rrs[1])
                ok = others[0] == want
            if not ok:
                fail("registration-answer", "a registration request was not answered by exactly one success answer with a 16-bit S/N", expected=[want.hex()] if want else 1, actual=[o.hex() for o in others])
        elif others:
            fail("unexpected-output", "output that is neither acknowledgement, heartbeat nor a registration answer to a request", actual=[o.hex() for o in others])
        if is_request:
            if not 0 <= h.sn < 65536:
                fail("sn-range", "own sequence number does not fit 16 bits", actual=h.sn)
        elif h.sn != before[1]:
            fail("sn-changed", "own sequence number changed without a registration answer", expected=before[1], actual=h.sn)
    else:
        if others:
            fail("unexpected-output", "base handler sent something that is neither acknowledgement nor heartbeat", actual=[o.hex() for o in others])
        if h.sn != before[1]:
            fail("sn-changed", "own sequence number of the base handler changed", expected=before[1], actual=h.sn)


# ------------------------------------------------------------------------------------------------
# datagram classes

OPTS = bytes.fromhex("83040001869f040102")  # DeviceID 99999 (more follow), ChannelID 2
KNOWN_RRS_OPCODES = (3, 0x80, 1, 2, 0x82)


def raw_hstrp(type_byte, sn=0, opts=b"", payload=b"", version=0) -> bytes:
    return b"2B" + bytes([version, type_byte]) + sn.to_bytes(2, "big") + opts + payload


def rrs_payload(opcode: int, ip=(10, 0, 0, 100), reliable=False) -> bytes:
    """RRS HDAP frame built by hand (layout of HDAP.as_bytes)"""
    body = bytes(ip)
    if opcode == 0x80:
        body += bytes([0]) + (300).to_bytes(4, "big")
    elif opcode == 0x82:
        body += bytes([0])
    checked = bytes([0, opcode]) + len(body).to_bytes(2, "big") + body
    csum = 0
    for b in checked:
        csum = (csum + b) & 0xFF
    return bytes([0x11 | (0x80 if reliable else 0)]) + checked + bytes([((csum ^ 0xFF) + 0x33) & 0xFF, 0x03])


RCP_CALL = bytes.fromhex("024108050000d20400000e03")  # RCP call request (test vector)


def hstrp(type_byte, sn=0, opts=b"", rrs=None, other=b"", version=0, reliable=False) -> Dg:
    """a well-formed HSTRP datagram built from fields (kept as `meta` for the oracle)"""
    payload = rrs_payload(rrs[0], rrs[1], reliable) if rrs else other
    assert type_byte < 64 and (not opts or (type_byte & 0x20 and not type_byte & 0x02))
    assert rrs is None or rrs[0] in KNOWN_RRS_OPCODES
    return Dg(raw_hstrp(type_byte, sn, opts, payload, version), {"tb": type_byte, "sn": sn, "version": version, "opts": opts, "rrs": rrs})


R100, R101, R102 = (10, 0, 0, 100), (10, 0, 0, 101), (10, 0, 0, 102)
N_CORE = 12


def classes(variant=0):
    """the 20 datagram classes; `variant` moves the sequence numbers across the 16-bit range
    (0: small / documented values, 1: all >= 0x0100, 2: extremes)"""
    sn = {
        0: dict(zero=0, a=7, b=1, c=2, d=3, e=0xFFFF, f=4, g=9, h=5),
        1: dict(zero=0x0100, a=0x1234, b=0x0101, c=0xABCD, d=0x0200, e=0x8000, f=0x7FFF, g=0x0900, h=0x00FF + 0x0100),
        2: dict(zero=0xFFFF, a=0xFF00, b=0x00FF, c=0xFFFE, d=0x0100, e=0x0001, f=0xFF01, g=0x01FF, h=0xFEFF),
    }[variant]
    trunc = hstrp(0x20, sn=sn["b"], opts=OPTS, rrs=(3, R100)).data[:11]
    return [
        # the 12 core classes (exhaustive to length 6 in the thorough tier)
        ("connect", hstrp(0x04, sn=sn["zero"])),
        ("connect-ack", hstrp(0x05, sn=sn["zero"])),
        ("heartbeat", hstrp(0x02)),
        ("close", hstrp(0x08, sn=sn["zero"])),
        ("close-ack", hstrp(0x09, sn=sn["zero"])),
        ("ack", hstrp(0x01, sn=sn["a"])),
        ("reject", hstrp(0x10, sn=sn["a"])),
        ("rrs-register", hstrp(0x20, sn=sn["b"], opts=OPTS, rrs=(3, R100))),
        ("rrs-offline", hstrp(0x20, sn=sn["c"], opts=OPTS, rrs=(1, R100))),
        ("data-other-hdap", hstrp(0x00, sn=sn["b"], other=RCP_CALL)),
        ("truncated", Dg(trunc)),
        ("garbage", Dg(b"XB\x00\x04\x00\x00")),
        # further classes (exhaustive to length 4)
        ("data-empty", hstrp(0x00, sn=sn["d"])),
        ("rrs-register-2", hstrp(0x20, sn=sn["e"], opts=OPTS, rrs=(3, R101))),
        ("rrs-status-check", hstrp(0x20, sn=sn["f"], opts=OPTS, rrs=(2, R100))),
        ("heartbeat+ack", hstrp(0x03)),
        ("connect+close", hstrp(0x0C, sn=sn["g"])),
        ("ack+rrs-register", hstrp(0x21, sn=sn["h"], opts=OPTS, rrs=(3, R100))),
        ("short", Dg(b"2B\x00\x04\x00")),
        ("heartbeat+rrs-offline", hstrp(0x02, sn=0, rrs=(1, R100))),
    ]


CLASSES = classes(0)

CORPUS = [
    # the repaired defect (ac2ad50): the acknowledgement of a connect / close must not be answered
    ("pingpong-connect", [hstrp(0x04)]),
    ("pingpong-close", [hstrp(0x08)]),
    ("connect-ack-direct", [hstrp(0x05), hstrp(0x09), hstrp(0x05)]),
    ("register-then-offline", [hstrp(0x04), CLASSES[7][1], CLASSES[8][1], CLASSES[13][1]]),
    # sequence numbers above one octet: the acknowledgement carries both octets
    # option blocks at their smallest: one value-less option (RTP) and nothing behind it; one option then a payload
    ("single-valueless-option", [hstrp(0x24, opts=b"\x01\x00"), hstrp(0x20, sn=0x13, opts=b"\x01\x00"), hstrp(0x28, sn=2, opts=b"\x01\x00"),
                                 hstrp(0x20, sn=3, opts=b"\x01\x00", rrs=(3, R101)), hstrp(0x20, sn=4, opts=b"\x04\x01\x02", other=RCP_CALL)]),
    # the repaired defect (160c61b): a REJECT whose RCP payload (SendTalkerAliasRequest, three octets declared UTF-16)
    # cannot be printed made the handler raise inside its log call, before the acknowledgement
    ("reject-with-unprintable-alias", [Dg(bytes.fromhex("3242001090350252080e0000fd080000fa18230003036162636403"))]),
    ("two-octet-sn", [hstrp(0x04, sn=0x0100), hstrp(0x08, sn=0x1234), hstrp(0x00, sn=0xFFFF), hstrp(0x20, sn=0xABCD, opts=OPTS, rrs=(3, R100)), hstrp(0x10, sn=0x0101)]),
]


def random_datagram(rng) -> Dg:
    c = rng.randrange(100)
    if c < 8:
        return Dg(bytes(rng.randrange(256) for _ in range(rng.choice([0, 1, 5, 6, 7, 12, 30]))))
    wellformed = True
    if rng.random() < 0.85:
        tb = rng.choice([0x04, 0x05, 0x02, 0x08, 0x09, 0x01, 0x10, 0x20, 0x00, 0x21, 0x24, 0x28, 0x03, 0x0C, 0x30, 0x11])
    else:
        tb = rng.randrange(256)
        wellformed = tb < 64
    sn = rng.choice([0, 1, 7, 255, 256, 0x1234, 0xFFFE, 0xFFFF, rng.randrange(65536), rng.randrange(256, 65536)])
    version = 0 if rng.random() < 0.8 else rng.randrange(256)
    opts = b""
    if tb & 0x20 and not tb & 0x02 and rng.random() < 0.9:
        n = rng.choice([1, 2, 2, 3])
        for i in range(n):
            if rng.random() < 0.95:
                cmd = rng.choice([1, 3, 4, 5, 6, 7])
            else:
                cmd = rng.randrange(128)
                wellformed = wellformed and cmd in (1, 3, 4, 5, 6, 7)
            body = bytes(rng.randrange(256) for _ in range({1: 0, 3: 4}.get(cmd, 1)))
            opts += bytes([cmd | (0x80 if i < n - 1 else 0), len(body)]) + body
    if tb & 0x20 and not tb & 0x02 and not opts:
        wellformed = False  # option flag without options (what follows would be read as options)
    rrs = None
    p = rng.randrange(100)
    if p < 45:
        if rng.random() < 0.95:
            op = rng.choice([3, 3, 3, 1, 1, 2, 0x80, 0x82])
        else:
            op = rng.randrange(256)
            wellformed = wellformed and op in KNOWN_RRS_OPCODES
        ip = rng.choice([R100, R101, R102]) if rng.random() < 0.9 else tuple(rng.randrange(256) for _ in range(4))
        rrs = (op, ip)
        payload = rrs_payload(op, ip, reliable=rng.random() < 0.2)
    elif p < 55:
        payload = RCP_CALL
    elif p < 60:
        payload = bytes(rng.randrange(256) for _ in range(rng.randrange(1, 12)))
        wellformed = False
    else:
        payload = b""
    d = raw_hstrp(tb, sn, opts, payload, version)
    m = rng.randrange(100)
    if m < 10 and len(d) > 1:
        return Dg(d[: rng.randrange(len(d))])
    if m < 25:
        d = bytearray(d)
        for _ in range(rng.choice([1, 1, 2, 3])):
            i = rng.randrange(len(d) * 8)
            d[i // 8] ^= 0x80 >> (i % 8)
        return Dg(bytes(d))
    if not wellformed:
        return Dg(d)
    return Dg(d, {"tb": tb, "sn": sn, "version": version, "opts": opts, "rrs": rrs})


# ------------------------------------------------------------------------------------------------
def make_world(ctx, pairs, cfg, start=(False, 0), name="A", tag=None):
    """a world with one handler of configuration `cfg` = (kind, active, transport present, port, how), brought to `start`"""
    kind, active, transport, port, how = cfg
    w = World(ctx, pairs, tag)
    w.new(name, kind, active, port, how)
    if transport:
        w.made(name)
    if start[0]:
        w.set(name, "connected", True)
    if start[1]:
        w.set(name, "sn", start[1])
    w.end_setup()
    return w


def cfg_key(cfg):
    return f"cfg:kind={cfg[0]},active={int(bool(cfg[1]))},transport={int(bool(cfg[2]))}"


def run_history(ctx, cfg, start, datagrams, pairs, name="A"):
    """delivers a history (list of Dg) to a fresh handler; oracle on every delivery; model lines appended"""
    w = make_world(ctx, pairs, cfg, start, name)
    for dg in datagrams:
        w.rx(name, dg)
        ab = abstract(dg.data)
        ctx.count(f"msg:{'none' if ab == 'none' else ab.split(' ')[1]}")
    ctx.count(cfg_key(cfg))
    return w


def sym_rx(name, dg, addr=ADDR_A):
    return lambda w: w.rx(name, dg, addr)


def event_symbols(name, cls):
    """the event alphabet: 8 datagram classes + connection_lost, connection_made (fresh transport),
    be_active_peer toggled, port re-assigned, one periodic_maintenance iteration"""
    pick = ("connect", "connect-ack", "heartbeat", "close", "ack", "rrs-register", "rrs-offline", "garbage")
    by = dict(cls)
    syms = [(c, sym_rx(name, by[c]), abstract(by[c].data) != "none") for c in pick]
    syms += [
        ("lost", lambda w: w.lost(name), True),
        ("made", lambda w: w.made(name), True),
        ("toggle-active", lambda w: w.set(name, "active", not w.h[name].h.be_active_peer), True),
        ("set-port", lambda w: w.set(name, "port", (w.h[name].h.port + 7) % 65536), True),
        ("tick", lambda w: w.tick(name), True),
    ]
    return syms


MAX_FAILURES = 200


def dfs(ctx, w, symbols, maxlen, flush, tag):
    """all sequences up to maxlen over `symbols` [(label, fn(world), nontrivial)], sharing prefixes by
    snapshot/restore of the world (model: push / pop)"""
    pairs = w.pairs
    count = 0
    path = []

    def rec(depth):
        nonlocal count
        for si, (label, fn, nontriv) in enumerate(symbols):
            if depth == 0 and len(ctx.failures) >= MAX_FAILURES:
                return  # as many failing inputs as are ever recorded: the search has done its job
            snap = w.snapshot()
            pairs.append(("push", "ok"))
            fn(w)
            count += 1
            path.append(si)
            ctx.case((tag, tuple(path)), nontrivial=nontriv)
            if depth + 1 < maxlen:
                rec(depth + 1)
            pairs.append(("pop", "ok"))
            w.restore(snap)
            path.pop()
            if depth == 0 and len(pairs) > 300000:
                flush()
                # a flush ends the driver process: re-establish the start state (we are back at it)
                w.resync()

    rec(0)
    return count


def dfs_classes(ctx, pairs, flush, cfg, start, cls, maxlen, name="A"):
    try:
        w = make_world(ctx, pairs, cfg, start, name)
    except SkipHistory:
        return 0
    syms = [(c, sym_rx(name, dg), abstract(dg.data) != "none") for c, dg in cls]
    n = dfs(ctx, w, syms, maxlen, flush, ("dfs", cfg, start))
    ctx.count(cfg_key(cfg), n)
    return n


def pingpong(ctx, kind, first: bytes, conn, active, pairs, max_rounds=6):
    """deliver `first` to A, A's answers to B, B's answers to A, …; returns the number of delivery rounds
    until nothing is sent any more (None if still talking after max_rounds).  conn / active = (A's, B's)."""
    w = World(ctx, pairs)
    for i, n in enumerate("AB"):
        w.new(n, kind, active[i], 50000 + i, how=i)
        w.made(n)
        if conn[i]:
            w.set(n, "connected", True)
    inbox, who = [first], 0
    for rnd in range(max_rounds):
        name, addr = ("A", ADDR_B) if who == 0 else ("B", ADDR_A)
        nxt = []
        for d in inbox:
            ret, outs = w.rx(name, Dg(d), addr)
            if isinstance(ret, BaseException):
                return rnd
            nxt += [o for _, o, _ in outs]
        if not nxt:
            return rnd + 1
        inbox, who = nxt, 1 - who
    return None


def is_heartbeat_class(data: bytes) -> bool:
    """raw reading of the type octet: heartbeat bit without connect bit"""
    return len(data) >= 6 and data[:2] == b"2B" and bool(data[3] & 0x02) and not (data[3] & 0x04)


def random_world(ctx, rng, pairs, i):
    """a random script: 1–4 live handlers of random configuration, interleaved random datagrams from varying
    senders, and (in eventful histories) connection_lost / connection_made / re-configuration / maintenance"""
    multi = i % 4 == 3
    names = "ABCD"[: rng.choice([2, 2, 3, 4])] if multi else "A"
    eventful = i % 2 == 1
    w = World(ctx, pairs)
    cfgs = {}
    for n in names:
        kind = "rrs" if rng.random() < 0.75 else "base"
        active = rng.random() < 0.5
        transport = rng.random() < 0.85
        how = rng.randrange(4)
        port = rng.choice(PORTS + SERVICE_PORTS) if rng.random() < 0.8 else rng.randrange(65536)
        w.new(n, kind, active, port, how)
        ctx.count(f"ctor:how={how}")
        if transport:
            w.made(n)
        if rng.random() < 0.3:
            w.set(n, rng.choice(["connected", "connected-call"]), True)
        sn = rng.choice([0, 0, 1, 0xFFFD, 0xFFFE, 0xFF00])
        if sn:
            w.set(n, "sn", sn)
        cfgs[n] = (kind, active, transport, port, how)
        ctx.count(cfg_key(cfgs[n]))
    if multi:
        ctx.count(f"multi:handlers={len(names)}")
    length = rng.choice([1, 3, 10, 40, 100, 200]) if i % 7 else 200
    alt_addr = rng.random() < 0.4
    for _ in range(length):
        n = names[rng.randrange(len(names))] if multi else "A"
        if eventful and rng.random() < 0.08:
            e = rng.randrange(10)
            if e == 0:
                w.lost(n)
            elif e == 1:
                w.made(n, pre_closed=rng.random() < 0.3)
            elif e == 2:
                w.set(n, "active", rng.random() < 0.5)
            elif e == 3:
                w.set(n, "port", rng.choice(PORTS + SERVICE_PORTS))
            elif e == 4:
                w.tick(n)
            elif e == 5:
                w.set(n, rng.choice(["connected", "connected-call"]), rng.random() < 0.5)
            elif e == 6:
                w.set(n, "sn", rng.choice([0, 1, 0xFFFD, 0xFFFE, 0xFFFF, 0x10000, 70000, rng.randrange(0xFFFF)]))
            elif e == 7:
                w.lost(n)
                w.made(n)
            elif e == 8:
                w.clock(rng.choice(CLOCK_JUMPS))
            elif cfgs[n][0] == "rrs":
                w.set(n, "registry", 0)
            else:
                w.clock(rng.choice(CLOCK_JUMPS))
            ctx.count(f"event:{('lost', 'made', 'set-active', 'set-port', 'tick', 'set-connected', 'set-sn', 'lost+made', 'clock-jump', 'registry-dropped/clock-jump')[e]}")
            continue
        dg = random_datagram(rng)
        addr = ADDRS[rng.randrange(len(ADDRS))] if alt_addr and rng.random() < 0.5 else ADDR_A
        if addr is not ADDR_A:
            ctx.count("addr:other-sender")
        w.rx(n, dg, addr)
        ab = abstract(dg.data)
        ctx.count(f"msg:{'none' if ab == 'none' else ab.split(' ')[1]}")
    for n in names:
        w.query(n)
    Clock.offset = 0.0
    return w, length, cfgs


# ------------------------------------------------------------------------------------------------
# round 5: constant tables (Enum members, dict-literal keys, class-level constants) of every module the handlers parse with
# (props/hytera_tables.py).  No function statement changes when an enum member's value changes, a member is added or removed:
# the tables are read with `ast` from the CURRENT source on every run and compared with the committed catalogue
# harness/props/c17.enums.json (regenerate after an intended change: `/venv/bin/python harness/props/c17.py --rebaseline`).
# The catalogue only directs the search and says which wire values were documented when it was taken — "well-formed by
# construction" for a payload means: the hand-written frame of an implemented message kind whose enum-typed fields carry
# documented values (or any value, where the catalogue says unknown values fold onto a reserved member; or any raw opcode the
# catalogue does not list, which travels as RCP UnknownService).  A difference is never reported by itself: the verdict is the
# ack-exactly-once oracle's on a concrete datagram delivered to a live handler.

TABLE_TYPES = [(0x00, False), (0x20, True), (0x04, False), (0x08, False), (0x10, False), (0x24, True), (0x28, True), (0x01, False), (0x21, True), (0x02, False)]
WORLD_LEN = 24  # deliveries per world: a failing script stays short, the history before a delivery still varies
TABLE_HANDLERS = [("rrs", False), ("base", True)]


def c17_expectation(cat, site, v, own):
    """the catalogue documents the frame with v in this field: the handler has to read (and acknowledge) the message that carries it"""
    if site.cls == HT.RAW:
        return True
    if site.label == "service":
        return v == own
    if site.opcode:
        return v == own or (cat.folds(site.cls) and v not in cat.values(site.cls))
    return v in cat.values(site.cls) or cat.folds(site.cls)


class TableWorlds:
    """deliveries of table datagrams to live handlers of both classes: the datagrams are collected and every WORLD_LEN of them
    are delivered to a fresh world of each class (one world after the other: the model's stream holds one world at a time)"""

    def __init__(self, ctx, pairs, flush, seed):
        self.ctx, self.pairs, self.flush, self.seed = ctx, pairs, flush, seed
        self.buf = []
        self.count = 0
        self.sn = 0x0100

    def next_sn(self):
        self.sn = (self.sn * 257 + 4099) % 65536
        return self.sn

    def deliver(self, frame, tb, opt, must, rrs=None, sn=None, opts=None):
        sn = self.next_sn() if sn is None else sn
        opts = (OPTS if opt else b"") if opts is None else opts
        data = raw_hstrp(tb, sn, opts, frame)
        self.buf.append(Dg(data, {"tb": tb, "sn": sn, "version": 0, "opts": opts, "rrs": rrs} if must else None))
        if len(self.buf) >= WORLD_LEN:
            self.close()

    def close(self):
        if not self.buf:
            return
        for kind, active in TABLE_HANDLERS:
            c = self.count
            self.count += 1
            try:
                w = make_world(self.ctx, self.pairs, (kind, active, True, PORTS[(c + self.seed) % len(PORTS)], c % 4), (c % 3 == 1, 0))
            except SkipHistory:
                continue
            fl = self.ctx.failures
            for dg in self.buf:
                n0 = len(fl)
                w.rx("A", dg)
                if len(fl) > n0 and len(w.script) > 3:
                    # the same datagram alone to a fresh handler: if that fails too, the short script is reported first
                    n1 = len(fl)
                    try:
                        make_world(self.ctx, self.pairs, (kind, active, True, 50000, 0), (False, 0)).rx("A", dg)
                    except SkipHistory:
                        pass
                    short = fl[n1:]
                    del fl[n1:]
                    fl[n0:n0] = short
                    break  # the model's stream now holds the short world
            else:
                w.query("A")
            self.ctx.count(cfg_key((kind, active, True)), len(self.buf))
        self.buf = []
        if len(self.pairs) > 300000:
            self.flush("hstrp.tables")


class FastHandler:
    """one long-lived handler for the 16-bit sweeps: the delivery and the ack-exactly-once reading only; a datagram it objects to is
    delivered again in a fresh world, where the full oracle records the failing script"""

    def __init__(self, kind, active):
        self.kind, self.active = kind, active
        self.log = []
        self.h = construct(kind, active, 50000, 0)
        self.h.connection_made(FakeTransport(0, self.log))
        self.n = 0

    def rx(self, data, must, tb, sn, opts):
        h, log = self.h, self.log
        del log[:]
        before = (h.hstrp_connected, h.sn)
        self.n += 1
        try:
            ret = h.datagram_received(data, ADDR_A)
        except BaseException as e:  # noqa
            return f"raised {type(e).__name__}"
        try:
            pdu = L["HSTRP"].from_bytes(data)
        except BaseException:  # noqa
            pdu = None
        if not isinstance(pdu, L["HSTRP"]):
            if must:
                return "well-formed message not read"
            return None if (not log and ret == (False, None) and (h.hstrp_connected, h.sn) == before) else "a datagram the parser refuses caused output / a state change"
        head = b"2B" + bytes([0, (tb | 0x01) & ~0x10]) + sn.to_bytes(2, "big")
        if len(log) != 1 or log[0][1] not in (head + opts, head) or log[0][2] != ADDR_A or (h.hstrp_connected, h.sn) != before:
            return "a data message was not answered by exactly one acknowledgement with its S/N and no payload"
        return None


def run_tables(ctx, pairs, flush, enough):
    rd = HT.Reading(PROP, HT.roots_handlers())
    cat, cur, diff, cand, changed = rd.cat, rd.cur, rd.diff, rd.cand, rd.changed
    ctx.count("table:enum-classes-harvested", sum(1 for _ in cur.all_enums()))
    ctx.count("table:enum-members-harvested", sum(len(e["members"]) for _r, _q, e in cur.all_enums()))
    ctx.count("table:dict-key-tables-harvested", sum(len(m["dicts"]) for m in cur.mods.values()))
    ctx.count("table:differences-from-catalogue", len(diff))
    if diff:
        ctx.notes.append("constant tables differ from the catalogue c17.enums.json (directs the sweeps only): " + rd.describe())
    for need in ("RCPOpcode", "RRSTypes", HT.SERVICE_ENUM, "HSTRPOptionType"):
        if cat.enum(need) is None:
            raise RuntimeError(f"the catalogue harness/props/c17.enums.json has no table {need}: regenerate it (--rebaseline)")
    seed = ctx.seed
    tw = TableWorlds(ctx, pairs, flush, seed)
    ip_a = tuple(HT.IP_A)

    def rrs_of(k, frame):
        # what the oracle needs to know of a registration message: opcode and radio address as built
        return (frame[2], ip_a) if k.svc == "RRS" else None

    # ---- A: the documented frame of every implemented message kind, plain and reliable, in every message type
    base = {}
    for k in HT.KINDS:
        for rel in (False, True):
            f = k.frame(cat, reliable=rel)
            if f is None:
                raise RuntimeError(f"the catalogue lacks a table the kind {k.name} needs: regenerate it (--rebaseline)")
            if not rel:
                base[k.name] = f
            for tb, opt in TABLE_TYPES:
                if enough():
                    break
                tw.deliver(f, tb, opt, True, rrs_of(k, f))
                ctx.count("table:documented-kind-frame")
                ctx.case(("table-kind", k.name, rel, tb))
    # ---- B: every documented member of every enum in every field where it is parsed (three message types each, rotating)
    j = 0
    for k in HT.KINDS:
        for site in k.sites():
            if site.opcode or site.label == "service":
                continue
            vals = list(cat.members(site.cls)) + [(n, v) for n, v in rd.now_members(site.cls) if v not in cat.values(site.cls)]
            for name, v in vals:
                if v >= site.space or enough():
                    continue
                must = c17_expectation(cat, site, v, None)
                f = site.put(base[k.name], v)
                for i in range(3):
                    tb, opt = TABLE_TYPES[(j + i * 3) % len(TABLE_TYPES)]
                    tw.deliver(f, tb, opt, must, rrs_of(k, f))
                j += 1
                ctx.count("table:member-in-field")
                ctx.case(("table-member", site.name(), v))
    # ---- C: directed by the differences: every value that is new, gone or changed (±1) in every field of every kind, as raw
    #         pass-through opcode, as option type, as sequence number
    opt_names = {v: n for n, v in cat.members("HSTRPOptionType")}
    for v, why in sorted(cand.items()):
        if enough():
            break
        for k in HT.KINDS:
            own_svc, own_op = cat.value_of(HT.SERVICE_ENUM, HT.SVC[k.svc][0]), cat.value_of(k.op_enum, k.op_name)
            for site in k.sites():
                if v >= site.space:
                    continue
                must = c17_expectation(cat, site, v, own_svc if site.label == "service" else own_op)
                f = site.put(base[k.name], v)
                for tb, opt in TABLE_TYPES[:4]:
                    tw.deliver(f, tb, opt, must, rrs_of(k, f) if must else None)
                ctx.count("table:difference-directed-datagram", 4)
                ctx.case(("table-cand", site.name(), v))
        must = v not in cat.values("RCPOpcode") and cat.folds("RCPOpcode")
        for pl in HT.PASS_PAYLOADS:
            for rel in (False, True):
                f = HT.pass_frame(cat, v, pl, rel)
                for tb, opt in TABLE_TYPES[:4]:
                    tw.deliver(f, tb, opt, must)
                ctx.count("table:difference-directed-pass-through", 4)
                ctx.case(("table-cand-pass", v, pl, rel))
        if v < 128:
            d = bytes([0x11] * HT.OPTION_LEN.get(opt_names.get(v), 1))
            for chain in ([(v, d)], [(v, d), (4, b"\x02")]):
                for tb in (0x20, 0x24, 0x28):
                    tw.deliver(base["RCP.CallRequest"] if tb == 0x20 else b"", tb, True, v in opt_names, opts=HT.tlv(chain))
        for tb, opt in TABLE_TYPES[:4]:
            f = base["RRS.RadioRegistrationRequest"] if opt else b""
            tw.deliver(f, tb, opt, True, (f[2], ip_a) if f else None, sn=v)
    # ---- D: every value of every 8-bit field (the service field once per service); data messages without / with options by turns
    seen_service = set()
    for k in HT.KINDS:
        own_svc, own_op = cat.value_of(HT.SERVICE_ENUM, HT.SVC[k.svc][0]), cat.value_of(k.op_enum, k.op_name)
        for site in k.sites():
            if site.width != 1 or enough():
                continue
            if site.label == "service":
                if k.svc in seen_service:
                    continue
                seen_service.add(k.svc)
            for v in range(site.space):
                must = c17_expectation(cat, site, v, own_svc if site.label == "service" else own_op)
                f = site.put(base[k.name], v)
                tb, opt = TABLE_TYPES[(v + seed) % 2]
                tw.deliver(f, tb, opt, must, rrs_of(k, f) if must else None)
                ctx.count("table:8-bit-field-value")
                ctx.case(("table-8", site.name(), v), nontrivial=must)
    # ---- E: all 128 option types in the option block of a data / connect / close message
    for v in range(128):
        if enough():
            break
        must = v in opt_names
        d = bytes([0x11] * HT.OPTION_LEN.get(opt_names.get(v), 1))
        for ci, chain in enumerate(([(v, d)], [(v, d), (4, b"\x02")], [(3, b"\x00\x01\x86\x9f"), (v, d)])):
            tb = (0x20, 0x24, 0x28)[(v + ci) % 3]
            tw.deliver(base["RCP.CallRequest"] if tb == 0x20 else b"", tb, True, must, opts=HT.tlv(chain))
            ctx.count("table:hstrp-option-type")
            ctx.case(("table-opt", v, ci), nontrivial=must)
    tw.close()
    flush("hstrp.tables")
    # ---- F: the 16-bit fields: raw RCP opcode (pass-through), LP opcode and result, the four fields of the repeater broadcast
    #         status — the seed-rotated share (all of it when the field's table differs / thorough) + the neighbourhood of every
    #         catalogue entry, on one long-lived handler of each class
    parts = 16 if ctx.thorough() else min(16, ctx.boost)
    fast = [FastHandler(kind, active) for kind, active in TABLE_HANDLERS]
    for k in HT.KINDS:
        if k.svc == "RRS":
            continue  # registration traffic changes the handler's own state: swept above through the full oracle (8-bit fields only)
        own_op = cat.value_of(k.op_enum, k.op_name)
        for site in k.sites():
            if site.width != 2 or site.cls == HT.RAW or enough():
                continue
            if site.opcode and k.svc == "RCP" and k.op_name != "CallRequest":
                continue
            vals = list(HT.share16(seed, 16 if site.cls in changed else parts))
            chosen = set(vals)
            vals += sorted(HT.neighbourhood(cat.values(site.cls) | rd.now_values(site.cls)) - chosen)
            ctx.count(f"table:16-bit-field-share:{site.name()}", len(vals))
            f0 = base[k.name]
            for v in vals:
                must = c17_expectation(cat, site, v, own_op)
                f = site.put(f0, v)
                tb, opts = (0x20, OPTS) if (v >> 1) & 1 else (0x00, b"")
                sn = (v * 31 + 7) % 65536
                data = raw_hstrp(tb, sn, opts, f)
                ctx.case(("table-16", site.name(), v), nontrivial=must)
                for fh in fast:
                    bad = fh.rx(data, must, tb, sn, opts)
                    if bad is None:
                        continue
                    # again in a fresh world: the full oracle records the script
                    n0 = len(ctx.failures)
                    try:
                        w = make_world(ctx, pairs, (fh.kind, fh.active, True, 50000, 0), (False, 0))
                        w.rx("A", Dg(data, {"tb": tb, "sn": sn, "version": 0, "opts": opts, "rrs": None} if must else None))
                        if len(ctx.failures) == n0:
                            w.fail("table-sweep", f"{bad} (on a handler that had seen {fh.n} datagrams of this sweep before; a fresh handler reads it)", expected="exactly one acknowledgement", actual=bad)
                    except SkipHistory:
                        pass
                    if enough():
                        break
                if enough():
                    break
    flush("hstrp.tables")


# ------------------------------------------------------------------------------------------------
# round 6: read-only calls interleaved into scripts (harness/ro_calls.py).  The random scripts of `random_world` (1-4 live handlers,
# datagrams from varying senders, connection / configuration / maintenance events) run twice in fresh worlds: as they are, and with
# observer-style calls on the handlers (repr / str / == / hash / copy / reading every attribute, get_logger, the log_* helpers, and
# whatever get_* / is_* / has_* / debug a change adds; also on every library object reachable from a handler) between the
# operations.  Each call is checked where it is made (World.ro); the implementation's answers to every operation, the final states
# and a final sweep through the whole catalogue must be identical in both runs; the MODEL is driven with the script without the
# calls and compared with the answers of the run WITH them.


class RoSink:
    """collects what a world reports instead of reporting it"""

    def __init__(self, ctx=None):
        self.failures = []
        self.ctx = ctx

    def fail(self, kind, input, what, expected=None, actual=None):
        self.failures.append({"kind": kind, "input": input, "what": what, "expected": expected, "actual": actual})

    def count(self, key, n=1):
        if self.ctx is not None and key.startswith("read-only"):
            self.ctx.count(key, n)

    def case(self, *a, **k):
        pass


def ro_interleave(rng, script, density=0.12):
    """observer-style calls between the operations of a script (numbers: entries of the live catalogue, rotating with the seed)"""
    names = [op[1] for op in script if op[0] == "new"]
    out, made = [], 0
    for i, op in enumerate(script):
        out.append(op)
        if op[0] == "new":
            continue
        live = [n for n in names if any(o[0] == "new" and o[1] == n for o in out)]
        if live and (rng.random() < density or (made == 0 and i >= len(script) // 2)):
            for _ in range(rng.randrange(1, 3)):
                out.append(("ro", rng.choice(live), rng.getrandbits(30)))
                made += 1
    return out


def ro_run(script, ctx=None):
    """one script in a fresh world: (implementation answers, final sweep, what the world reported, the script as it ran)"""
    sink, pairs = RoSink(ctx), []
    w = World(sink, pairs)
    Clock.offset = 0.0
    try:
        run_script(w, script)
        final = w.ro_final()
    except SkipHistory:
        final = None
    except (KeyError, AssertionError):  # a shortened script that uses a handler it no longer creates
        final = "inapplicable"
    finally:
        Clock.offset = 0.0
    ran = list(w.script)
    if getattr(w, "sweep_changed", None):
        # the sweep made every call of the catalogue: as explicit operations they are checked one by one
        changed, specs = w.sweep_changed
        sink.failures.append({"kind": "read-only-call", "what": "the final look through every observer-style call changed the state of a handler", "expected": "nothing changes", "actual": changed})
        ran += [("ro", sp[0][0], sp) for sp in specs]
    return pairs, final, sink.failures, ran


def ro_verdicts(plain, with_calls, ctx=None, sweep=True):
    """what the read-only class finds: [(what, expected, actual)], the pairs of the run with the calls, the script as it ran"""
    pa, fa, _, _ = ro_run(plain)
    pb, fb, failures, ran = ro_run(with_calls, ctx)
    if "inapplicable" in (fa, fb):
        return [], pb, ran
    out = [(f["what"], f["expected"], f["actual"]) for f in failures if f["kind"] == "read-only-call" and (sweep or not f["what"].startswith("the final look"))]
    a, b = [x[1] for x in pa], [x[1] for x in pb]
    if a != b:
        d = next((i for i, (x, y) in enumerate(zip(a, b)) if x != y), min(len(a), len(b)))
        out.append((f"operations are answered differently when read-only calls are made in between (first difference at operation {d}: {pa[d][0][:60] if d < len(pa) else 'end'})",
                    a[d] if d < len(a) else None, b[d] if d < len(b) else None))
    if fa != fb:
        out.append(("after read-only calls were made in between, the final state / what the observers answer at the end differs from the run without them",
                    "as without the calls", RO.first_diff(fa, fb) if fa is not None and fb is not None else "no sweep"))
    return out, pb, ran


def run_read_only(ctx, pairs, flush, enough):
    import random

    rng = random.Random(f"C17:ro:{ctx.seed}")
    shrunk = 0
    for i in range(90 if not ctx.thorough() else 700):
        if enough():
            break
        sink = RoSink()
        try:
            w, length, cfgs = random_world(sink, rng, [], 4 * i + i % 4 if i % 3 else i)
        except SkipHistory:
            continue
        finally:
            Clock.offset = 0.0
        if sink.failures:
            continue  # fails by itself: the ordinary sections report it
        plain = list(w.script)
        with_calls = ro_interleave(rng, plain)
        verdicts, pb, ran = ro_verdicts(plain, with_calls, ctx)
        ctx.case(("read-only", i, len(with_calls)), sample={"class": "read-only calls interleaved", "operations": len(plain), "read_only_calls": len(with_calls) - len(plain)} if i == 1 else None)
        ctx.count("read-only:scripts")
        ctx.count("read-only:calls", len(with_calls) - len(plain))
        if not verdicts:
            pairs.extend(pb)  # the model answers the script without the calls; the implementation answered it with them
            if len(pairs) > 300000:
                flush("hstrp.read-only")
            continue
        ctx.count("read-only:failing-scripts")
        if shrunk < 4:
            shrunk += 1

            def test(cand):
                return any(o[0] == "ro" for o in cand) and bool(ro_verdicts([o for o in cand if o[0] != "ro"], cand, sweep=False)[0])

            small = RO.ddmin(ran, test, max_runs=150)
            again, _, ran2 = ro_verdicts([o for o in small if o[0] != "ro"], small, sweep=False)
            if again:
                verdicts, ran = again, ran2
                ctx.count("read-only:failing-script-shortened")
        elif shrunk >= 24:
            continue
        else:
            shrunk += 1
        for what, exp, act in verdicts[:2]:
            ctx.fail("read-only-call", {"script": script_json(ran)}, what + f" [script of {len(ran)} operations]", expected=exp, actual=act)
    flush("hstrp.read-only")
    sk = []
    for kind in KINDS:
        try:
            RO.all_specs({"A": construct(kind, False, 50000, 0)}, RO_POOLS, skipped=sk)
        except Exception:  # noqa
            pass
    for what in sorted(set(sk)):
        ctx.count("read-only:not-called:" + what[:110])
    if RO.no_exclusions():
        ctx.notes.append("VERIF_RO_NOEXCLUDE is set: the reviewed exclusions of harness/ro_calls.py are void in this run (review mode)")


# round 6, class B: near-collisions in every identity ingredient, systematically.  Radios: the same 24-bit radio id in two subnets
# (10.0.0.100 / 11.0.0.100), the neighbouring id, the same low octet with another middle octet; senders: one address, the same IP with
# another port (NAT rebinding), another host; sequence numbers: all different / all the same (same S/N, different content, consecutive).
# Every sequence up to length 3 over {registration, going-offline} x 4 radios + {connect, close, heartbeat} x 3 senders, the sender of
# the RRS messages rotating with the position - on a passive and an active RRS handler.  (Registry per radio ADDRESS, connected flag =
# last connect / close whoever sent it, one acknowledgement with the message's S/N - the ordinary oracle and the model decide.)
ID_RADIOS = [(10, 0, 0, 100), (11, 0, 0, 100), (10, 0, 0, 101), (10, 0, 1, 100)]
ID_SENDERS = [ADDR_A, (ADDR_A[0], 30002), ADDR_B]


def run_identity(ctx, pairs, flush):
    for variant, active in ((0, False), (1, True)):
        syms = []
        k = 0
        for radio in ID_RADIOS:
            for op in (3, 1):
                k += 1
                dg = hstrp(0x20, sn=7 if variant else 0x100 + k, opts=OPTS, rrs=(op, radio))
                syms.append((f"rrs{op}:{'.'.join(map(str, radio))}", sym_rx("A", dg, ID_SENDERS[k % 3]), True))
        for ai, addr in enumerate(ID_SENDERS):
            for name, tb in (("connect", 0x04), ("close", 0x08), ("heartbeat", 0x02)):
                syms.append((f"{name}@{ai}", sym_rx("A", hstrp(tb, sn=0 if tb == 0x02 else (7 if variant else 0x200 + ai)), addr), True))
        try:
            w = make_world(ctx, pairs, ("rrs", active, True, 50000, variant), (bool(variant), 0))
        except SkipHistory:
            continue
        n = dfs(ctx, w, syms, 3, flush, ("identity", variant))
        ctx.count(f"exhaustive-identity:{'same-sn' if variant else 'distinct-sn'}:{'active' if active else 'passive'}:len<=3", n)
    flush("hstrp.identity")


def run(ctx):
    global L
    saved = {}
    logging.disable(logging.CRITICAL)
    try:
        L = lib()
        for ln in ("HSTRPDatagramProtocol", "RRSDatagramProtocol"):
            lg = logging.getLogger(ln)
            saved[ln] = (lg.level, lg.propagate, list(lg.handlers))
            lg.handlers = [CAPTURE]
            lg.propagate = False
            lg.setLevel(logging.DEBUG)
        _run(ctx)
    finally:
        for ln, (lvl, prop, hs) in saved.items():
            lg = logging.getLogger(ln)
            lg.handlers, lg.propagate = hs, prop
            lg.setLevel(lvl)
        logging.disable(logging.NOTSET)
        Clock.uninstall()
        if _LOOP is not None and not _LOOP.is_closed():
            _LOOP.close()


KINDS = ("rrs", "base")
BOOLS = (False, True)


def _run(ctx):
    ctx.rule = (
        "scripts run on live HSTRPDatagramProtocol / RRSDatagramProtocol objects with recording transports, for every "
        "combination of the mode parameters class x be_active_peer x transport present/absent (ports and constructor call "
        "styles rotating): corpus; two composed handlers for every class x connected flags x be_active_peer of both; every "
        "datagram sequence up to length 4 over 20 classes (default configuration) and up to length 3 from two start states "
        "for each class x be_active_peer, up to length 4 over the 12 core classes for the active peer, up to length 3 over "
        "the core classes without transport (thorough: up to length 6 over the core classes, be_active_peer by seed), three "
        "S/N variants; every sequence up to length 3 (4 for the active RRS handler) over 13 events = 8 datagram classes + "
        "connection_lost, connection_made, be_active_peer toggled, port re-assigned, periodic_maintenance iteration, for all 8 "
        "mode combinations; every interleaving up to length 3 of 6 datagram classes over two live instances (instance "
        "isolation); random scripts up to 200 operations with 1-4 live handlers of random configuration, random type bits / "
        "S/N / options / RRS opcodes / radio ids, truncation, 1-3 bit flips, varying sender addresses, logging on/off, and "
        "interleaved events. Round 5, constant tables: every Enum member / dict-literal key / class constant of the handler modules, "
        "okdmr/dmrlib/hytera/pdu/*.py and what they import is read with ast from the current source and compared with the catalogue "
        "c17.enums.json (direction only); delivered to live handlers of both classes: the hand-written frame of each of the 40 implemented "
        "RRS / LP / TMP / RCP message kinds (plain and reliable) in 10 message types, every documented member of every enum in every field "
        "where it is parsed, every value of every 8-bit field, all 128 option types, the seed-rotated sixteenth (thorough: all) of 0..65535 "
        "plus the neighbourhood of every catalogue entry in each 16-bit field (raw RCP opcode = UnknownService pass-through, LP opcode / "
        "result, the four fields of the repeater broadcast status), and every value that differs from the catalogue (old, new, each +-1) in "
        "every field of every kind, as raw opcode, option type and S/N. "
        " ROUND 6, READ-ONLY CALLS: observer-style calls found by introspection on the live objects (repr / str / len / bool / == / hash / copy / every attribute, debug(), get_* / is_* / has_* / match_* without auto-create, the log helpers, on every library object reachable) are interleaved into histories: the same history runs without and with them in fresh objects; each call must leave the deep picture of the objects, their class / module data and the stubs' counters unchanged, every answer, the final state and a final sweep through the whole catalogue (made, and itself checked, at the end of every such history) must be identical, and the model is driven with the history without the calls; reviewed exclusions (calls that advance by design) are listed in harness/ro_calls.py EXCLUDED. "
        "The oracle reads the datagram as it was built, not the library's parse; the model input is the "
        "abstraction of what the real HSTRP.from_bytes returns. Non-trivial = the datagram parses / an event; distinct = "
        "distinct (configuration, start state, operation sequence)"
    )
    ctx.trusted_base += [
        "Lean 4.33 kernel",
        "tools/extract_hstrphandler.py (type-octet graphs, RRS constants, golden datagrams, constructor signature, instance attributes, new-handler state, periodic_maintenance output for class x be_active_peer x connected)",
        "hand-written model of the two datagram_received methods, connection_made / connection_lost and one periodic_maintenance iteration (Model/HstrpHandler.lean) tied to the code by this run's correspondence",
        "HSTRP.from_bytes / as_bytes are used as they are (their byte-exact model is C12's): the model input is derived from the real parser's result; the oracle does not use it for datagrams that are well-formed by construction",
        "asyncio delivery order and timers are outside the model: one step per datagram / per periodic_maintenance iteration (run up to its first sleep)",
    ]
    ctx.assumptions += [
        "statements about what is sent assume connection_made was called with a transport before datagrams arrive (asyncio guarantees it); handlers without transport are exercised too: they must stay silent, move their state identically and not raise — except that rrs_confirm / periodic_maintenance use self.transport unguarded, so a registration request (a maintenance iteration while not connected) on a transport-less handler ends in AttributeError (modelled exactly: no_transport_raises_iff; counted as precondition:*)",
        "message classes by dispatch priority: connect bit > heartbeat bit > close bit > ack bit > reject bit > data; "
        "'an acknowledgement' = a message with the ack bit that is not heartbeat-class",
        "two composed handlers: heartbeats are echoed by design while connected, so an exchange started by a heartbeat between "
        "two connected handlers does not end; every other exchange ends after one reply",
        "well-formed = type octet < 64, documented option types, one of the five RRS opcodes or the RCP test vector as payload; for the table sweeps: the "
        "hand-written HDAP frame (props/hytera_tables.py KINDS) of an implemented message kind whose enum-typed fields carry values the catalogue c17.enums.json "
        "documents (any value where the catalogued enum folds unknown values onto a reserved member; any raw RCP opcode the catalogue does not list: UnknownService "
        "pass-through). Catalogued-but-unimplemented opcodes (about 100 RCP, 20 LP, 4 TMP) are outside: the unchanged parser raises on them and the datagram is dropped",
        "the catalogue is regenerated by `/venv/bin/python harness/props/c17.py --rebaseline` after an intended change of a table; a difference from it is never a verdict",
        "be_active_peer and port are stored configuration that datagram handling never reads (config_irrelevant); connection_lost counts as a close for the connected flag",
    ]
    pairs = []
    boosted = ctx.boost > 1
    seed = ctx.seed

    def enough():
        return len(ctx.failures) >= MAX_FAILURES

    def flush(component="hstrp.sequences"):
        if pairs and not ctx.search_only and ctx.driver_ok:
            ctx.correspond(component, list(pairs))
        pairs.clear()

    def port_of(i):
        return PORTS[(i + seed) % len(PORTS)]

    combos = [(k, a, t) for k in KINDS for a in BOOLS for t in BOOLS]  # class x be_active_peer x transport
    # ---- corpus: every mode combination
    for name, seq in CORPUS:
        for ci, (kind, active, tr) in enumerate(combos):
            try:
                run_history(ctx, (kind, active, tr, port_of(ci), ci % 4), (False, 0), seq, pairs)
            except SkipHistory:
                continue
            ctx.case(("corpus", name, kind, active, tr), sample={"corpus": name, "datagrams": [d.data.hex() for d in seq]} if ci == 0 else None)
    flush("hstrp.corpus")
    # ---- round 5: constant tables read from the current source, every value that matters in every field of every message kind
    run_tables(ctx, pairs, flush, enough)
    # ---- two composed handlers (ping-pong): class x S/N variant x datagram class x connected flags x be_active_peer of both
    for kind in KINDS:
        for variant in (0, 1):
            for cname, dg in classes(variant):
                if enough():
                    break
                for conn in ((False, False), (False, True), (True, False), (True, True)):
                    for active in ((False, False), (False, True), (True, False), (True, True)):
                        try:
                            rounds = pingpong(ctx, kind, dg.data, conn, active, pairs)
                        except SkipHistory:
                            continue
                        ctx.case(("pingpong", kind, variant, cname, conn, active))
                        ctx.count(f"pingpong:{'endless-heartbeat' if rounds is None else 'rounds=' + str(rounds)}")
                        if is_heartbeat_class(dg.data):
                            continue  # echo by design: lasts as long as both are connected
                        if rounds is None or rounds > 2:
                            ctx.fail("pingpong", {"pingpong": dg.data.hex(), "kind": kind, "connected": list(conn), "active": list(active)}, "two composed handlers keep answering each other", expected="quiescent after one reply", actual=rounds)
    flush("hstrp.pingpong")
    # ---- exhaustive datagram sequences
    full_len = 4
    #   default configuration, deepest
    n = dfs_classes(ctx, pairs, flush, ("rrs", False, True, 50000, 0), (False, 0), classes(0), full_len)
    ctx.count(f"exhaustive:rrs:passive:start=(False, 0):sn-variant=0:len<={full_len}", n)
    #   every class x be_active_peer with transport, two further start states each
    for kind in KINDS:
        for active in BOOLS:
            for si, start in enumerate([(True, 0xFFFD), (False, 0xFFFE)] if kind == "rrs" else [(False, 0), (True, 0)]):
                cfg = (kind, active, True, port_of(si + 2 * active), (si + active) % 4)
                n = dfs_classes(ctx, pairs, flush, cfg, start, classes(si + 1), full_len - 1)
                ctx.count(f"exhaustive:{kind}:{'active' if active else 'passive'}:start={start}:sn-variant={si + 1}:len<={full_len - 1}", n)
    #   the active peer, deeper over the core classes
    n = dfs_classes(ctx, pairs, flush, ("rrs", True, True, 30001, 1), (False, 0), classes(seed % 3)[:N_CORE], full_len)
    ctx.count(f"exhaustive:rrs:active:core12:len<={full_len}", n)
    #   no transport (connection_made never called): silent, same state evolution
    for kind in KINDS:
        for active in BOOLS:
            cfg = (kind, active, False, port_of(active), 0)
            n = dfs_classes(ctx, pairs, flush, cfg, (False, 0xFFFE if active else 0), classes((seed + active) % 3)[:N_CORE], 3)
            n += dfs_classes(ctx, pairs, flush, cfg, (True, 0), classes(0), 2)
            ctx.count(f"exhaustive:{kind}:{'active' if active else 'passive'}:no-transport:core12:len<=3+all20:len<=2", n)
    flush()
    if ctx.thorough():
        act = bool((seed // 3) % 2)
        n = dfs_classes(ctx, pairs, flush, ("rrs", act, True, 50000, 0), (False, 0xFFFC), classes(seed % 3)[:N_CORE], 6)
        ctx.count(f"exhaustive:rrs:{'active' if act else 'passive'}:core12:len<=6", n)
        n = dfs_classes(ctx, pairs, flush, ("rrs", not act, True, 30001, 1), (False, 0), classes((seed + 1) % 3), full_len)
        ctx.count(f"exhaustive:rrs:{'passive' if act else 'active'}:all20:len<={full_len}", n)
        flush()
    elif boosted:
        # failing-input search after a broken proof / correspondence / source drift: deeper over the core classes, bounded
        for v in (1, 2):
            n = dfs_classes(ctx, pairs, flush, ("rrs", v == 2, True, 50000, 0), (False, 0xFFFC), classes(v)[:N_CORE], 5)
            ctx.count(f"exhaustive:rrs:{'active' if v == 2 else 'passive'}:core12:sn-variant={v}:len<=5", n)
        flush()
    # ---- exhaustive event sequences: datagrams interleaved with connection_lost / connection_made / re-configuration / maintenance
    for ci, (kind, active, tr) in enumerate(combos):
        deep = kind == "rrs" and active and tr
        maxlen = (4 if deep else 3) + (1 if ctx.thorough() and kind == "rrs" else 0)
        cfg = (kind, active, tr, port_of(ci), ci % 4)
        try:
            w = make_world(ctx, pairs, cfg, (bool(ci % 2), 0))
        except SkipHistory:
            continue
        n = dfs(ctx, w, event_symbols("A", classes((seed + ci) % 3)), maxlen, flush, ("events", cfg))
        ctx.count(f"exhaustive-events:{kind}:active={int(active)}:transport={int(tr)}:len<={maxlen}", n)
        ctx.count(cfg_key(cfg), n)
    flush("hstrp.events")
    # ---- two live instances, every interleaving: what one handler sees must not leak into the other
    cl = dict(classes(0))
    six = [cl["connect"], cl["heartbeat"], cl["close"], cl["rrs-register"], cl["rrs-offline"], cl["rrs-register-2"]]
    for pi, (ka, aa, kb, ab) in enumerate([("rrs", False, "rrs", True), ("rrs", True, "base", False), ("base", True, "base", False)]):
        w = World(ctx, pairs)
        try:
            w.new("A", ka, aa, 30001, 0)
            w.made("A")
            w.new("B", kb, ab, 30002, 1)
            w.made("B")
        except SkipHistory:
            continue
        w.end_setup()
        syms = [(f"{n}:{j}", sym_rx(n, d), True) for n in "AB" for j, d in enumerate(six)]
        n = dfs(ctx, w, syms, 3, flush, ("two-instances", pi))
        # a third handler built after the others have seen traffic starts empty
        for d in six:
            w.rx("A", d)
            w.rx("B", d)
        w.new("C", ka, ab, 30003, 2)
        w.made("C")
        w.rx("C", cl["heartbeat"])
        for x in "ABC":
            w.query(x)
        ctx.count(f"exhaustive-two-instances:{ka}+{kb}:len<=3", n)
        ctx.count("multi:handlers=2", n)
    flush("hstrp.instances")
    # plain (no snapshot/restore) replays of all short sequences: guards the prefix sharing itself; configurations rotate
    import itertools

    cl = classes((seed + 1) % 3)
    k = 0
    for Lq in (1, 2, 3):
        for seq in itertools.product(range(len(cl)), repeat=Lq):
            if Lq == 3 and (seq[0] * 7 + seq[1] * 3 + seq[2] + seed) % 4:
                continue
            kind, active, tr = combos[(k + seed) % len(combos)] if k % 2 else ("rrs", bool(k & 2), True)
            k += 1
            if enough():
                break
            try:
                run_history(ctx, (kind, active, tr, port_of(k), k % 4), (False, 0), [cl[i][1] for i in seq], pairs)
            except SkipHistory:
                continue
            ctx.case(("plain", kind, active, tr, seq))
    flush("hstrp.plain-sequences")
    # ---- random scripts (a boosted search is capped: quick stays within a few minutes)
    nrand = (600 if not ctx.thorough() else 6000) * min(ctx.boost, 3)
    Clock.install()
    for i in range(nrand):
        if enough():
            break
        log_on = i % 5 == 4
        if log_on:
            logging.disable(logging.NOTSET)
            ctx.count("mode:logging-on")
        try:
            w, length, cfgs = random_world(ctx, ctx.rng, pairs, i)
        except SkipHistory:
            continue
        finally:
            Clock.offset = 0.0
            if log_on:
                logging.disable(logging.CRITICAL)
        ctx.case(("random", i, tuple(cfgs.items()), tuple(op if op[0] != "rx" else (op[1], op[2].data, op[3]) for op in w.script)),
                 sample={"handlers": {n: list(c) for n, c in cfgs.items()}, "operations": length, "end_state": {n: w.state(w.h[n]) for n in w.h}} if length >= 40 else None)
        if len(pairs) > 300000:
            flush("hstrp.random")
    flush("hstrp.random")
    # ---- round 6: identity ingredients that must not be coupled - exhaustive short histories over near-collisions
    run_identity(ctx, pairs, flush)
    # ---- round 6: the same kind of scripts with read-only calls in between
    run_read_only(ctx, pairs, flush, enough)
    Clock.uninstall()
    if CAPTURE.errors:
        ctx.fail("log-call-failed", {"script": []}, "a log call of the handler could not be formatted", expected=0, actual=CAPTURE.errors)
    ctx.count("mode:log-records-formatted", CAPTURE.records)
    ctx.exhaustive = False


# ------------------------------------------------------------------------------------------------
def replay(obj):
    global L
    logging.disable(logging.CRITICAL)
    L = lib()
    f = obj.get("failure") or {}
    inp = f.get("input") or {}
    print(json.dumps(obj.get("type")), f.get("what"))

    class C:
        failures = []
        evaluations = 0
        hist = {}

        def fail(self, kind, input, what, expected=None, actual=None):
            self.failures.append((kind, what, expected, actual))

        def count(self, *a):
            pass

    c = C()
    pairs = []
    if "script" in inp and inp["script"]:
        w = World(c, pairs)
        Clock.install()
        try:
            run_script(w, script_unjson(inp["script"]))
        except Exception as e:  # noqa
            print("script stopped:", type(e).__name__, e)
        finally:
            Clock.uninstall()
    elif "datagrams" in inp:  # records written before configurations were part of the input
        start = tuple(inp.get("start", [False, 0]))
        try:
            run_history(c, (inp.get("handler", "rrs"), False, True, 50000, 0), start, [Dg.unjson(d) for d in inp["datagrams"]], pairs)
        except SkipHistory:
            pass
    elif "pingpong" in inp:
        first = bytes.fromhex(inp["pingpong"])
        rounds = pingpong(c, inp.get("kind", "rrs"), first, tuple(inp.get("connected", [False, False])), tuple(inp.get("active", [False, False])), pairs, max_rounds=8)
        print("exchange ended after", rounds, "rounds" if rounds is not None else "(still talking after 8 rounds)")
        if not is_heartbeat_class(first) and (rounds is None or rounds > 2):
            c.failures.append(("pingpong", "two composed handlers keep answering each other", 2, rounds))
    else:
        print("no input recorded (proof/correspondence record):", json.dumps(obj.get("no_longer_checks") or obj.get("correspondence_differences"))[:2000])
        return 1
    model = []
    try:
        exe = os.path.join(BIN, "drv_c17")
        model = subprocess.run([exe], input="\n".join(p[0] for p in pairs) + "\n", capture_output=True, text=True).stdout.split("\n")
    except Exception as e:  # noqa
        print("model driver not available:", e)
    for i, (line, impl) in enumerate(pairs):
        print(f"input           {line}")
        print(f"implementation  {impl}")
        if i < len(model):
            print(f"model           {model[i]}")
    for k in c.failures:
        print("property check:", k)
    print("expected:", f.get("expected"), "actual:", f.get("actual"))
    return 1 if c.failures else 0


if __name__ == "__main__":
    # maintainer switch: after an INTENDED change of an enum / dict table of the modules the handlers parse with, make the current tables the catalogue
    import sys

    if sys.argv[1:] == ["--rebaseline"]:
        print("written", HT.rebaseline(PROP, HT.roots_handlers()))
    else:
        print("usage: /venv/bin/python harness/props/c17.py --rebaseline   (the check itself runs through harness/check.py C17)")
        sys.exit(2)
