"""C17 — HSTRP/RRS handler acknowledges each peer message exactly once, whatever the history (DESIGN §5 C17).

Real code: HSTRPDatagramProtocol / RRSDatagramProtocol with a recording fake transport, in-process.
Model: lean/DmrVerif/Model/HstrpHandler.lean through drv_c17; its input is the abstraction of what the
real HSTRP.from_bytes returns for each datagram (None on any exception) — the harness parses nothing itself.
"""
import asyncio
import json
import logging
import os
import socket
import subprocess

from common import BIN, impl_error

PROP = "C17"
MODULES = ["C17"]
GEN = ["HstrpHandler"]
MATCHERS = {}
# extra files for the drift detector (the property's own anchors are always included)
ANCHORS = ["okdmr/dmrlib/hytera/pdu/hdap.py", "okdmr/dmrlib/hytera/pdu/radio_ip.py"]

ADDR_A = ("192.0.2.1", 30001)
ADDR_B = ("192.0.2.2", 30002)


class FakeTransport(asyncio.DatagramTransport):
    def __init__(self):
        super().__init__()
        self.sent = []

    def sendto(self, data, addr=None):
        self.sent.append((bytes(data), addr))

    def is_closing(self):
        return False

    def close(self):
        pass


def lib():
    from okdmr.dmrlib.hytera.pdu.hdap import HDAP
    from okdmr.dmrlib.hytera.pdu.hstrp import HSTRP
    from okdmr.dmrlib.hytera.pdu.radio_registration_service import (
        RadioRegistrationService,
        RRSRadioState,
        RRSResult,
        RRSTypes,
    )
    from okdmr.dmrlib.protocols.hytera.hstrp_datagram_protocol import HSTRPDatagramProtocol
    from okdmr.dmrlib.protocols.hytera.rrs_datagram_protocol import RRSDatagramProtocol

    return locals()


L = None
_abs_cache = {}


_parse_cache = {}


def parse(data: bytes):
    """what the handler's own try/except makes of the datagram (cached: the result is only read)"""
    if data in _parse_cache:
        return _parse_cache[data]
    try:
        pdu = L["HSTRP"].from_bytes(data)
    except BaseException:  # noqa: the handler uses a bare except as well
        pdu = None
    pdu = pdu if isinstance(pdu, L["HSTRP"]) else None
    if len(_parse_cache) < 100000:
        _parse_cache[data] = pdu
    return pdu


def type_bits(t) -> str:
    return "".join("1" if b else "0" for b in (t.have_options, t.is_reject, t.is_close, t.is_connect, t.is_heartbeat, t.is_ack))


def abstract(data: bytes, sep=" "):
    """abstract model input derived from the real HSTRP.from_bytes; cached per datagram"""
    key = (data, sep)
    if key in _abs_cache:
        return _abs_cache[key]
    pdu = parse(data)
    if pdu is None:
        r = "none"
    else:
        opt = pdu.options.as_bytes().hex() or "-"
        pl = pdu.payload
        if pl is None:
            p = "N"
        elif isinstance(pl, L["RadioRegistrationService"]):
            p = f"R{pl.opcode.value}:{pl.radio_ip.as_bytes().hex()}"
        elif isinstance(pl, L["HDAP"]):
            p = "O"
        else:
            raise AssertionError(f"payload of unexpected type {type(pl)}")
        # ranges the theorems assume of a parsed message (Msg.WF)
        assert 0 <= pdu.version < 256 and 0 <= pdu.sn < 65536
        r = sep.join([str(pdu.version), type_bits(pdu.pkt_type), str(pdu.sn), opt, p])
    if len(_abs_cache) < 200000:
        _abs_cache[key] = r
    return r


class Handler:
    def __init__(self, kind="rrs", connected=False, sn=0):
        cls = L["RRSDatagramProtocol"] if kind == "rrs" else L["HSTRPDatagramProtocol"]
        self.kind = kind
        self.h = cls(port=50000)
        self.t = FakeTransport()
        self.h.connection_made(self.t)
        self.h.hstrp_connected = connected
        self.h.sn = sn

    def state(self) -> str:
        reg = getattr(self.h, "registry", {})
        regs = ",".join(f"{socket.inet_aton(k).hex()}:{'1' if v == L['RRSRadioState'].Online else '0'}" for k, v in reg.items())
        return f"c={int(self.h.hstrp_connected)} sn={self.h.sn} reg={regs or '-'}"

    def snapshot(self):
        return {k: (dict(v) if isinstance(v, dict) else v) for k, v in vars(self.h).items()}

    def restore(self, snap):
        vars(self.h).clear()
        vars(self.h).update({k: (dict(v) if isinstance(v, dict) else v) for k, v in snap.items()})

    def deliver(self, data: bytes, addr):
        """returns (canonical answer line, outputs [(bytes, addr)], raw return or exception)"""
        self.t.sent.clear()
        try:
            ret = self.h.datagram_received(data, addr)
        except BaseException as e:  # noqa
            return impl_error(e), list(self.t.sent), e
        outs = list(self.t.sent)
        for _, a in outs:
            if a != addr:
                return f"ERR sent-to-other-address {a}", outs, ret
        handled, pdu = ret
        line = (
            "outs=" + (",".join(o.hex() for o, _ in outs) or "-")
            + f" ret={int(bool(handled))}{int(pdu is not None)} " + self.state()
            + " peer=" + (",".join(abstract(o, "/") for o, _ in outs) or "-")
        )
        return line, outs, ret


# ------------------------------------------------------------------------------------------------
# the property on the real code
#
# The oracle reads the *datagram as the harness built it*, never the library's parse of it: type bits =
# octet 3, S/N = octets 4..6 big endian, the options and the RRS opcode / radio ip are the values the
# generator put in (`Dg.meta`).  For datagrams that are not well-formed by construction (truncated,
# garbage, bit-flipped) there is no such record; the header octets are still read raw, and only the
# question "could the handler read this at all" and the option / RRS fields fall back to what the
# library's parser reports.


class Dg:
    """a datagram and, if it is well-formed by construction, the fields it was built from"""

    __slots__ = ("data", "meta")

    def __init__(self, data: bytes, meta=None):
        self.data, self.meta = data, meta

    def json(self):
        m = None
        if self.meta is not None:
            m = dict(self.meta)
            m["opts"] = m["opts"].hex()
            m["rrs"] = [m["rrs"][0], list(m["rrs"][1])] if m["rrs"] else None
        return {"hex": self.data.hex(), "meta": m}

    @staticmethod
    def unjson(o):
        if isinstance(o, str):
            return Dg(bytes.fromhex(o))
        m = o.get("meta")
        if m is not None:
            m = dict(m)
            m["opts"] = bytes.fromhex(m["opts"])
            m["rrs"] = (m["rrs"][0], tuple(m["rrs"][1])) if m["rrs"] else None
        return Dg(bytes.fromhex(o["hex"]), m)


def is_ack_datagram(o: bytes) -> bool:
    return len(o) >= 6 and o[:2] == b"2B" and bool(o[3] & 0x01)


HEARTBEAT = bytes.fromhex("324200020000")


def oracle(ctx, hd, before, dg, outs, ret, history, exp_registry):
    """C17 as stated, for one delivery; `before` = (connected, sn) before the call"""

    def fail(kind, what, expected=None, actual=None):
        ctx.count(f"oracle-failure:{kind}")
        if len(ctx.failures) < 200:
            ctx.fail(kind, {"handler": hd.kind, "start": history["start"], "datagrams": [d.json() for d in history["datagrams"]]}, what, expected=expected, actual=actual)

    data, meta = dg.data, dg.meta
    if isinstance(ret, BaseException):
        fail("raises", f"datagram_received raised {type(ret).__name__}: {ret}")
        return
    out_bytes = [o for o, _ in outs]
    h = hd.h
    pdu = parse(data)
    if meta is not None:
        # well-formed by construction: the handler has to read it
        if pdu is None:
            if not out_bytes:
                fail("wellformed-ignored", "a well-formed HSTRP datagram was treated as 'not an HSTRP' (no acknowledgement, no handling)", expected="handled", actual="ignored")
            return
        tb, sn, version, opts, rrs = meta["tb"], meta["sn"], meta["version"], meta["opts"], meta["rrs"]
    else:
        if pdu is None:
            if out_bytes or ret != (False, None) or (h.hstrp_connected, h.sn) != before:
                fail("non-hstrp-handled", "a datagram that is no HSTRP caused output / state change", expected="no output, (False, None)", actual=str((len(out_bytes), ret[0])))
            return
        tb, sn, version = data[3], int.from_bytes(data[4:6], "big"), data[2]
        opts = pdu.options.as_bytes()
        rp = pdu.payload if isinstance(pdu.payload, L["RadioRegistrationService"]) else None
        rrs = (rp.opcode.value, tuple(rp.radio_ip.as_bytes())) if rp is not None else None
    is_ack, is_hb, is_connect, is_close = bool(tb & 0x01), bool(tb & 0x02), bool(tb & 0x04), bool(tb & 0x08)
    connect_c = is_connect
    heartbeat_c = not is_connect and is_hb
    close_c = not is_connect and not is_hb and is_close
    acks = [o for o in out_bytes if is_ack_datagram(o)]
    beats = [o for o in out_bytes if o == HEARTBEAT]
    others = [o for o in out_bytes if not is_ack_datagram(o) and o != HEARTBEAT]
    is_request = hd.kind == "rrs" and rrs is not None and rrs[0] == 3
    is_offline = hd.kind == "rrs" and rrs is not None and rrs[0] == 1
    # ---- acknowledgements
    if not is_ack and not heartbeat_c:
        # connect, close, data (and reject) messages: exactly one acknowledgement: ack bit, the same 16-bit S/N,
        # nothing after the header but (at most) the request's options — no payload
        ok = len(acks) == 1
        if ok:
            a = acks[0]
            ok = a[:2] == b"2B" and a[4:6] == sn.to_bytes(2, "big") and a[6:] in (opts, b"") and not (a[3] & 0x10)
        if not ok:
            want = b"2B" + bytes([version, ((tb & 0x3F) | 0x01) & ~0x10]) + sn.to_bytes(2, "big") + opts
            fail("ack-not-exactly-once", "a connect/close/data message was not answered by exactly one acknowledgement with its S/N and no payload", expected=[want.hex()], actual=[a.hex() for a in acks])
    else:
        if acks:
            kind = "ack-answered" if is_ack else "heartbeat-acknowledged"
            fail(kind, "an acknowledgement / heartbeat was acknowledged", expected=[], actual=[a.hex() for a in acks])
    if is_ack and not heartbeat_c:
        # acknowledgements are never answered; the only datagram an ack-typed message can trigger is the RRS
        # answer to a registration request it carries
        if beats or (others and not is_request):
            fail("ack-answered", "a message with the acknowledgement bit was answered", expected=[], actual=[o.hex() for o in out_bytes])
    # ---- heartbeat echo only while connected
    exp_beats = 1 if (heartbeat_c and before[0]) else 0
    if len(beats) != exp_beats:
        fail("heartbeat-echo", "heartbeat echoed while not connected / not echoed while connected / echoed for a non-heartbeat", expected=exp_beats, actual=len(beats))
    # ---- connected flag = last connect/close seen was a connect
    exp_conn = True if connect_c else False if close_c else before[0]
    if h.hstrp_connected != exp_conn:
        fail("connected-flag", "connected flag differs from 'last connect/close seen was a connect'", expected=exp_conn, actual=h.hstrp_connected)
    # ---- registry and registration answers
    if hd.kind == "rrs":
        if is_request or is_offline:
            exp_registry[".".join(str(x) for x in rrs[1])] = "Online" if is_request else "Offline"
        got = {k: v.name for k, v in h.registry.items()}
        if got != exp_registry:
            fail("registry", "registry differs from the fold of the last registration/offline message per radio", expected=str(exp_registry), actual=str(got))
        if is_request:
            # exactly one success answer (result 0, renewal 300 s) for this radio, with the handler's 16-bit S/N
            ok = len(others) == 1 and 0 <= h.sn < 65536
            want = None
            if ok:
                want = b"2B\x00\x20" + h.sn.to_bytes(2, "big") + rrs_payload(0x80, rrs[1])
                ok = others[0] == want
            if not ok:
                fail("registration-answer", "a registration request was not answered by exactly one success answer with a 16-bit S/N", expected=[want.hex()] if want else 1, actual=[o.hex() for o in others])
        elif others:
            fail("unexpected-output", "output that is neither acknowledgement, heartbeat nor a registration answer to a request", actual=[o.hex() for o in others])
        if not is_request and h.sn != before[1]:
            fail("sn-changed", "own sequence number changed without a registration answer", expected=before[1], actual=h.sn)
    elif others:
        fail("unexpected-output", "base handler sent something that is neither acknowledgement nor heartbeat", actual=[o.hex() for o in others])


# ------------------------------------------------------------------------------------------------
# datagram classes

OPTS = bytes.fromhex("83040001869f040102")  # DeviceID 99999 (more follow), ChannelID 2
KNOWN_RRS_OPCODES = (3, 0x80, 1, 2, 0x82)


def raw_hstrp(type_byte, sn=0, opts=b"", payload=b"", version=0) -> bytes:
    return b"2B" + bytes([version, type_byte]) + sn.to_bytes(2, "big") + opts + payload


def rrs_payload(opcode: int, ip=(10, 0, 0, 100), reliable=False) -> bytes:
    """RRS HDAP frame built by hand (layout of HDAP.as_bytes)"""
    body = bytes(ip)
    if opcode == 0x80:
        body += bytes([0]) + (300).to_bytes(4, "big")
    elif opcode == 0x82:
        body += bytes([0])
    checked = bytes([0, opcode]) + len(body).to_bytes(2, "big") + body
    csum = 0
    for b in checked:
        csum = (csum + b) & 0xFF
    return bytes([0x11 | (0x80 if reliable else 0)]) + checked + bytes([((csum ^ 0xFF) + 0x33) & 0xFF, 0x03])


RCP_CALL = bytes.fromhex("024108050000d20400000e03")  # RCP call request (test vector)


def hstrp(type_byte, sn=0, opts=b"", rrs=None, other=b"", version=0, reliable=False) -> Dg:
    """a well-formed HSTRP datagram built from fields (kept as `meta` for the oracle)"""
    payload = rrs_payload(rrs[0], rrs[1], reliable) if rrs else other
    assert type_byte < 64 and (not opts or (type_byte & 0x20 and not type_byte & 0x02))
    assert rrs is None or rrs[0] in KNOWN_RRS_OPCODES
    return Dg(raw_hstrp(type_byte, sn, opts, payload, version), {"tb": type_byte, "sn": sn, "version": version, "opts": opts, "rrs": rrs})


R100, R101, R102 = (10, 0, 0, 100), (10, 0, 0, 101), (10, 0, 0, 102)
N_CORE = 12


def classes(variant=0):
    """the 20 datagram classes; `variant` moves the sequence numbers across the 16-bit range
    (0: small / documented values, 1: all >= 0x0100, 2: extremes)"""
    sn = {
        0: dict(zero=0, a=7, b=1, c=2, d=3, e=0xFFFF, f=4, g=9, h=5),
        1: dict(zero=0x0100, a=0x1234, b=0x0101, c=0xABCD, d=0x0200, e=0x8000, f=0x7FFF, g=0x0900, h=0x00FF + 0x0100),
        2: dict(zero=0xFFFF, a=0xFF00, b=0x00FF, c=0xFFFE, d=0x0100, e=0x0001, f=0xFF01, g=0x01FF, h=0xFEFF),
    }[variant]
    trunc = hstrp(0x20, sn=sn["b"], opts=OPTS, rrs=(3, R100)).data[:11]
    return [
        # the 12 core classes (exhaustive to length 6 in the thorough tier)
        ("connect", hstrp(0x04, sn=sn["zero"])),
        ("connect-ack", hstrp(0x05, sn=sn["zero"])),
        ("heartbeat", hstrp(0x02)),
        ("close", hstrp(0x08, sn=sn["zero"])),
        ("close-ack", hstrp(0x09, sn=sn["zero"])),
        ("ack", hstrp(0x01, sn=sn["a"])),
        ("reject", hstrp(0x10, sn=sn["a"])),
        ("rrs-register", hstrp(0x20, sn=sn["b"], opts=OPTS, rrs=(3, R100))),
        ("rrs-offline", hstrp(0x20, sn=sn["c"], opts=OPTS, rrs=(1, R100))),
        ("data-other-hdap", hstrp(0x00, sn=sn["b"], other=RCP_CALL)),
        ("truncated", Dg(trunc)),
        ("garbage", Dg(b"XB\x00\x04\x00\x00")),
        # further classes (exhaustive to length 4)
        ("data-empty", hstrp(0x00, sn=sn["d"])),
        ("rrs-register-2", hstrp(0x20, sn=sn["e"], opts=OPTS, rrs=(3, R101))),
        ("rrs-status-check", hstrp(0x20, sn=sn["f"], opts=OPTS, rrs=(2, R100))),
        ("heartbeat+ack", hstrp(0x03)),
        ("connect+close", hstrp(0x0C, sn=sn["g"])),
        ("ack+rrs-register", hstrp(0x21, sn=sn["h"], opts=OPTS, rrs=(3, R100))),
        ("short", Dg(b"2B\x00\x04\x00")),
        ("heartbeat+rrs-offline", hstrp(0x02, sn=0, rrs=(1, R100))),
    ]


CLASSES = classes(0)

CORPUS = [
    # the repaired defect (ac2ad50): the acknowledgement of a connect / close must not be answered
    ("pingpong-connect", [hstrp(0x04)]),
    ("pingpong-close", [hstrp(0x08)]),
    ("connect-ack-direct", [hstrp(0x05), hstrp(0x09), hstrp(0x05)]),
    ("register-then-offline", [hstrp(0x04), CLASSES[7][1], CLASSES[8][1], CLASSES[13][1]]),
    # sequence numbers above one octet: the acknowledgement carries both octets
    ("two-octet-sn", [hstrp(0x04, sn=0x0100), hstrp(0x08, sn=0x1234), hstrp(0x00, sn=0xFFFF), hstrp(0x20, sn=0xABCD, opts=OPTS, rrs=(3, R100)), hstrp(0x10, sn=0x0101)]),
]


def random_datagram(rng) -> Dg:
    c = rng.randrange(100)
    if c < 8:
        return Dg(bytes(rng.randrange(256) for _ in range(rng.choice([0, 1, 5, 6, 7, 12, 30]))))
    wellformed = True
    if rng.random() < 0.85:
        tb = rng.choice([0x04, 0x05, 0x02, 0x08, 0x09, 0x01, 0x10, 0x20, 0x00, 0x21, 0x24, 0x28, 0x03, 0x0C, 0x30, 0x11])
    else:
        tb = rng.randrange(256)
        wellformed = tb < 64
    sn = rng.choice([0, 1, 7, 255, 256, 0x1234, 0xFFFE, 0xFFFF, rng.randrange(65536), rng.randrange(256, 65536)])
    version = 0 if rng.random() < 0.8 else rng.randrange(256)
    opts = b""
    if tb & 0x20 and not tb & 0x02 and rng.random() < 0.9:
        n = rng.choice([1, 2, 2, 3])
        for i in range(n):
            if rng.random() < 0.95:
                cmd = rng.choice([1, 3, 4, 5, 6, 7])
            else:
                cmd = rng.randrange(128)
                wellformed = wellformed and cmd in (1, 3, 4, 5, 6, 7)
            body = bytes(rng.randrange(256) for _ in range({1: 0, 3: 4}.get(cmd, 1)))
            opts += bytes([cmd | (0x80 if i < n - 1 else 0), len(body)]) + body
    if tb & 0x20 and not tb & 0x02 and not opts:
        wellformed = False  # option flag without options (what follows would be read as options)
    rrs = None
    p = rng.randrange(100)
    if p < 45:
        if rng.random() < 0.95:
            op = rng.choice([3, 3, 3, 1, 1, 2, 0x80, 0x82])
        else:
            op = rng.randrange(256)
            wellformed = wellformed and op in KNOWN_RRS_OPCODES
        ip = rng.choice([R100, R101, R102]) if rng.random() < 0.9 else tuple(rng.randrange(256) for _ in range(4))
        rrs = (op, ip)
        payload = rrs_payload(op, ip, reliable=rng.random() < 0.2)
    elif p < 55:
        payload = RCP_CALL
    elif p < 60:
        payload = bytes(rng.randrange(256) for _ in range(rng.randrange(1, 12)))
        wellformed = False
    else:
        payload = b""
    d = raw_hstrp(tb, sn, opts, payload, version)
    m = rng.randrange(100)
    if m < 10 and len(d) > 1:
        return Dg(d[: rng.randrange(len(d))])
    if m < 25:
        d = bytearray(d)
        for _ in range(rng.choice([1, 1, 2, 3])):
            i = rng.randrange(len(d) * 8)
            d[i // 8] ^= 0x80 >> (i % 8)
        return Dg(bytes(d))
    if not wellformed:
        return Dg(d)
    return Dg(d, {"tb": tb, "sn": sn, "version": version, "opts": opts, "rrs": rrs})


# ------------------------------------------------------------------------------------------------
def run_history(ctx, kind, start, datagrams, pairs, name="A"):
    """delivers a history (list of Dg) to a fresh handler; oracle on every delivery; model lines appended"""
    hd = Handler(kind, connected=start[0], sn=start[1])
    pairs.append((f"reset {int(start[0])} {start[1]}", "ok"))
    history = {"start": list(start), "datagrams": []}
    exp_registry = {}
    for dg in datagrams:
        before = (hd.h.hstrp_connected, hd.h.sn)
        history["datagrams"].append(dg)
        line, outs, ret = hd.deliver(dg.data, ADDR_A)
        ab = abstract(dg.data)
        pairs.append((f"rx {name} {kind} {ab}", line))
        oracle(ctx, hd, before, dg, outs, ret, history, exp_registry)
        ctx.count(f"msg:{'none' if ab == 'none' else ab.split(' ')[1]}")
    return hd


def dfs(ctx, kind, start, classes, maxlen, pairs, flush):
    """all sequences up to maxlen over `classes`, sharing prefixes by snapshot/restore of the handler"""
    hd = Handler(kind, connected=start[0], sn=start[1])
    pairs.append((f"reset {int(start[0])} {start[1]}", "ok"))
    lines = [f"rx A {kind} {abstract(d.data)}" for _, d in classes]
    nontriv = [abstract(d.data) != "none" for _, d in classes]
    history = {"start": list(start), "datagrams": []}
    count = 0
    path = []

    def rec(depth, exp_registry):
        nonlocal count
        for ci, (cname, dg) in enumerate(classes):
            snap = hd.snapshot()
            before = (hd.h.hstrp_connected, hd.h.sn)
            history["datagrams"].append(dg)
            if depth + 1 < maxlen:
                pairs.append(("push", "ok"))
            line, outs, ret = hd.deliver(dg.data, ADDR_A)
            pairs.append((lines[ci], line))
            reg = dict(exp_registry)
            oracle(ctx, hd, before, dg, outs, ret, history, reg)
            count += 1
            path.append(ci)
            ctx.case((kind, start, tuple(path)), nontrivial=nontriv[ci])
            if depth + 1 < maxlen:
                rec(depth + 1, reg)
                pairs.append(("pop", "ok"))
                hd.restore(snap)
            else:
                # leaf: restore by hand on both sides (the model line is a push/pop pair around the leaf)
                hd.restore(snap)
                pairs[-1:] = [("push", "ok"), pairs[-1], ("pop", "ok")]
            history["datagrams"].pop()
            path.pop()
            if len(pairs) > 300000 and depth == 0:
                flush()
                # a flush ends the driver process: re-establish the start state (we are back at it)
                pairs.append((f"reset {int(start[0])} {start[1]}", "ok"))

    rec(0, {})
    return count


def pingpong(ctx, kind, first: bytes, conn_a, conn_b, pairs, max_rounds=6):
    """deliver `first` to A, A's answers to B, B's answers to A, …; returns the number of delivery rounds
    until nothing is sent any more (None if still talking after max_rounds)"""
    a = Handler(kind, connected=conn_a)
    b = Handler(kind, connected=conn_b)
    # the model keeps A and B; reset sets both to the same flag, so set B by a connect/close-ack first if needed
    pairs.append((f"reset {int(conn_a)} 0", "ok"))
    if conn_b != conn_a:
        setter = raw_hstrp(0x05) if conn_b else raw_hstrp(0x09)
        b2 = Handler(kind, connected=conn_a)
        line, _, _ = b2.deliver(setter, ADDR_A)
        pairs.append((f"rx B {kind} {abstract(setter)}", line))
    inbox, who = [first], 0
    for rnd in range(max_rounds):
        hd, name, addr = (a, "A", ADDR_B) if who == 0 else (b, "B", ADDR_A)
        nxt = []
        for d in inbox:
            line, outs, ret = hd.deliver(d, addr)
            pairs.append((f"rx {name} {kind} {abstract(d)}", line))
            if isinstance(ret, BaseException):
                ctx.fail("raises", {"pingpong": first.hex(), "kind": kind, "connected": [conn_a, conn_b]}, f"datagram_received raised {type(ret).__name__} during the exchange")
                return rnd
            nxt += [o for o, _ in outs]
        if not nxt:
            return rnd + 1
        inbox, who = nxt, 1 - who
    return None


def is_heartbeat_class(data: bytes) -> bool:
    """raw reading of the type octet: heartbeat bit without connect bit"""
    return len(data) >= 6 and data[:2] == b"2B" and bool(data[3] & 0x02) and not (data[3] & 0x04)


def run(ctx):
    global L
    logging.disable(logging.CRITICAL)
    try:
        L = lib()
        _run(ctx)
    finally:
        logging.disable(logging.NOTSET)


def _run(ctx):
    ctx.rule = (
        "datagram histories delivered to HSTRPDatagramProtocol / RRSDatagramProtocol with a recording transport: corpus "
        "(ack ping-pong of the repaired defect, two-octet S/N), every sequence up to length 4 over 20 datagram classes (both "
        "tiers; three S/N variants: small, all >= 0x0100, extremes) and up to length 6 over the 12 core classes (thorough) "
        "from start states connected x {0, 0xFFFD, 0xFFFE} (prefixes shared by snapshot/restore), two composed handlers for "
        "every class x connected flags, random histories up to 200 datagrams with random type bits / S/N over the whole 16-bit "
        "range / options / RRS opcodes / radio ids, random truncation and 1-3 bit flips. The oracle reads the datagram as it was "
        "built (type octet, S/N octets, generator's options / RRS fields), not the library's parse; the model input is the "
        "abstraction of what the real HSTRP.from_bytes returns. Non-trivial = the datagram parses; distinct = distinct "
        "(start state, datagram sequence)"
    )
    ctx.trusted_base += [
        "Lean 4.33 kernel",
        "tools/extract_hstrphandler.py (type-octet graphs, RRS constants, three golden datagrams from the library's serialisers)",
        "hand-written model of the two datagram_received methods (Model/HstrpHandler.lean) tied to the code by this run's correspondence",
        "HSTRP.from_bytes / as_bytes are used as they are (their byte-exact model is C12's): the model input is derived from the real parser's result; the oracle does not use it for datagrams that are well-formed by construction",
        "asyncio delivery order and timers (periodic_maintenance) are outside the model: one step per datagram",
    ]
    ctx.assumptions += [
        "connection_made was called with a transport before datagrams arrive (rrs_confirm uses self.transport unguarded)",
        "message classes by dispatch priority: connect bit > heartbeat bit > close bit > ack bit > reject bit > data; "
        "'an acknowledgement' = a message with the ack bit that is not heartbeat-class",
        "two composed handlers: heartbeats are echoed by design while connected, so an exchange started by a heartbeat between "
        "two connected handlers does not end; every other exchange ends after one reply",
        "well-formed = type octet < 64, documented option types, one of the five RRS opcodes or the RCP test vector as payload",
    ]
    pairs = []
    boosted = ctx.boost > 1

    def flush(component="hstrp.sequences"):
        if pairs and not ctx.search_only and ctx.driver_ok:
            ctx.correspond(component, list(pairs))
        pairs.clear()

    # ---- corpus
    for name, seq in CORPUS:
        for kind in ("rrs", "base"):
            run_history(ctx, kind, (False, 0), seq, pairs)
            ctx.case(("corpus", name, kind), sample={"corpus": name, "datagrams": [d.data.hex() for d in seq]} if kind == "rrs" else None)
    flush("hstrp.corpus")
    # ---- two composed handlers (ping-pong)
    for kind in ("rrs", "base"):
        for variant in (0, 1):
            for cname, dg in classes(variant):
                for ca in (False, True):
                    for cb in (False, True):
                        rounds = pingpong(ctx, kind, dg.data, ca, cb, pairs)
                        ctx.case(("pingpong", kind, variant, cname, ca, cb))
                        ctx.count(f"pingpong:{'endless-heartbeat' if rounds is None else 'rounds=' + str(rounds)}")
                        if is_heartbeat_class(dg.data):
                            continue  # echo by design: lasts as long as both are connected
                        if rounds is None or rounds > 2:
                            ctx.fail("pingpong", {"pingpong": dg.data.hex(), "kind": kind, "connected": [ca, cb]}, "two composed handlers keep answering each other", expected="quiescent after one reply", actual=rounds)
    flush("hstrp.pingpong")
    # ---- exhaustive sequences: three start states, each with its own S/N variant
    starts = [(False, 0), (True, 0xFFFD), (False, 0xFFFE)]
    full_len = 4
    for si, start in enumerate(starts):
        L_here = full_len if si == 0 else full_len - 1
        n = dfs(ctx, "rrs", start, classes(si), L_here, pairs, flush)
        ctx.count(f"exhaustive:rrs:start={start}:sn-variant={si}:len<={L_here}", n)
    n = dfs(ctx, "base", (False, 0), classes(1), full_len - 1, pairs, flush)
    ctx.count(f"exhaustive:base:sn-variant=1:len<={full_len - 1}", n)
    flush()
    if ctx.thorough():
        n = dfs(ctx, "rrs", (False, 0xFFFC), classes(ctx.seed % 3)[:N_CORE], 6, pairs, flush)
        ctx.count("exhaustive:rrs:core12:len<=6", n)
        flush()
    elif boosted:
        # failing-input search after a broken proof / correspondence: deeper over the core classes, bounded
        for v in (1, 2):
            n = dfs(ctx, "rrs", (False, 0xFFFC), classes(v)[:N_CORE], 5, pairs, flush)
            ctx.count(f"exhaustive:rrs:core12:sn-variant={v}:len<=5", n)
        flush()
    # plain (no snapshot/restore) replays of all short sequences: guards the prefix sharing itself
    import itertools

    cl = classes((ctx.seed + 1) % 3)
    for Lq in (1, 2, 3):
        for seq in itertools.product(range(len(cl)), repeat=Lq):
            if Lq == 3 and (seq[0] * 7 + seq[1] * 3 + seq[2] + ctx.seed) % 4:
                continue
            run_history(ctx, "rrs", (False, 0), [cl[i][1] for i in seq], pairs)
            ctx.case(("plain", seq))
    flush("hstrp.plain-sequences")
    # ---- random histories (a boosted search is capped: quick stays within a few minutes)
    nrand = (500 if not ctx.thorough() else 6000) * min(ctx.boost, 3)
    for i in range(nrand):
        length = ctx.rng.choice([1, 3, 10, 40, 100, 200]) if i % 7 else 200
        kind = "rrs" if i % 5 else "base"
        start = (ctx.rng.random() < 0.3, ctx.rng.choice([0, 0, 1, 0xFFFD, 0xFFFE, 0xFF00]))
        seq = [random_datagram(ctx.rng) for _ in range(length)]
        hd = run_history(ctx, kind, start, seq, pairs)
        ctx.case(("random", kind, start, tuple(d.data for d in seq)), sample={"kind": kind, "start": list(start), "length": length, "first": [d.data.hex() for d in seq[:3]], "end_state": hd.state()} if length >= 40 else None)
        if len(pairs) > 300000:
            flush("hstrp.random")
    flush("hstrp.random")
    ctx.exhaustive = False


# ------------------------------------------------------------------------------------------------
def replay(obj):
    global L
    logging.disable(logging.CRITICAL)
    L = lib()
    f = obj.get("failure") or {}
    inp = f.get("input") or {}
    print(json.dumps(obj.get("type")), f.get("what"))

    class C:
        failures = []
        evaluations = 0

        def fail(self, kind, input, what, expected=None, actual=None):
            self.failures.append((kind, what, expected, actual))

        def count(self, *a):
            pass

    c = C()
    pairs = []
    if "datagrams" in inp:
        run_history(c, inp.get("handler", "rrs"), tuple(inp.get("start", [False, 0])), [Dg.unjson(d) for d in inp["datagrams"]], pairs)
    elif "pingpong" in inp:
        ca, cb = inp.get("connected", [False, False])
        first = bytes.fromhex(inp["pingpong"])
        rounds = pingpong(c, inp.get("kind", "rrs"), first, ca, cb, pairs, max_rounds=8)
        print("exchange ended after", rounds, "rounds" if rounds is not None else "(still talking after 8 rounds)")
        if not is_heartbeat_class(first) and (rounds is None or rounds > 2):
            c.failures.append(("pingpong", "two composed handlers keep answering each other", 2, rounds))
    else:
        print("no input recorded (proof/correspondence record):", json.dumps(obj.get("no_longer_checks") or obj.get("correspondence_differences"))[:2000])
        return 1
    model = []
    try:
        exe = os.path.join(BIN, "drv_c17")
        model = subprocess.run([exe], input="\n".join(p[0] for p in pairs) + "\n", capture_output=True, text=True).stdout.split("\n")
    except Exception as e:  # noqa
        print("model driver not available:", e)
    for i, (line, impl) in enumerate(pairs):
        print(f"input           {line}")
        print(f"implementation  {impl}")
        if i < len(model):
            print(f"model           {model[i]}")
    for k in c.failures:
        print("property check:", k)
    print("expected:", f.get("expected"), "actual:", f.get("actual"))
    return 1 if c.failures else 0
