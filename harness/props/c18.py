"""C18 — repeater handshake handlers serve only registered peers and keep peers separate (DESIGN §5 C18).

Real code: P2PDatagramProtocol and RDACDatagramProtocol over one shared RepeaterStorage, each with a
recording fake transport; uuid4 replaced by a counter and Repeater.read_snmp_values (network I/O) by a
stub that returns {} or raises on demand — both monkey-patched in this process only.
Model: Model/P2p.lean + Model/Rdac.lean over Model/Storage.lean, through drv_c18.
"""
import asyncio
import itertools
import json
import logging
import os
import subprocess
import types
import uuid as _uuid

from common import BIN, impl_error
from props.c20 import FIELDS, cps, cval

PROP = "C18"
MODULES = ["C18"]
GEN = ["Proto", "Storage"]
MATCHERS = {}
# extra files for the drift detector (the property's own anchors are always included)
ANCHORS = ["okdmr/dmrlib/storage/__init__.py"]

P1, P2, P3 = ("10.0.0.1", 50000), ("10.0.0.1", 50001), ("10.0.0.2", 50000)
PEERS = [P1, P2, P3]


class SnmpStubError(Exception):
    pass


class FakeTransport(asyncio.DatagramTransport):
    def __init__(self, log):
        super().__init__()
        self.log = log

    def sendto(self, data, addr=None):
        self.log.append(("send", bytes(data), addr))

    def is_closing(self):
        return False


class Sut:
    def __init__(self, p2p_port=50000, rdac_port=50002):
        import okdmr.dmrlib.storage.repeater as rmod
        from okdmr.dmrlib.protocols.hytera.p2p_datagram_protocol import P2PDatagramProtocol
        from okdmr.dmrlib.protocols.hytera.rdac_datagram_protocol import RDACDatagramProtocol
        from okdmr.dmrlib.storage.repeater_storage import RepeaterStorage

        self.rmod = rmod
        self.saved_uuid = rmod.uuid
        self.saved_snmp = rmod.Repeater.read_snmp_values
        counter = itertools.count()
        rmod.uuid = types.SimpleNamespace(uuid4=lambda: _uuid.UUID(int=next(counter)), UUID=_uuid.UUID)
        self.snmp_fails = False
        self.snmp_calls = 0
        sut = self

        def stub(self_rpt, *a, **k):
            sut.snmp_calls += 1
            if sut.snmp_fails:
                raise SnmpStubError("stubbed SNMP failure")
            return {}

        rmod.Repeater.read_snmp_values = stub
        self.R = RDACDatagramProtocol
        self.P = P2PDatagramProtocol
        self.log = []
        self.storage = RepeaterStorage()
        self.p2p = P2PDatagramProtocol(self.storage, p2p_port=p2p_port, rdac_port=rdac_port)
        self.p2p.connection_made(FakeTransport(self.log))
        self.rdac = RDACDatagramProtocol(self.storage, callback=lambda rid: self.log.append(("cb", rid)))
        self.rdac.connection_made(FakeTransport(self.log))
        self.p2p_port, self.rdac_port = p2p_port, rdac_port
        self.created = []

    def close(self):
        self.rmod.uuid = self.saved_uuid
        self.rmod.Repeater.read_snmp_values = self.saved_snmp

    # ---- storage observation
    def sync(self):
        for o in self.storage.all():
            if not any(o is c for c in self.created):
                self.created.append(o)
        self.created.sort(key=lambda o: o.id.int)

    def record_of(self, addr):
        for o in self.storage.all():
            if o.address_in == addr:
                return o
        return None

    def snapshot(self):
        self.sync()
        return [({f: getattr(o, f) for f in FIELDS}, dict(o._Repeater__attrs)) for o in self.created]

    def dump(self) -> str:
        self.sync()
        idx = {id(o): i for i, o in enumerate(self.created)}
        d = ",".join(f"{cval(k)}>{idx[id(v)]}" for k, v in self.storage._RepeaterStorage__repeaters.items())
        recs = "".join(
            " " + ",".join(f"{f}={cval(getattr(o, f))}" for f in FIELDS) + ";"
            + ",".join(f"{k}={cval(v)}" for k, v in o._Repeater__attrs.items()) + " |"
            for o in self.created
        )
        return f"D {d} |{recs} steps={self.steps()}"

    def steps(self) -> str:
        return ",".join(f"{cps(ip)}={n}" for ip, n in self.rdac.step.items()) or "-"

    # ---- deliveries
    def events(self):
        out = []
        for e in self.log:
            if e[0] == "send":
                out.append(f"{e[1].hex() or '-'}@{cval(e[2])}")
            else:
                out.append("cb:" + cval(e[1]))
        return ",".join(out) or "-"

    def p2p_rx(self, addr, data: bytes, snmp_fails=False):
        self.log.clear()
        self.snmp_fails = snmp_fails
        exc = None
        try:
            self.p2p.datagram_received(data, addr)
        except BaseException as e:  # noqa
            exc = e
        line = f"p2p {cps(addr[0])}:{addr[1]} {data.hex() or '-'} {int(snmp_fails)}"
        out = f"outs={self.events()} res={'ok' if exc is None else impl_error(exc)} len={len(self.storage)}"
        return line, out, list(self.log), exc

    def rdac_rx(self, addr, data: bytes, snmp_fails=False):
        self.log.clear()
        self.snmp_fails = snmp_fails
        exc = None
        try:
            self.rdac.datagram_received(data, addr)
        except BaseException as e:  # noqa
            exc = e
        line = f"rdac {cps(addr[0])}:{addr[1]} {data.hex() or '-'} {int(snmp_fails)}"
        out = f"outs={self.events()} res={'ok' if exc is None else impl_error(exc)} steps={self.steps()} len={len(self.storage)}"
        return line, out, list(self.log), exc

    def set_out(self, addr, out_addr):
        self.storage.match_incoming(addr, auto_create=True, patch={"address_out": out_addr})
        return f"setout {cps(addr[0])}:{addr[1]} {cval(out_addr)}", f"ok len={len(self.storage)}"


# ------------------------------------------------------------------------------------------------
# datagram classes


def p2p_command(ptype: int, rid=0x01, length=24, fill=0) -> bytes:
    d = bytearray([fill] * max(length, 21))
    d[0:3] = b"P2P"
    d[4] = rid
    d[20] = ptype
    return bytes(d[:length])


def p2p_ping(length=16, ack=False) -> bytes:
    d = bytearray(b"ZZZZ" + (bytes([0x0C, 0, 0, 0, 0x14]) if ack else bytes([0x0A, 0, 0, 0, 0x14])) + bytes(range(1, 40)))
    return bytes(d[:length])


def utf16(s: str, size: int) -> bytes:
    b = s.encode("utf_16_le")
    return b[:size] + bytes(max(0, size - len(b)))


def rdac_body(prefix: bytes, length=220, callsign="OK1ABC", hardware="RD985", firmware="A9.00.07", serial="17A12345", dmr_id=230123, tx=439_000_000, rx=431_400_000) -> bytes:
    full = bytearray(max(length, 220))
    full[0:4] = prefix
    full[18:21] = dmr_id.to_bytes(3, "little")
    full[26] = 1
    full[29:33] = tx.to_bytes(4, "little")
    full[33:37] = rx.to_bytes(4, "little")
    full[56:88] = utf16(firmware, 32)
    full[88:108] = utf16(callsign, 20)
    full[120:184] = utf16(hardware, 64)
    full[184:216] = utf16(serial, 32)
    return bytes(full[:length])


RESP_FD, RESP_10, RESP_00, RESP_FA = (bytes([0x7E, 0x04, 0x00, x]) for x in (0xFD, 0x10, 0x00, 0xFA))
LONG_00 = rdac_body(RESP_00)
BAD_UTF16_00 = rdac_body(RESP_00)[:89]  # odd-length callsign slice: truncated data


def surrogate_body():
    b = bytearray(rdac_body(RESP_00))
    b[88:90] = (0xD800).to_bytes(2, "little")  # lone high surrogate followed by 'K'
    return bytes(b)


def expected_for(step: int) -> bytes:
    """a response the handler accepts at `step` (and that lets every step proceed)"""
    return {0: b"\x55\x55", 1: RESP_FD, 2: RESP_10, 3: LONG_00, 4: RESP_00, 5: RESP_10, 6: LONG_00, 7: RESP_10, 8: RESP_10,
            10: LONG_00, 11: RESP_10, 12: RESP_00, 13: RESP_FA}[step]


STEP_ORDER = [0, 1, 2, 3, 4, 5, 6, 7, 8, 10, 11, 12, 13, 14]


def drive_to(step: int):
    """the datagrams that take a fresh peer to `step`"""
    return [expected_for(s) for s in STEP_ORDER[: STEP_ORDER.index(step)]]


# ------------------------------------------------------------------------------------------------
# the property on the real code


class Oracle:
    def __init__(self, ctx, sut, history, ports=(50000, 50002)):
        self.ctx, self.sut, self.history, self.ports = ctx, sut, history, ports
        self.registered = set()
        self.completions = {}
        R = sut.R
        self.expected = {1: R.STEP0_RESPONSE, 2: R.STEP1_RESPONSE, 3: R.STEP2_RESPONSE, 4: R.STEP3_RESPONSE, 5: R.STEP4_RESPONSE_1,
                         6: R.STEP4_RESPONSE_2, 7: R.STEP6_RESPONSE, 8: R.STEP7_RESPONSE_1, 10: R.STEP7_RESPONSE_2,
                         11: R.STEP10_RESPONSE_1, 12: R.STEP10_RESPONSE_2, 13: R.STEP12_RESPONSE}
        self.next = {0: 1, 1: 2, 2: 3, 3: 4, 4: 5, 5: 6, 6: 7, 7: 8, 8: 10, 10: 11, 11: 12, 12: 13, 13: 14, 14: 14}

    def fail(self, kind, what, expected=None, actual=None):
        self.ctx.count(f"oracle-failure:{kind}")
        if len(self.ctx.failures) < 200:
            self.ctx.fail(kind, {"history": list(self.history), "ports": list(self.ports)}, what, expected=expected, actual=actual)

    # ---- P2P
    def p2p_before(self, addr):
        self.snap0 = self.sut.snapshot()
        rec = self.sut.record_of(addr)
        self.out0 = rec.address_out if rec is not None else None

    def p2p_after(self, addr, data, events, exc):
        sut = self.sut
        P = sut.P
        sends = [(e[1], e[2]) for e in events if e[0] == "send"]
        is_cmd = data[:3] == P.COMMAND_PREFIX
        ptype = data[20] if len(data) > 20 else 0
        is_reg = is_cmd and ptype == P.PACKET_TYPE_REQUEST_REGISTRATION
        is_rdac = is_cmd and ptype == P.PACKET_TYPE_REQUEST_RDAC_STARTUP
        is_dmr = is_cmd and ptype == P.PACKET_TYPE_REQUEST_DMR_STARTUP
        is_ping = (not is_cmd) and data[4:9] == P.PING_PREFIX
        registered = addr in self.registered
        reject = (b"\x00", addr)
        if exc is not None and type(exc).__name__ not in ("ValueError", "IndexError", "SnmpStubError"):
            self.fail("p2p-unexpected-exception", f"datagram_received raised {type(exc).__name__}: {exc}")
        if is_reg:
            if exc is None:
                self.registered.add(addr)
            # registration is open to anyone: at most the registration answer, to the stored outbound address
            if len(sends) > 1 or (exc is None and len(sends) != 1):
                self.fail("p2p-registration-answer", "a registration was not answered by exactly one datagram", expected=1, actual=len(sends))
            if type(exc).__name__ == "ValueError" and sut.snapshot() != self.snap0:
                self.fail("p2p-error-changed-state", "a registration that raised ValueError changed the storage")
            return
        if is_rdac or is_dmr or is_ping:
            if not registered:
                # every such request from an unregistered source: the single-byte reject to the requester
                if sends != [reject] or exc is not None:
                    self.fail("p2p-unregistered-not-rejected", "a request from an unregistered source was not answered by the single-byte reject to the requester", expected=[("00", cval(addr))], actual=[(d.hex(), cval(a)) for d, a in sends])
            else:
                if reject in sends:
                    self.fail("p2p-registered-rejected", "a request from a registered source was rejected")
                allowed = {
                    "rdac": [self.out0],
                    "dmr": [(addr[0], sut.p2p_port)],
                    "ping": [addr],
                }["rdac" if is_rdac else "dmr" if is_dmr else "ping"]
                for d, a in sends:
                    if a not in allowed:
                        self.fail("p2p-destination", "an accept / redirect / ping answer was sent to an address that is neither the stored outbound address nor the requester's", expected=[cval(x) for x in allowed], actual=cval(a))
                want = 1 if is_ping else 2
                if exc is None and len(sends) != want:
                    self.fail("p2p-answer-count", "a request from a registered source was not answered as specified", expected=want, actual=len(sends))
            if sut.snapshot() != self.snap0:
                self.fail("p2p-request-changed-state", "a start-up request / ping changed the storage")
            return
        # acknowledgements, unknown commands, garbage: silence
        if sends or exc is not None:
            self.fail("p2p-not-silent", "an acknowledgement / unknown command / garbage datagram produced output", expected=[], actual=[(d.hex(), cval(a)) for d, a in sends])
        if sut.snapshot() != self.snap0:
            self.fail("p2p-not-silent", "an acknowledgement / unknown command / garbage datagram changed the storage")

    # ---- RDAC
    def rdac_before(self, addr):
        self.steps0 = dict(self.sut.rdac.step)
        self.snap0 = self.sut.snapshot()
        self.rec0 = self.sut.record_of(addr)

    def rdac_after(self, addr, data, events, exc):
        sut = self.sut
        ip = addr[0]
        before = self.steps0.get(ip) or 0
        steps1 = dict(sut.rdac.step)
        after = steps1.get(ip) or 0
        # isolation: no other peer's step moves
        for k in set(self.steps0) | set(steps1):
            if k != ip and (self.steps0.get(k) or 0) != (steps1.get(k) or 0):
                self.fail("rdac-isolation", f"a datagram from {ip} changed the step of {k}", expected=self.steps0.get(k), actual=steps1.get(k))
        if exc is not None:
            name = type(exc).__name__
            okexc = (name == "UnicodeDecodeError" and before == 6) or (name == "IndexError" and before == 10) or (name == "SnmpStubError" and before == 13)
            if not okexc:
                self.fail("rdac-unexpected-exception", f"datagram_received raised {name} at step {before}: {exc}")
            if name != "SnmpStubError" and after != before:
                self.fail("rdac-error-changed-step", "a datagram that raised changed the step", expected=before, actual=after)
        exp = self.expected.get(before)
        is_reset = len(data) == 1 and before != 14
        is_expected = before not in (0, 14) and not is_reset and len(data) != 1 and exp is not None and data[: len(exp)] == exp
        if is_reset:
            want = 1
        elif before == 14:
            want = 14
        elif before == 0:
            want = 1  # the first datagram of a peer starts the identification
        elif is_expected and (exc is None or type(exc).__name__ == "SnmpStubError"):
            want = self.next[before]
        else:
            want = before
        if after != want:
            kind = "rdac-advanced-unexpected" if after not in (before, 1) or not is_reset and after != before and not is_expected and before != 0 else "rdac-step"
            self.fail(kind, f"step of {ip} went {before} -> {after} on {'reset' if is_reset else 'expected response' if is_expected else 'other datagram'}", expected=want, actual=after)
        sends = [(e[1], e[2]) for e in events if e[0] == "send"]
        if is_reset and (sut.R.STEP0_REQUEST, addr) not in sends:
            self.fail("rdac-restart", "a one-octet reset did not restart the identification (step-0 request not sent)")
        for d, a in sends:
            if a != addr:
                self.fail("rdac-destination", "a request was sent to another address than the peer's", expected=cval(addr), actual=cval(a))
        # completion exactly once per completed run
        cbs = [e[1] for e in events if e[0] == "cb"]
        completes = before == 13 and after == 14 and exc is None
        if len(cbs) != (1 if completes else 0):
            self.fail("rdac-completion", "completion callback does not coincide with the step going 13 -> 14", expected=int(completes), actual=len(cbs))
        if cbs:
            self.completions[ip] = self.completions.get(ip, 0) + len(cbs)
            if self.completions[ip] > 1:
                self.fail("rdac-completion", f"completion reported {self.completions[ip]} times for {ip}")
            rec = sut.record_of(addr)
            if rec is None or cbs[0] != rec.id:
                self.fail("rdac-completion", "completion reported for another repeater than the peer's record")
        # storage: only the record of the sending address may change / be created
        snap1 = sut.snapshot()
        mine = None
        rec = sut.record_of(addr)
        if rec is not None:
            mine = [i for i, o in enumerate(sut.created) if o is rec][0]
        for i in range(len(snap1)):
            if i != mine and (i >= len(self.snap0) or snap1[i] != self.snap0[i]):
                self.fail("rdac-storage-local", "a datagram changed / created the record of another address")


# ------------------------------------------------------------------------------------------------
def apply(sut, oracle, sym, pairs, ctx):
    """sym = ("p2p"|"rdac", peer, data, snmp_fails) | ("setout", peer, out)"""
    if sym[0] == "p2p":
        _, addr, data, f = sym
        if oracle:
            oracle.history.append(["p2p", list(addr), data.hex(), f])
            oracle.p2p_before(addr)
        line, out, events, exc = sut.p2p_rx(addr, data, f)
        pairs.append((line, out))
        if oracle:
            oracle.p2p_after(addr, data, events, exc)
    elif sym[0] == "rdac":
        _, addr, data, f = sym
        if oracle:
            oracle.history.append(["rdac", list(addr), data.hex(), f])
            oracle.rdac_before(addr)
        line, out, events, exc = sut.rdac_rx(addr, data, f)
        pairs.append((line, out))
        if oracle:
            oracle.rdac_after(addr, data, events, exc)
    else:
        _, addr, out_addr = sym
        if oracle:
            oracle.history.append(["setout", list(addr), list(out_addr)])
        pairs.append(sut.set_out(addr, out_addr))
        exc = None
    ctx.count(f"sym:{sym[0]}")
    if exc is not None:
        ctx.count(f"outcome:{type(exc).__name__}")


def run_history(ctx, syms, pairs, ports=(50000, 50002), prefix=()):
    sut = Sut(*ports)
    try:
        pairs.append((f"reset {ports[0]} {ports[1]}", "ok"))
        history = []
        oracle = Oracle(ctx, sut, history, ports)
        for s in prefix:
            apply(sut, oracle, s, pairs, ctx)
        for s in syms:
            apply(sut, oracle, s, pairs, ctx)
        pairs.append(("dump", sut.dump()))
        return sut
    finally:
        sut.close()


def p2p_alphabet():
    reg, dmr, rdac = p2p_command(0x10), p2p_command(0x11, rid=7, length=30, fill=3), p2p_command(0x12, rid=0, length=21)
    ping = p2p_ping(16)
    syms = []
    for p in PEERS:
        syms += [("p2p", p, reg, False), ("p2p", p, dmr, False), ("p2p", p, rdac, False), ("p2p", p, ping, False)]
    syms += [
        ("p2p", P1, p2p_ping(16, ack=True), False),  # acknowledgement
        ("p2p", P1, p2p_command(0x13), False),  # unknown command
        ("p2p", P2, b"\x00garbage", False),  # garbage
        ("setout", P1, ("192.0.2.9", 40000)),  # the application stores the outbound address
        ("p2p", P1, p2p_command(0x10, rid=255), False),  # data[4] = 255: ValueError
        ("p2p", P2, p2p_command(0x10), True),  # SNMP stub fails: answered but not registered
        ("p2p", P1, p2p_ping(13), False),  # short ping: IndexError once registered
    ]
    return syms


def rdac_alphabet(peers):
    syms = []
    for p in peers:
        syms += [("rdac", p, RESP_FD, False), ("rdac", p, RESP_10, False), ("rdac", p, RESP_00, False), ("rdac", p, LONG_00, False),
                 ("rdac", p, RESP_FA, False), ("rdac", p, b"\x00", False), ("rdac", p, b"\x7e\x04garbage", False)]
    return syms


RDAC_EXTRA = [
    ("rdac", P1, BAD_UTF16_00, False),
    ("rdac", P1, surrogate_body(), False),
    ("rdac", P1, b"\x01", False),
    ("rdac", P1, b"", False),
    ("rdac", P1, RESP_FA, True),
    ("rdac", P1, rdac_body(RESP_00, length=26), False),
]

CORPUS = [
    # the complete identification of one peer, then extra data and resets at step 14
    [("rdac", P1, d, False) for d in drive_to(14)] + [("rdac", P1, b"\x00", False), ("rdac", P1, b"\x01", False), ("rdac", P1, RESP_FD, False)],
    # two peers behind one IP share the step: the second peer's datagrams advance the first one's run
    [("rdac", P1, b"\x55", False), ("rdac", P2, RESP_FD, False), ("rdac", P1, RESP_10, False), ("rdac", P3, RESP_10, False)],
    # P2P: unregistered requests are rejected, registration, then accepted; same IP other port stays unregistered
    [("p2p", P1, p2p_command(0x11), False), ("p2p", P1, p2p_command(0x10), False), ("p2p", P1, p2p_command(0x11), False),
     ("p2p", P2, p2p_command(0x12), False), ("setout", P1, ("192.0.2.9", 40000)), ("p2p", P1, p2p_command(0x12), False), ("p2p", P1, p2p_ping(16), False)],
    # exceptions: data[4] = 255, short ping of a registered peer, SNMP failure during registration
    [("p2p", P1, p2p_command(0x10, rid=255), False), ("p2p", P1, p2p_command(0x10), False), ("p2p", P1, p2p_command(0x12, rid=255), False),
     ("p2p", P1, p2p_ping(13), False), ("p2p", P2, p2p_command(0x10), True), ("p2p", P2, p2p_ping(16), False)],
    # RDAC storage patches after a P2P registration on the shared storage
    [("p2p", P1, p2p_command(0x10), False)] + [("rdac", P1, d, False) for d in drive_to(11)],
]


def random_sym(rng):
    peer = rng.choice(PEERS)
    c = rng.randrange(100)
    if c < 40:
        k = rng.randrange(100)
        if k < 60:
            d = p2p_command(rng.choice([0x10, 0x10, 0x11, 0x12, 0x13, 0x00]), rid=rng.choice([0, 1, 7, 254, 255]), length=rng.choice([21, 24, 30, 64]), fill=rng.randrange(256))
            if rng.random() < 0.1:
                d = d[: rng.choice([3, 10, 20])]
        elif k < 85:
            d = p2p_ping(rng.choice([9, 12, 13, 14, 15, 16, 30]), ack=rng.random() < 0.25)
        else:
            d = bytes(rng.randrange(256) for _ in range(rng.choice([0, 1, 2, 8, 9, 21, 25])))
        return ("p2p", peer, d, rng.random() < 0.08)
    if c < 45:
        return ("setout", peer, rng.choice([("192.0.2.9", 40000), ("10.0.0.1", 50000), ("", 0)]))
    k = rng.randrange(100)
    if k < 70:
        prefix = rng.choice([RESP_FD, RESP_10, RESP_10, RESP_00, RESP_00, RESP_FA])
        length = rng.choice([4, 4, 21, 26, 27, 37, 89, 108, 216, 220, 230])
        d = rdac_body(prefix, length=length, callsign=rng.choice(["OK1ABC", "", "Ž", "\U0001F600x"]), dmr_id=rng.randrange(1 << 24), tx=rng.randrange(1 << 32), rx=rng.randrange(1 << 32))
        if rng.random() < 0.1 and len(d) > 100:
            b = bytearray(d)
            i = rng.choice([56, 88, 120, 184]) + 2 * rng.randrange(5)
            b[i : i + 2] = rng.choice([0xD800, 0xDC00, 0xDBFF]).to_bytes(2, "little")
            d = bytes(b)
    elif k < 85:
        d = bytes([rng.choice([0, 0, 1, 0x41])])
    else:
        d = bytes(rng.randrange(256) for _ in range(rng.choice([0, 2, 3, 4, 5, 30])))
    return ("rdac", peer, d, rng.random() < 0.05)


def sym_json(s):
    return [s[0], list(s[1])] + [x.hex() if isinstance(x, bytes) else (list(x) if isinstance(x, tuple) else x) for x in s[2:]]


def run(ctx):
    logging.disable(logging.CRITICAL)
    try:
        _run(ctx)
    finally:
        logging.disable(logging.NOTSET)


def _run(ctx):
    ctx.rule = (
        "datagram histories from 3 peers (two sharing an IP) delivered to P2PDatagramProtocol and RDACDatagramProtocol on one "
        "shared storage with recording transports: corpus; P2P: every sequence up to length 4 (quick) / 5 (thorough) over 19 "
        "symbols (3 peers x {registration, DMR start-up, RDAC start-up, ping}, ack, unknown command, garbage, outbound-address "
        "update, data[4]=255, SNMP failure, short ping); RDAC: every sequence up to length 4 / 5 over 2 peers x 6 datagram classes "
        "from the initial state and every sequence up to length 2 / 3 over 27 symbols (3 peers x 7 classes + bad UTF-16, lone "
        "surrogate, 0x01, empty, SNMP failure, short body) from each of the 14 steps; random mixed histories up to 150 "
        "datagrams with random bodies. Distinct = distinct symbol sequence; non-trivial = at least one datagram dispatches"
    )
    ctx.trusted_base += [
        "Lean 4.33 kernel",
        "tools/extract_proto.py / extract_storage.py (byte-string constants, packet types, attribute keys, ports read from /repo)",
        "hand-written models of the two datagram_received methods and step0..step14 (Model/P2p.lean, Model/Rdac.lean) over the storage model of C20, tied to the code by this run's correspondence",
        "Repeater.read_snmp_values is stubbed (returns {} or raises on demand); uuid4 is a counter",
        "Python's utf_16_le / utf-8 codecs are modelled on code points (decodeField) and only cross-checked here",
        "asyncio delivery order is outside the model: one step per datagram",
    ]
    ctx.assumptions += [
        "connection_made was called with a transport; a completion callback is installed",
        "peers are identified as the code does: the storage by (ip, port), the RDAC step dictionary by ip alone (two peers behind one IP share a run)",
        "'expected response' at step 0 is any datagram (the first datagram of a peer starts the identification)",
        "UDP ports and the configured ports are < 65536",
    ]
    pairs = []

    def flush(component):
        if pairs and not ctx.search_only and ctx.driver_ok:
            ctx.correspond(component, list(pairs))
        pairs.clear()

    for seq in CORPUS:
        run_history(ctx, seq, pairs)
        ctx.case(("corpus", str([sym_json(s) for s in seq])), sample={"corpus": [sym_json(s) for s in seq][:4]})
    run_history(ctx, CORPUS[2], pairs, ports=(62000, 65535))
    flush("handshake.corpus")
    # ---- P2P exhaustive
    alpha = p2p_alphabet()
    plen = 4 if not ctx.thorough() else 5
    if ctx.boost > 1:
        plen = 4
    n = 0
    for L in range(1, plen + 1):
        for seq in itertools.product(range(len(alpha)), repeat=L):
            if L == 5 and (seq[0] + 3 * seq[1] + ctx.seed) % 3:
                continue  # thorough: one third of the length-5 sequences (seeded), all of length <= 4
            run_history(ctx, [alpha[i] for i in seq], pairs)
            ctx.case(("p2p", seq), nontrivial=any(i < 12 for i in seq), sample={"p2p": [sym_json(alpha[i]) for i in seq]} if seq == (0, 1, 15, 2) else None)
            n += 1
            if len(pairs) > 300000:
                flush("handshake.p2p")
    flush("handshake.p2p")
    ctx.count("exhaustive:p2p", n)
    # ---- RDAC exhaustive from the initial state
    ralpha = [s for s in rdac_alphabet([P1, P2]) if s[2] != RESP_00]  # LONG_00 serves every "00" step
    rlen = 4 if not ctx.thorough() else 5
    n = 0
    for L in range(1, rlen + 1):
        for seq in itertools.product(range(len(ralpha)), repeat=L):
            run_history(ctx, [ralpha[i] for i in seq], pairs)
            ctx.case(("rdac0", seq))
            n += 1
            if len(pairs) > 300000:
                flush("handshake.rdac")
    flush("handshake.rdac")
    ctx.count("exhaustive:rdac-from-init", n)
    # ---- RDAC exhaustive from every step
    salpha = rdac_alphabet(PEERS) + RDAC_EXTRA
    slen = 2 if not ctx.thorough() else 3
    n = 0
    for st in STEP_ORDER:
        prefix = [("rdac", P1, d, False) for d in drive_to(st)] + [("rdac", P3, d, False) for d in drive_to(3)]
        for L in range(1, slen + 1):
            for seq in itertools.product(range(len(salpha)), repeat=L):
                run_history(ctx, [salpha[i] for i in seq], pairs, prefix=prefix)
                ctx.case(("rdac-step", st, seq), sample={"start_step": st, "rdac": [sym_json(salpha[i]) for i in seq]} if (st, seq) == (6, (3, 21)) else None)
                n += 1
                if len(pairs) > 300000:
                    flush("handshake.rdac-steps")
    flush("handshake.rdac-steps")
    ctx.count("exhaustive:rdac-from-each-step", n)
    # ---- random mixed histories
    for i in range(ctx.budget(400, 8000)):
        length = ctx.rng.choice([5, 20, 60, 150]) if i % 5 else 150
        seq = [random_sym(ctx.rng) for _ in range(length)]
        prefix = []
        if i % 3 == 0:
            prefix = [("rdac", ctx.rng.choice(PEERS), d, False) for d in drive_to(ctx.rng.choice(STEP_ORDER))]
        ports = (50000, 50002) if i % 4 else (ctx.rng.randrange(1, 65536), ctx.rng.randrange(1, 65536))
        sut = run_history(ctx, seq, pairs, ports=ports, prefix=prefix)
        ctx.case(("random", i, length, str(seq[:6])), sample={"length": length, "first": [sym_json(s) for s in seq[:3]], "steps": sut.steps(), "records": len(sut.storage)} if length == 60 else None)
        if len(pairs) > 300000:
            flush("handshake.random")
    flush("handshake.random")
    ctx.exhaustive = False


# ------------------------------------------------------------------------------------------------
def replay(obj):
    logging.disable(logging.CRITICAL)
    f = obj.get("failure") or {}
    inp = f.get("input") or {}
    print(json.dumps(obj.get("type")), f.get("what"))
    hist = inp.get("history")
    if not hist:
        print("no history recorded (proof/correspondence record):", json.dumps(obj.get("no_longer_checks") or obj.get("correspondence_differences"))[:2000])
        return 1
    syms = []
    for h in hist:
        if h[0] == "setout":
            syms.append(("setout", tuple(h[1]), tuple(h[2])))
        else:
            syms.append((h[0], tuple(h[1]), bytes.fromhex(h[2]), bool(h[3])))

    class C:
        failures = []

        def fail(self, kind, input, what, expected=None, actual=None):
            self.failures.append((kind, what, expected, actual))

        def count(self, *a):
            pass

    c = C()
    pairs = []
    run_history(c, syms, pairs, ports=tuple(inp.get("ports", [50000, 50002])))
    model = []
    try:
        exe = os.path.join(BIN, "drv_c18")
        model = subprocess.run([exe], input="\n".join(p[0] for p in pairs) + "\n", capture_output=True, text=True).stdout.split("\n")
    except Exception as e:  # noqa
        print("model driver not available:", e)
    for i, (line, impl) in enumerate(pairs):
        print(f"input           {line}")
        print(f"implementation  {impl}")
        if i < len(model):
            print(f"model           {model[i]}")
    for k in c.failures:
        print("property check:", k)
    print("expected:", f.get("expected"), "actual:", f.get("actual"))
    return 1 if c.failures else 0
