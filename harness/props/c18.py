"""C18 — repeater handshake handlers serve only registered peers and keep peers separate (DESIGN §5 C18).

Real code: P2PDatagramProtocol and RDACDatagramProtocol over one shared RepeaterStorage, each with a
recording fake transport; uuid4 replaced by a counter and Repeater.read_snmp_values (network I/O) by a
stub that returns {} or raises on demand — both monkey-patched in this process only.
Model: Model/P2p.lean + Model/Rdac.lean over Model/Storage.lean, through drv_c18.
"""
import asyncio
import itertools
import json
import logging
import os
import re
import subprocess
import types
import uuid as _uuid

import ro_calls as RO
from common import BIN, LEAN, impl_error
from props.c20 import FIELDS, Addr2, Addr4, Int, Str, cval, jv, uj
from props.c20 import cps as _cps_raw

PROP = "C18"
MODULES = ["C18", "C18p"]
GEN = ["Proto", "Storage"]
MATCHERS = {}
# extra files for the drift detector (the property's own anchors are always included)
ANCHORS = ["okdmr/dmrlib/storage/__init__.py"]

P1, P2, P3 = ("10.0.0.1", 50000), ("10.0.0.1", 50001), ("10.0.0.2", 50000)
PEERS = [P1, P2, P3]
# AF_INET6 peers as asyncio hands them over: (host, port, flowinfo, scope_id).  Q1 / Q2 / Q3 share host AND port.
Q1, Q2, Q3, Q0 = ("fe80::1", 50000, 0, 0), ("fe80::1", 50000, 0, 3), ("fe80::1", 50000, 7, 0), ("fe80::1", 50000)
PEERS6 = [Q1, Q2, Q0]

_CPS = {}


def cps(s: str) -> str:
    r = _CPS.get(s)
    if r is None:
        r = _CPS[s] = _cps_raw(s)
    return r


def caddr(a) -> str:
    """peer address on the driver's line protocol: `<ip cps>:<port>[:<n>...]` for a tuple (str, int, int ...) of two or more
    elements (namedtuples and str subclasses compare, hash and print as the plain tuple); anything else (a list, a port
    that is no plain int, None) is outside the model: `?`"""
    if isinstance(a, tuple) and len(a) >= 2 and isinstance(a[0], str) and all(type(x) is int and x >= 0 for x in a[1:]):
        return cps(a[0]) + "".join(f":{x}" for x in a[1:])
    return "?addr"


def is_pair(a) -> bool:
    """`"%s:%s" % address` works: a tuple of exactly two elements"""
    return isinstance(a, tuple) and len(a) == 2


def jaddr(a):
    """JSON form of a peer address in a recorded history (plain tuples as lists, as before; other shapes tagged)"""
    return list(a) if type(a) is tuple and all(x is None or type(x) in (bool, int, str) for x in a) else jv(a)


def uaddr(x):
    return tuple(x) if isinstance(x, list) else uj(x)


# ------------------------------------------------------------------------------------------------
# the protocol constants the property is read against (pinned here AND in Props/C18.lean `proto_pinned`: a changed
# constant in /repo breaks that theorem and shows up here as a concrete failing delivery, it is never followed silently)

H = bytes.fromhex
SPEC = {
    "p2pCommandPrefix": b"P2P",
    "p2pPingPrefix": H("0a00000014"),
    "p2pAckPrefix": H("0c00000014"),
    "p2pTypeRegistration": 0x10,
    "p2pTypeDmrStartup": 0x11,
    "p2pTypeRdacStartup": 0x12,
    "p2pIsRegisteredKey": "p2p_is_registered",
    "rdacStep0Request": H("7e0400fe20100000000c60e1"),
    "rdacStep0Response": H("7e0400fd"),
    "rdacStep1Request": H("7e040000201000010018" "9b60020400050064000000" "01c403"),
    "rdacStep1Response": H("7e040010"),
    "rdacStep2Response": H("7e040000"),
    "rdacStep3Request": H("7e04001020100001000c61ce"),
    "rdacStep3Response": H("7e040000"),
    "rdacStep4Request1": H("7e04001020100002000c61cd"),
    "rdacStep4Request2": H("7e0400002010000200" "1958a002d40206006400000002" "00f003"),
    "rdacStep4Response1": H("7e040010"),
    "rdacStep4Response2": H("7e040000"),
    "rdacStep6Request1": H("7e04001020100003000c61cc"),
    "rdacStep6Request2": H("7e0400002010000300" "19738402d68206000064000000" "026e03"),
    "rdacStep6Response": H("7e040010"),
    "rdacStep7Request": H("7e0400002010000400" "19579f02d40206006400000002" "01ef03"),
    "rdacStep7Response1": H("7e040010"),
    "rdacStep7Response2": H("7e040000"),
    "rdacStep10Request": H("7e040000201000150018" "9c4b020500050064000000" "01c303"),
    "rdacStep10Response1": H("7e040010"),
    "rdacStep10Response2": H("7e040000"),
    "rdacStep12Request1": H("7e04001020100015000c61ba"),
    "rdacStep12Request2": H("7e0400fb20100016000c60ce"),
    "rdacStep12Response": H("7e0400fa"),
}
# step k waits for the response named here (the `table` of Model/Rdac.lean) and, leaving k, sends the requests named here
STEP_RESP_NAME = {1: "rdacStep0Response", 2: "rdacStep1Response", 3: "rdacStep2Response", 4: "rdacStep3Response",
                  5: "rdacStep4Response1", 6: "rdacStep4Response2", 7: "rdacStep6Response", 8: "rdacStep7Response1",
                  10: "rdacStep7Response2", 11: "rdacStep10Response1", 12: "rdacStep10Response2", 13: "rdacStep12Response"}
STEP_REQ_NAMES = {0: ["rdacStep0Request"], 1: ["rdacStep1Request"], 2: [], 3: ["rdacStep3Request"],
                  4: ["rdacStep4Request1", "rdacStep4Request2"], 5: [], 6: ["rdacStep6Request1", "rdacStep6Request2"],
                  7: ["rdacStep7Request"], 8: [], 10: ["rdacStep10Request"], 11: [], 12: ["rdacStep12Request1", "rdacStep12Request2"], 13: []}
SPEC_RESP = {k: SPEC[n] for k, n in STEP_RESP_NAME.items()}
SPEC_REQ = {k: [SPEC[n] for n in ns] for k, ns in STEP_REQ_NAMES.items()}


def load_gen_proto(path=None):
    """the tables tools/extract_proto.py wrote from /repo for THIS run (lean/DmrVerif/Gen/Proto.lean): name -> bytes | int | str"""
    path = path or os.path.join(LEAN, "DmrVerif", "Gen", "Proto.lean")
    out = {}
    try:
        src = open(path, encoding="utf-8").read()
    except OSError:
        return out
    for m in re.finditer(r"^def (\w+) : List Nat := \[([^\]]*)\]", src, re.M | re.S):
        try:
            vals = [int(x) for x in m.group(2).replace("\n", " ").split(",") if x.strip()]
            if all(0 <= v < 256 for v in vals):
                out[m.group(1)] = bytes(vals)
        except ValueError:
            pass
    for m in re.finditer(r"^def (\w+) : Nat := (\d+)\s*$", src, re.M):
        out[m.group(1)] = int(m.group(2))
    for m in re.finditer(r'^def (\w+) : String := "((?:[^"\\\\]|\\\\.)*)"\s*$', src, re.M):
        if "\\" not in m.group(2):
            out[m.group(1)] = m.group(2)
    return out


class SnmpStubError(Exception):
    pass


class FakeTransport(asyncio.DatagramTransport):
    def __init__(self, log):
        super().__init__()
        self.log = log

    def sendto(self, data, addr=None):
        self.log.append(("send", bytes(data), addr))

    def is_closing(self):
        return False


_LIB = {}


def _lib():
    """the classes under test (imported once) and the indexed storage subclass of the scale runs"""
    if not _LIB:
        import okdmr.dmrlib.storage.repeater as rmod
        from okdmr.dmrlib.protocols.hytera.p2p_datagram_protocol import P2PDatagramProtocol
        from okdmr.dmrlib.protocols.hytera.rdac_datagram_protocol import RDACDatagramProtocol
        from okdmr.dmrlib.storage.repeater_storage import RepeaterStorage

        class IndexedStorage(RepeaterStorage):
            """a RepeaterStorage whose lookup by incoming address is a dict lookup: the index is kept by create_repeater
            ("override this method if you need to extend" - its docstring); everything else is inherited.  Exact as long as
            nobody assigns address_in (the handlers never do).  The handlers take the storage as a constructor argument."""

            def __init__(self):
                super().__init__()
                self.by_addr = {}

            def create_repeater(self, *a, **k):
                r = super().create_repeater(*a, **k)
                self.by_addr[r.address_in] = r
                return r

            def match_attr(self, attr_name, match_value):
                if attr_name == "address_in":
                    try:
                        return self.by_addr.get(match_value)
                    except TypeError:  # an unhashable address: the inherited scan
                        pass
                return super().match_attr(attr_name, match_value)

        _LIB.update(rmod=rmod, P=P2PDatagramProtocol, R=RDACDatagramProtocol, S=RepeaterStorage, I=IndexedStorage)
    return _LIB


class Sut:
    def __init__(self, p2p_port=50000, rdac_port=50002, indexed=False):
        lib = _lib()
        rmod = lib["rmod"]
        self.rmod = rmod
        self.saved_uuid = rmod.uuid
        self.saved_snmp = rmod.Repeater.read_snmp_values
        counter = itertools.count()
        rmod.uuid = types.SimpleNamespace(uuid4=lambda: _uuid.UUID(int=next(counter)), UUID=_uuid.UUID)
        self.snmp_fails = False
        self.snmp_calls = 0
        sut = self

        def stub(self_rpt, *a, **k):
            sut.snmp_calls += 1
            if sut.snmp_fails:
                raise SnmpStubError("stubbed SNMP failure")
            return {}

        rmod.Repeater.read_snmp_values = stub
        self.R = lib["R"]
        self.P = lib["P"]
        self.log = []
        self.storage = lib["I"]() if indexed else lib["S"]()
        self.p2p = self.P(self.storage, p2p_port=p2p_port, rdac_port=rdac_port)
        self.p2p.connection_made(FakeTransport(self.log))
        self.rdac = self.R(self.storage, callback=lambda rid: self.log.append(("cb", rid)))
        self.rdac.connection_made(FakeTransport(self.log))
        self.p2p_port, self.rdac_port = p2p_port, rdac_port
        self.created = []

    def close(self):
        self.rmod.uuid = self.saved_uuid
        self.rmod.Repeater.read_snmp_values = self.saved_snmp

    # ---- storage observation
    def sync(self):
        for o in self.storage.all():
            if not any(o is c for c in self.created):
                self.created.append(o)
        self.created.sort(key=lambda o: o.id.int)

    def record_of(self, addr):
        for o in self.storage.all():
            if o.address_in == addr:
                return o
        return None

    def snapshot(self):
        self.sync()
        return [({f: getattr(o, f) for f in FIELDS}, dict(o._Repeater__attrs)) for o in self.created]

    def dump(self) -> str:
        self.sync()
        idx = {id(o): i for i, o in enumerate(self.created)}
        d = ",".join(f"{cval(k)}>{idx[id(v)]}" for k, v in self.storage._RepeaterStorage__repeaters.items())
        recs = "".join(
            " " + ",".join(f"{f}={cval(getattr(o, f))}" for f in FIELDS) + ";"
            + ",".join(f"{k}={cval(v)}" for k, v in o._Repeater__attrs.items()) + " |"
            for o in self.created
        )
        return f"D {d} |{recs} steps={self.steps()}"

    def steps(self) -> str:
        return ",".join(f"{cps(ip)}={n}" for ip, n in self.rdac.step.items()) or "-"

    # ---- deliveries
    def events(self):
        out = []
        for e in self.log:
            if e[0] == "send":
                out.append(f"{e[1].hex() or '-'}@{cval(e[2])}")
            else:
                out.append("cb:" + cval(e[1]))
        return ",".join(out) or "-"

    def p2p_rx(self, addr, data: bytes, snmp_fails=False):
        self.log.clear()
        self.snmp_fails = snmp_fails
        exc = None
        try:
            self.p2p.datagram_received(data, addr)
        except BaseException as e:  # noqa
            exc = e
        line = f"p2p {caddr(addr)} {data.hex() or '-'} {int(snmp_fails)}"
        out = f"outs={self.events()} res={'ok' if exc is None else impl_error(exc)} len={len(self.storage)}"
        return line, out, list(self.log), exc

    def rdac_rx(self, addr, data: bytes, snmp_fails=False):
        self.log.clear()
        self.snmp_fails = snmp_fails
        exc = None
        try:
            self.rdac.datagram_received(data, addr)
        except BaseException as e:  # noqa
            exc = e
        line = f"rdac {caddr(addr)} {data.hex() or '-'} {int(snmp_fails)}"
        out = f"outs={self.events()} res={'ok' if exc is None else impl_error(exc)} steps={self.steps()} len={len(self.storage)}"
        return line, out, list(self.log), exc

    # ---- deliveries without building the line-protocol texts (scale streams: the texts are O(peers) each)
    def rx_light(self, which, addr, data: bytes, snmp_fails=False):
        self.log.clear()
        self.snmp_fails = snmp_fails
        try:
            (self.p2p if which == "p2p" else self.rdac).datagram_received(data, addr)
        except BaseException as e:  # noqa
            return list(self.log), e
        return list(self.log), None

    def set_out(self, addr, out_addr):
        self.storage.match_incoming(addr, auto_create=True, patch={"address_out": out_addr})
        return f"setout {caddr(addr)} {cval(out_addr)}", f"ok len={len(self.storage)}"

    def set_attr(self, addr, key, value):
        """the application patches a dynamic attribute of the record of `addr` (never the is-registered key with a true value)"""
        self.storage.match_incoming(addr, auto_create=True, patch={key: value})
        return f"envpatch {caddr(addr)} {key} {cval(value)}", f"ok len={len(self.storage)}"


# ------------------------------------------------------------------------------------------------
# datagram classes


def p2p_command(ptype: int, rid=0x01, length=24, fill=0) -> bytes:
    d = bytearray([fill] * max(length, 21))
    d[0:3] = b"P2P"
    d[4] = rid
    d[20] = ptype
    return bytes(d[:length])


def p2p_ping(length=16, ack=False) -> bytes:
    d = bytearray(b"ZZZZ" + (bytes([0x0C, 0, 0, 0, 0x14]) if ack else bytes([0x0A, 0, 0, 0, 0x14])) + bytes(range(1, 40)))
    return bytes(d[:length])


def utf16(s: str, size: int) -> bytes:
    b = s.encode("utf_16_le")
    return b[:size] + bytes(max(0, size - len(b)))


def rdac_body(prefix: bytes, length=220, callsign="OK1ABC", hardware="RD985", firmware="A9.00.07", serial="17A12345", dmr_id=230123, tx=439_000_000, rx=431_400_000) -> bytes:
    full = bytearray(max(length, 220))
    full[0:4] = prefix
    full[18:21] = dmr_id.to_bytes(3, "little")
    full[26] = 1
    full[29:33] = tx.to_bytes(4, "little")
    full[33:37] = rx.to_bytes(4, "little")
    full[56:88] = utf16(firmware, 32)
    full[88:108] = utf16(callsign, 20)
    full[120:184] = utf16(hardware, 64)
    full[184:216] = utf16(serial, 32)
    return bytes(full[:length])


RESP_FD, RESP_10, RESP_00, RESP_FA = (bytes([0x7E, 0x04, 0x00, x]) for x in (0xFD, 0x10, 0x00, 0xFA))
LONG_00 = rdac_body(RESP_00)
BAD_UTF16_00 = rdac_body(RESP_00)[:89]  # odd-length callsign slice: truncated data


def surrogate_body():
    b = bytearray(rdac_body(RESP_00))
    b[88:90] = (0xD800).to_bytes(2, "little")  # lone high surrogate followed by 'K'
    return bytes(b)


def expected_for(step: int) -> bytes:
    """a response the handler accepts at `step` (and that lets every step proceed)"""
    return {0: b"\x55\x55", 1: RESP_FD, 2: RESP_10, 3: LONG_00, 4: RESP_00, 5: RESP_10, 6: LONG_00, 7: RESP_10, 8: RESP_10,
            10: LONG_00, 11: RESP_10, 12: RESP_00, 13: RESP_FA, 14: RESP_FA}[step]  # 14: nothing is expected any more (extra data)


STEP_ORDER = [0, 1, 2, 3, 4, 5, 6, 7, 8, 10, 11, 12, 13, 14]


def drive_to(step: int):
    """the datagrams that take a fresh peer to `step`"""
    return [expected_for(s) for s in STEP_ORDER[: STEP_ORDER.index(step)]]


# ------------------------------------------------------------------------------------------------
# near misses of every value the handlers compare a datagram with.  The compared values are read from the tables
# extracted from /repo for this run (Gen/Proto.lean), united with the pinned ones, so the neighbourhoods follow the code.


def _wrong(flavour, e: int, other=None):
    """a byte that is NOT e, in the given flavour (None: this flavour has no wrong byte here)"""
    if flavour == "zero":
        return 0 if e != 0 else None
    if flavour == "inc":
        return (e + 1) & 0xFF
    if flavour == "dec":
        return (e - 1) & 0xFF
    if flavour == "cpl":
        return e ^ 0xFF
    if flavour == "other":
        return other if other is not None and other != e else None
    raise ValueError(flavour)


def region_variants(E: bytes, others=()):
    """[(tag, kind, bytes)]: byte strings that nearly equal the compared value E.
    kind 'sub'  : same length, the bytes at a proper subset S of the positions equal E's, every other byte is wrong
                  (S = all but one: one byte off; S = {0}: only the first byte; S = {n-1}: only the last; even / odd
                  positions; S = {}: nothing), wrong = zeroed / +1 / -1 / complemented / the byte another compared value
                  has there; plus every single-bit flip of every byte
    kind 'len'  : one octet shorter / exactly / one octet longer than the compared region, the first one / two octets, nothing
    kind 'shift': the value one octet late / early, rotated, reversed, adjacent octets transposed"""
    n = len(E)
    seen = set()
    out = []

    def add(tag, kind, b):
        b = bytes(b)
        if (kind, b) not in seen:
            seen.add((kind, b))
            out.append((tag, kind, b))

    flavours = [("zero", None), ("inc", None), ("dec", None), ("cpl", None)] + [("other", o) for o in others if o != E]
    for mask in range((1 << n) - 1):  # every subset of positions but the full one
        keep = [i for i in range(n) if mask >> i & 1]
        for fl, o in flavours:
            b = bytearray(E)
            ok = True
            for i in range(n):
                if i in keep:
                    continue
                w = _wrong(fl, E[i], o[i] if o is not None and i < len(o) else None)
                if w is None:
                    if fl == "other":
                        continue  # the other value agrees here: keep E's byte (the result is dropped if it equals E)
                    w = E[i] ^ 0xFF if fl != "zero" else 1
                b[i] = w
            if ok and bytes(b) != E:
                add(f"keep{''.join(map(str, keep)) or 'none'}:{fl}", "sub", b)
    for i in range(n):
        for bit in range(8):
            b = bytearray(E)
            b[i] ^= 1 << bit
            add(f"bit{i}.{bit}", "sub", b)
    add("shorter", "len", E[:-1])
    add("exact", "len", E)
    add("longer", "len", E + b"\x00")
    add("first1", "len", E[:1])
    add("first2", "len", E[:2])
    add("empty", "len", b"")
    add("late", "shift", b"\x00" + E)
    add("late-dup", "shift", E[:1] + E)
    add("early", "shift", E[1:] + b"\x00")
    add("rotated", "shift", E[1:] + E[:1])
    add("reversed", "shift", E[::-1])
    for i in range(n - 1):
        b = bytearray(E)
        b[i], b[i + 1] = b[i + 1], b[i]
        add(f"swap{i}", "shift", b)
    return [(t, k, b) for t, k, b in out if not (k != "len" and b == E)]


class NearMiss:
    """the near-miss tables of one run, generated from the extracted constants"""

    def __init__(self, gen=None):
        gen = gen if gen is not None else load_gen_proto()
        self.gen = gen

        def both(name):
            vals = []
            for src in (gen, SPEC):
                v = src.get(name)
                if v is not None and v not in vals:
                    vals.append(v)
            return vals

        # ---- RDAC: the response each step compares with
        self.step_expected = {k: [v for v in both(n) if isinstance(v, bytes) and v] for k, n in STEP_RESP_NAME.items()}
        kinds = []
        for k in sorted(self.step_expected):
            for v in self.step_expected[k]:
                if v not in kinds:
                    kinds.append(v)
        self.rdac_kinds = kinds
        self.rdac_variants = {E: region_variants(E, [o for o in kinds if o != E]) for E in kinds}
        # ---- P2P
        self.cmd = [v for v in both("p2pCommandPrefix") if isinstance(v, bytes) and v]
        self.ping = [v for v in both("p2pPingPrefix") if isinstance(v, bytes) and v]
        self.ack = [v for v in both("p2pAckPrefix") if isinstance(v, bytes) and v]
        self.types = []
        for n in ("p2pTypeRegistration", "p2pTypeDmrStartup", "p2pTypeRdacStartup"):
            for v in both(n):
                if isinstance(v, int) and 0 <= v < 256 and v not in self.types:
                    self.types.append(v)
        self.keys = [v for v in both("p2pIsRegisteredKey") if isinstance(v, str) and v]

    # ---- RDAC datagrams
    @staticmethod
    def rdac_carriers(region: bytes):
        """the near-miss region alone, and followed by a complete response body (so the steps that read the body can)"""
        long = region + LONG_00[4:] if len(region) >= 4 else region + LONG_00[len(region):]
        return [("short", region), ("long", long)]

    def rdac_near(self, step):
        """[(tag, datagram)] near the response `step` waits for (steps 0 / 14 wait for nothing: the first / last kind)"""
        Es = self.step_expected.get(step) or ([self.rdac_kinds[0]] if step == 0 else [self.rdac_kinds[-1]])
        out = []
        for E in Es:
            for tag, kind, region in self.rdac_variants[E]:
                for cn, d in self.rdac_carriers(region):
                    out.append((f"{E.hex()}:{kind}:{tag}:{cn}", d))
        return out

    def rdac_all(self):
        out = []
        for E in self.rdac_kinds:
            for tag, kind, region in self.rdac_variants[E]:
                for cn, d in self.rdac_carriers(region):
                    out.append((f"{E.hex()}:{kind}:{tag}:{cn}", d))
        return out

    def rdac_step_symbols(self, step):
        """the few near misses that join the exhaustive per-step alphabet: only the last octet right (long body),
        one octet off, one octet short, and — from the peer behind the same IP — only the first octet right"""
        E = (self.step_expected.get(step) or ([self.rdac_kinds[0]] if step == 0 else [self.rdac_kinds[-1]]))[0]
        n = len(E)
        v = {t: b for t, k, b in self.rdac_variants[E]}
        last = v.get("keep%d:zero" % (n - 1)) or v.get("keep%d:cpl" % (n - 1))
        off = v.get("keep%s:inc" % "".join(str(i) for i in range(n) if i != 1)) or v.get("bit1.0")
        first = v.get("keep0:cpl")
        syms = []
        if last:
            syms.append(("rdac", P1, self.rdac_carriers(last)[1][1], False))
        if off:
            syms.append(("rdac", P1, off + b"\x20\x10\x00\x16", False))
        syms.append(("rdac", P1, E[:-1], False))
        if first:
            syms.append(("rdac", P2, first, False))
        return syms

    # ---- P2P datagrams
    def p2p_all(self):
        """[(tag, datagram)]: near misses of the command prefix (x every packet type, x with / without a ping prefix
        behind it), of the packet-type octet at offset 20 (wrong value, missing, one octet early / late), of the ping and
        acknowledgement prefixes at offset 4"""
        out = []
        seen = set()

        def add(tag, d):
            d = bytes(d)
            if d not in seen:
                seen.add(d)
                out.append((tag, d))

        types = self.types or [0x10, 0x11, 0x12]
        ping0 = (self.ping or [SPEC["p2pPingPrefix"]])[0]
        for E in self.cmd:
            n = len(E)
            for tag, kind, region in region_variants(E, [b"ZZZ", b"P2Q"]):
                for t in types:
                    base = bytearray(p2p_command(t, rid=1, length=24))
                    base[0:n] = E
                    withping = bytearray(base)
                    withping[4 : 4 + len(ping0)] = ping0
                    for cn, car in (("cmd", base), ("cmd+ping", withping)):
                        if kind == "sub":
                            d = bytearray(car)
                            d[0:n] = region
                        elif kind == "len":
                            if tag in ("shorter", "exact", "longer"):
                                d = car[: len(region)]  # the datagram ends inside / right after the compared region
                            else:
                                continue
                        else:
                            d = bytearray(car)
                            d[0 : len(region)] = region
                        add(f"cmd:{kind}:{tag}:{t:02x}:{cn}", d)
        for t in types:
            E = bytes([t])
            for tag, kind, region in region_variants(E, [bytes([o]) for o in types if o != t]):
                if kind != "sub":
                    continue
                add(f"type:{t:02x}:{tag}", p2p_command(region[0], rid=1, length=24))
            base = p2p_command(t, rid=1, length=24, fill=0)
            add(f"type:{t:02x}:len20", base[:20])
            add(f"type:{t:02x}:len21", base[:21])
            add(f"type:{t:02x}:len22", base[:22])
            for off in (19, 21):
                d = bytearray(p2p_command(0, rid=1, length=24))
                d[off] = t
                add(f"type:{t:02x}:at{off}", d)
                d = bytearray(p2p_command(0, rid=1, length=24, fill=t))
                d[20] = 0
                add(f"type:{t:02x}:everywhere-but-20", d)
        for name, Es, ack in (("ping", self.ping, False), ("ack", self.ack, True)):
            for E in Es:
                n = len(E)
                others = [o for o in (self.ping + self.ack) if o != E]
                for tag, kind, region in region_variants(E, others):
                    if ack and kind == "sub" and not (tag.endswith(":cpl") or tag.endswith(":other") or tag.startswith("bit0")):
                        continue  # the acknowledgement prefix only matters as "not a ping": a thinner neighbourhood
                    car = bytearray(p2p_ping(16, ack=ack))
                    car[4 : 4 + n] = E
                    if kind == "sub":
                        d = bytearray(car)
                        d[4 : 4 + n] = region
                    elif kind == "len":
                        if tag in ("shorter", "exact", "longer"):
                            d = car[: 4 + len(region)]
                        else:
                            continue
                    else:
                        d = bytearray(p2p_ping(16, ack=ack))
                        if tag in ("late", "late-dup"):
                            d[4:9] = bytes(5)
                            d[5 : 5 + n] = E
                        elif tag == "early":
                            d[4:9] = bytes(5)
                            d[3 : 3 + n] = E
                        else:
                            d[4 : 4 + len(region)] = region
                    add(f"{name}:{kind}:{tag}", d)
                for L in (12, 13, 14, 15):  # the answer writes data[12] and data[14]
                    add(f"{name}:len{L}", bytes(car[:L]))
                d = bytearray(16)
                d[0:n] = E
                add(f"{name}:at0", d)
        return out

    def pools(self):
        self.pool_rdac = self.rdac_all()
        self.pool_p2p = self.p2p_all()
        self.pool_keys = self.key_near()
        return self

    def key_near(self):
        """attribute names that nearly equal the is-registered key (ASCII, printable: the line protocol prints keys raw)"""
        out = []
        for K in self.keys:
            cand = [K[:-1], K + "d", K + "_", "_" + K, K.upper(), K.capitalize(), K[:-1] + chr(ord(K[-1]) + 1), chr(ord(K[0]) + 1) + K[1:],
                    K.replace("_", "-"), K.replace("_", ""), K.replace("_", "."), K[1:], K.split("_", 1)[-1], K.rsplit("_", 1)[0],
                    K.rsplit("_", 1)[-1], K[: len(K) // 2], K[::-1], K + K, K.replace("is_", ""), K.replace("p2p", "rdac")]
            for c in cand:
                if c and c not in self.keys and c not in SPEC.values() and c not in FIELDS and c not in out and re.fullmatch(r"[A-Za-z0-9_.\-]+", c):
                    out.append(c)
        return out


# ------------------------------------------------------------------------------------------------
# the property on the real code


class Oracle:
    def __init__(self, ctx, sut, history, ports=(50000, 50002)):
        self.ctx, self.sut, self.history, self.ports = ctx, sut, history, ports
        self.registered = []  # peer addresses, compared with == (a list address is unhashable)
        self.completions = {}
        # the pinned protocol constants, not the live class attributes: a changed constant must not move the yardstick
        self.expected = SPEC_RESP
        self.next = {0: 1, 1: 2, 2: 3, 3: 4, 4: 5, 5: 6, 6: 7, 7: 8, 8: 10, 10: 11, 11: 12, 12: 13, 13: 14, 14: 14}

    def fail(self, kind, what, expected=None, actual=None):
        self.ctx.count(f"oracle-failure:{kind}")
        if len(self.ctx.failures) < 200:
            self.ctx.fail(kind, {"history": list(self.history), "ports": list(self.ports)}, what, expected=expected, actual=actual)

    def env_attr(self, addr, key, value):
        """the application wrote a dynamic attribute.  Writing the is-registered key itself is the application's own
        authorisation decision (outside the property): a true value authorises, a false one (not None: skipped) revokes"""
        if key == SPEC["p2pIsRegisteredKey"] and value is not None:
            if value:
                self.mark_registered(addr)
            else:
                self.registered = [a for a in self.registered if not a == addr]

    def mark_registered(self, addr):
        if not any(a == addr for a in self.registered):
            self.registered.append(addr)

    # ---- P2P
    def p2p_before(self, addr):
        self.calls0 = self.sut.snmp_calls
        self.snap0 = self.sut.snapshot()
        rec = self.sut.record_of(addr)
        self.out0 = rec.address_out if rec is not None else None

    def p2p_after(self, addr, data, events, exc):
        sut = self.sut
        sends = [(e[1], e[2]) for e in events if e[0] == "send"]
        is_cmd = data[:3] == SPEC["p2pCommandPrefix"]
        ptype = data[20] if len(data) > 20 else 0
        is_reg = is_cmd and ptype == SPEC["p2pTypeRegistration"]
        is_rdac = is_cmd and ptype == SPEC["p2pTypeRdacStartup"]
        is_dmr = is_cmd and ptype == SPEC["p2pTypeDmrStartup"]
        is_ping = (not is_cmd) and data[4:9] == SPEC["p2pPingPrefix"]
        registered = any(a == addr for a in self.registered)
        reject = (b"\x00", addr)
        # network I/O (the SNMP read) belongs to a registration that got as far as its answer, to nothing else
        io = sut.snmp_calls - self.calls0
        if io != (1 if is_reg and type(exc).__name__ != "ValueError" else 0):
            self.fail("p2p-snmp-io", "the SNMP read was started by a datagram that is no (completing) registration, or not by one that is",
                      expected=int(is_reg and type(exc).__name__ != "ValueError"), actual=io)
        if exc is not None:
            # the only exceptions a datagram may cause: data[4] = 255 in a registration / an authorised start-up request
            # (ValueError), an authorised ping shorter than 15 octets (IndexError), the stubbed SNMP call of a registration
            name = type(exc).__name__
            okexc = (
                (name == "ValueError" and len(data) > 4 and data[4] == 255 and (is_reg or ((is_rdac or is_dmr) and registered)))
                or (name == "IndexError" and is_ping and registered and len(data) < 15)
                or (name == "SnmpStubError" and is_reg and self.sut.snmp_fails)
                # the log line `"... %s:%s" % address` of the two start-up handlers, formatted after the acceptance was sent
                or (name == "TypeError" and (is_rdac or is_dmr) and registered and not is_pair(addr))
            )
            if not okexc:
                self.fail("p2p-unexpected-exception", f"datagram_received raised {name}: {exc}")
        if is_reg:
            if exc is None:
                self.mark_registered(addr)
            # registration is open to anyone: at most the registration answer, to the stored outbound address
            if len(sends) > 1 or (exc is None and len(sends) != 1):
                self.fail("p2p-registration-answer", "a registration was not answered by exactly one datagram", expected=1, actual=len(sends))
            if type(exc).__name__ == "ValueError" and sut.snapshot() != self.snap0:
                self.fail("p2p-error-changed-state", "a registration that raised ValueError changed the storage")
            return
        if is_rdac or is_dmr or is_ping:
            if not registered:
                # every such request from an unregistered source: the single-byte reject to the requester
                if sends != [reject] or exc is not None:
                    self.fail("p2p-unregistered-not-rejected", "a request from an unregistered source was not answered by the single-byte reject to the requester", expected=[("00", cval(addr))], actual=[(d.hex(), cval(a)) for d, a in sends])
            else:
                if reject in sends:
                    self.fail("p2p-registered-rejected", "a request from a registered source was rejected")
                allowed = {
                    "rdac": [self.out0],
                    "dmr": [(addr[0], sut.p2p_port)],
                    "ping": [addr],
                }["rdac" if is_rdac else "dmr" if is_dmr else "ping"]
                for d, a in sends:
                    if a not in allowed:
                        self.fail("p2p-destination", "an accept / redirect / ping answer was sent to an address that is neither the stored outbound address nor the requester's", expected=[cval(x) for x in allowed], actual=cval(a))
                want = 1 if is_ping else 2
                if exc is None and len(sends) != want:
                    self.fail("p2p-answer-count", "a request from a registered source was not answered as specified", expected=want, actual=len(sends))
                if type(exc).__name__ == "TypeError" and len(sends) != 1:
                    self.fail("p2p-answer-count", "a start-up request from a registered peer with a longer address tuple: the acceptance, then TypeError", expected=1, actual=len(sends))
            if sut.snapshot() != self.snap0:
                self.fail("p2p-request-changed-state", "a start-up request / ping changed the storage")
            return
        # acknowledgements, unknown commands, garbage: silence
        if sends or exc is not None:
            self.fail("p2p-not-silent", "an acknowledgement / unknown command / garbage datagram produced output", expected=[], actual=[(d.hex(), cval(a)) for d, a in sends])
        if sut.snapshot() != self.snap0:
            self.fail("p2p-not-silent", "an acknowledgement / unknown command / garbage datagram changed the storage")

    # ---- RDAC
    def rdac_before(self, addr):
        self.calls0 = self.sut.snmp_calls
        self.steps0 = dict(self.sut.rdac.step)
        self.snap0 = self.sut.snapshot()
        self.rec0 = self.sut.record_of(addr)

    def rdac_after(self, addr, data, events, exc):
        sut = self.sut
        ip = addr[0]
        before = self.steps0.get(ip) or 0
        steps1 = dict(sut.rdac.step)
        after = steps1.get(ip) or 0
        # isolation: no other peer's step moves
        for k in set(self.steps0) | set(steps1):
            if k != ip and (self.steps0.get(k) or 0) != (steps1.get(k) or 0):
                self.fail("rdac-isolation", f"a datagram from {ip} changed the step of {k}", expected=self.steps0.get(k), actual=steps1.get(k))
        exp = self.expected.get(before)
        is_reset = len(data) == 1 and before != 14
        is_expected = before not in (0, 14) and not is_reset and len(data) != 1 and exp is not None and data[: len(exp)] == exp
        if exc is not None:
            name = type(exc).__name__
            okexc = is_expected and (
                (name == "UnicodeDecodeError" and before == 6)
                or (name == "IndexError" and before == 10 and len(data) <= 26)
                or (name == "SnmpStubError" and before == 13 and sut.snmp_fails)
            )
            if not okexc:
                self.fail("rdac-unexpected-exception", f"datagram_received raised {name} at step {before}: {exc}")
            if name != "SnmpStubError" and after != before:
                self.fail("rdac-error-changed-step", "a datagram that raised changed the step", expected=before, actual=after)
        if is_reset:
            want = 1
        elif before == 14:
            want = 14
        elif before == 0:
            want = 1  # the first datagram of a peer starts the identification
        elif is_expected and (exc is None or type(exc).__name__ == "SnmpStubError"):
            want = self.next[before]
        else:
            want = before
        if after != want:
            kind = "rdac-advanced-unexpected" if after not in (before, 1) or not is_reset and after != before and not is_expected and before != 0 else "rdac-step"
            self.fail(kind, f"step of {ip} went {before} -> {after} on {'reset' if is_reset else 'expected response' if is_expected else 'other datagram'}", expected=want, actual=after)
        io = sut.snmp_calls - self.calls0
        if io != (1 if before == 13 and is_expected else 0):
            self.fail("rdac-snmp-io", f"the SNMP read of the completion was started at step {before} by a datagram that is not the final response, or not by the final response",
                      expected=int(before == 13 and is_expected), actual=io)
        sends = [(e[1], e[2]) for e in events if e[0] == "send"]
        if is_reset and (SPEC["rdacStep0Request"], addr) not in sends:
            self.fail("rdac-restart", "a one-octet reset did not restart the identification (step-0 request not sent)")
        for d, a in sends:
            if a != addr:
                self.fail("rdac-destination", "a request was sent to another address than the peer's", expected=cval(addr), actual=cval(a))
        # no output other than the specified one: the step-0 request on a start / reset, the requests of the step on its
        # expected response, nothing on anything else (step 14 answers a one-octet datagram or not: left to the model)
        want_out = None
        if is_reset or before == 0:
            want_out = SPEC_REQ[0]
        elif before != 14:
            want_out = (SPEC_REQ[before] if exc is None else []) if is_expected else []
        elif len(data) != 1:
            want_out = []
        if want_out is not None and [d for d, _ in sends] != want_out:
            kind = "rdac-output" if is_reset or before == 0 or is_expected else "rdac-unexpected-answered"
            self.fail(kind, f"at step {before} the handler sent other datagrams than specified for {'a reset / start' if is_reset or before == 0 else 'the expected response' if is_expected else 'an unexpected datagram'}",
                      expected=[d.hex() for d in want_out], actual=[d.hex() for d, _ in sends])
        # completion exactly once per completed run
        cbs = [e[1] for e in events if e[0] == "cb"]
        completes = before == 13 and after == 14 and exc is None
        if len(cbs) != (1 if completes else 0):
            self.fail("rdac-completion", "completion callback does not coincide with the step going 13 -> 14", expected=int(completes), actual=len(cbs))
        if cbs:
            self.completions[ip] = self.completions.get(ip, 0) + len(cbs)
            if self.completions[ip] > 1:
                self.fail("rdac-completion", f"completion reported {self.completions[ip]} times for {ip}")
            rec = sut.record_of(addr)
            if rec is None or cbs[0] != rec.id:
                self.fail("rdac-completion", "completion reported for another repeater than the peer's record")
        # storage: only the record of the sending address may change / be created
        snap1 = sut.snapshot()
        mine = None
        rec = sut.record_of(addr)
        if rec is not None:
            mine = [i for i, o in enumerate(sut.created) if o is rec][0]
        for i in range(len(snap1)):
            if i != mine and (i >= len(self.snap0) or snap1[i] != self.snap0[i]):
                self.fail("rdac-storage-local", "a datagram changed / created the record of another address")
        # ... and an unexpected datagram changes nothing of the sender's record either (it may only have been auto-created)
        if not is_expected and self.rec0 is not None and mine is not None and mine < len(self.snap0) and snap1[mine] != self.snap0[mine]:
            self.fail("rdac-unexpected-changed-record", f"a datagram that is not the expected response of step {before} changed the sender's record")


# ------------------------------------------------------------------------------------------------
def apply(sut, oracle, sym, pairs, ctx):
    """sym = ("p2p"|"rdac", peer, data, snmp_fails) | ("setout", peer, out) | ("setattr", peer, key, value)"""
    if sym[0] == "p2p":
        _, addr, data, f = sym
        if oracle:
            oracle.history.append(["p2p", jaddr(addr), data.hex(), f])
            oracle.p2p_before(addr)
        line, out, events, exc = sut.p2p_rx(addr, data, f)
        pairs.append((line, out))
        if oracle:
            oracle.p2p_after(addr, data, events, exc)
    elif sym[0] == "rdac":
        _, addr, data, f = sym
        if oracle:
            oracle.history.append(["rdac", jaddr(addr), data.hex(), f])
            oracle.rdac_before(addr)
        line, out, events, exc = sut.rdac_rx(addr, data, f)
        pairs.append((line, out))
        if oracle:
            oracle.rdac_after(addr, data, events, exc)
    elif sym[0] == "ro":
        ro_call(sut, oracle, sym, ctx)
        return
    elif sym[0] == "setattr":
        _, addr, key, value = sym
        if oracle:
            oracle.history.append(["setattr", jaddr(addr), key, jv(value)])
            oracle.env_attr(addr, key, value)
        pairs.append(sut.set_attr(addr, key, value))
        exc = None
    else:
        _, addr, out_addr = sym
        if oracle:
            oracle.history.append(["setout", jaddr(addr), jv(out_addr) if not (type(out_addr) is tuple and len(out_addr) == 2) else list(out_addr)])
        pairs.append(sut.set_out(addr, out_addr))
        exc = None
    ctx.count(f"sym:{sym[0]}")
    if exc is not None:
        ctx.count(f"outcome:{type(exc).__name__}")


# ------------------------------------------------------------------------------------------------
# round 6: read-only calls interleaved into a history (harness/ro_calls.py).  A symbol ("ro", root, call) is one observer-style call
# on the P2P handler, the RDAC handler, the shared storage or a library object reachable from them (the Repeater records): repr / str /
# len / bool / == / hash / copy / reading every attribute, packet_is_* / command_get_type / get_redirect_packet, match_incoming /
# match_attr / match_ip_incoming / match_uuid WITHOUT auto-create, all(), Repeater.attr(key) / repeater_target_address(), the log_*
# helpers, and whatever get_* / is_* / has_* / debug a change adds.  `call` is an entry of the catalogue or a number (that entry of
# the catalogue the live objects offer now; the recorded history holds the call it became).  It is no datagram: the model is not
# told, nothing may be sent, and the deep picture of both handlers, the storage and every record must be what it was.
RO_POOLS = {
    "address": [P1, P2, P3, ("10.9.9.9", 50000), ("", 0)], "addr": [P1, P2, P3, ("10.9.9.9", 50000)],
    "ip": [P1[0], P3[0], "10.9.9.9", ""], "uuid": [_uuid.UUID(int=0), _uuid.UUID(int=1), _uuid.UUID(int=77)],
    "attr_name": ["address_in", "callsign", "dmr_id", "id", "address_out"], "match_value": [P1, "OK1ABC", 0, None, ("", 0)],
    "key": ["p2p_is_registered", "tx_freq", "nope"], "value": [None], "patch": [{}],
    "data": [b"P2P\x00\x01" + bytes(19), bytearray(b"P2P\x00\x07" + bytes(25)), bytes.fromhex("0a00000014") + bytes(11), b""], "target_port": [50001, 0],
    "msg": ["status", "%s %d", ""], "exc": [None],
}


def ro_roots(sut):
    return {"p2p": sut.p2p, "rdac": sut.rdac, "storage": sut.storage}


def ro_call(sut, oracle, sym, ctx):
    import random

    _, root, spec = sym
    roots = ro_roots(sut)
    if isinstance(spec, int):
        cat = RO.all_specs({root: roots[root]}, RO_POOLS, random.Random(spec))
        spec = cat[spec % len(cat)]
    spec = list(spec)
    if oracle:
        oracle.history.append(["ro", root, json.loads(json.dumps(spec))])
    try:
        obj = RO.resolve(spec[0], roots)
    except Exception:  # noqa: that object does not exist in this state
        ctx.count("read-only-call:no-such-object")
        return
    text = RO.spec_text(spec)
    sut.log.clear()
    s0 = RO.snapshot(roots, [sut.snmp_calls])
    n0 = len(sut.storage)
    answer, _ = RO.perform(obj, spec, other=sut.storage)
    s1 = RO.snapshot(roots, [sut.snmp_calls])
    ctx.count("read-only-call:" + (spec[2] if spec[1] == "proto" else "call:" + spec[2]))
    ctx.count("read-only-call-answer:" + answer)
    if not oracle:
        return
    if s0 != s1 or len(sut.storage) != n0:
        oracle.fail("read-only-call", f"the read-only call {text} (answer: {answer}) changed the state of the handlers / the storage", expected="nothing changes",
                    actual=RO.first_diff(s0, s1) or f"len {n0} -> {len(sut.storage)}")
    if sut.log:
        oracle.fail("read-only-call", f"the read-only call {text} (answer: {answer}) sent something / reported a completion", expected=[], actual=sut.events())


def ro_interleave(rng, syms, density=0.2):
    out, made = [], 0
    for i, s in enumerate(syms):
        out.append(s)
        if rng.random() < density or (made == 0 and i >= len(syms) // 2):
            for _ in range(rng.randrange(1, 3)):
                out.append(("ro", rng.choice(["p2p", "rdac", "storage", "storage"]), rng.getrandbits(30)))
                made += 1
    return out


def ro_run(syms, ports, ctx=None):
    """one history in fresh handlers on a fresh storage: (pairs, final sweep, failures, history as recorded)"""
    sh = Shadow(ctx) if ctx is not None else Shadow(_NoCount())
    sut = Sut(*ports)
    try:
        local = [(f"reset {ports[0]} {ports[1]}", "ok")]
        history = []
        oracle = Oracle(sh, sut, history, ports)
        for s in syms:
            apply(sut, oracle, s, local, sh)
        local.append(("dump", sut.dump()))
        roots = ro_roots(sut)
        sut.log.clear()
        n0 = len(sut.storage)
        final, specs, changed = RO.checked_sweep(roots, RO_POOLS, 5 + sum(1 for s in syms if s[0] != "ro"), lambda: [sut.snmp_calls])
        if not changed and (sut.log or len(sut.storage) != n0):
            changed = f"sent / reported {sut.events()}, len {n0} -> {len(sut.storage)}"
        if changed:
            # the sweep made every call of the catalogue: as explicit elements they are checked one by one
            sh.failures.append({"kind": "read-only-call", "what": "the final look through every observer-style call changed the state of the handlers / the storage", "expected": "nothing changes", "actual": changed})
            history += [["ro", sp[0][0], json.loads(json.dumps(sp))] for sp in specs]
        return local, final, sh.failures, history
    finally:
        sut.close()


class _NoCount:
    def count(self, *a):
        pass


def ro_verdicts(plain, with_calls, ports, ctx=None, sweep=True):
    pa, fa, _, _ = ro_run(plain, ports)
    pb, fb, failures, hist = ro_run(with_calls, ports, ctx)
    out = [(f["what"], f["expected"], f["actual"]) for f in failures if f["kind"] == "read-only-call" and (sweep or not f["what"].startswith("the final look"))]
    a, b = [x[1] for x in pa], [x[1] for x in pb]
    if a != b:
        d = next((i for i, (x, y) in enumerate(zip(a, b)) if x != y), min(len(a), len(b)))
        out.append((f"datagrams are answered differently when read-only calls are made in between (first difference at delivery {d}: {pa[d][0][:70] if d < len(pa) else 'end'})",
                    a[d][:300] if d < len(a) else None, b[d][:300] if d < len(b) else None))
    if fa != fb:
        out.append(("after read-only calls were made in between, the final state / what the observers answer at the end differs from the run without them",
                    "as without the calls", RO.first_diff(fa, fb)))
    return out, pb, hist


def run_read_only(ctx, nm, hv, pairs, flush):
    import random

    rng = random.Random(f"C18:ro:{ctx.seed}")
    todo = [(list(seq), (50000, 50002)) for seq in CORPUS]
    for i in range(100 if not ctx.thorough() else 800):
        length = rng.choice([4, 8, 20, 40]) if i % 6 else 90
        seq = [random_sym(rng, nm, PEERS, hv if i % 2 else None) for _ in range(length)]
        if i % 3 == 0:
            seq = [("rdac", rng.choice(PEERS), d, False) for d in drive_to(rng.choice(STEP_ORDER))] + seq
        if i % 4 == 1:
            seq = [("p2p", rng.choice(PEERS), p2p_command(0x10), False)] + seq
        todo.append((seq, (50000, 50002) if i % 4 else (rng.randrange(1, 65536), rng.randrange(1, 65536))))
    shrunk = 0
    for i, (plain, ports) in enumerate(todo):
        if len(ctx.failures) >= 200:
            break
        with_calls = ro_interleave(rng, plain)
        verdicts, pb, hist = ro_verdicts(plain, with_calls, ports, ctx)
        ctx.case(("read-only", i, len(with_calls)), sample={"class": "read-only calls interleaved", "datagrams": len(plain), "read_only_calls": len(with_calls) - len(plain)} if i == 1 else None)
        ctx.count("read-only:histories")
        ctx.count("read-only:calls", len(with_calls) - len(plain))
        if not verdicts:
            if not any("?" in line for line, _ in pb):
                pairs.extend(pb)  # the model answers the history without the calls; the implementation answered it with them
            continue
        ctx.count("read-only:failing-histories")
        if shrunk < 4:
            shrunk += 1
            ran = [tuple(s) if s[0] != "ro" else ("ro", h[1], h[2]) for s, h in zip(with_calls, hist)] + [("ro", h[1], h[2]) for h in hist[len(with_calls):]]

            def test(cand):
                return any(s[0] == "ro" for s in cand) and bool(ro_verdicts([s for s in cand if s[0] != "ro"], cand, ports, sweep=False)[0])

            small = RO.ddmin(ran, test, max_runs=150)
            again, _, hist2 = ro_verdicts([s for s in small if s[0] != "ro"], small, ports, sweep=False)
            if again:
                verdicts, hist = again, hist2
                ctx.count("read-only:failing-history-shortened")
        elif shrunk >= 24:
            continue
        else:
            shrunk += 1
        for what, exp, act in verdicts[:2]:
            ctx.fail("read-only-call", {"history": hist, "ports": list(ports)}, what + f" [history of {len(hist)} elements]", expected=exp, actual=act)
    flush("handshake.read-only")
    sk = []
    sut = Sut()
    try:
        RO.all_specs(ro_roots(sut), RO_POOLS, skipped=sk)
    finally:
        sut.close()
    for what in sorted(set(sk)):
        ctx.count("read-only:not-called:" + what[:110])
    if RO.no_exclusions():
        ctx.notes.append("VERIF_RO_NOEXCLUDE is set: the reviewed exclusions of harness/ro_calls.py are void in this run (review mode)")


def run_history(ctx, syms, pairs, ports=(50000, 50002), prefix=()):
    sut = Sut(*ports)
    try:
        local = [(f"reset {ports[0]} {ports[1]}", "ok")]
        history = []
        oracle = Oracle(ctx, sut, history, ports)
        for s in prefix:
            apply(sut, oracle, s, local, ctx)
        for s in syms:
            apply(sut, oracle, s, local, ctx)
        local.append(("dump", sut.dump()))
        if any("?" in line for line, _ in local):
            ctx.count("histories-outside-the-model(oracle-only)")  # a peer address that is no tuple (str, int, ...)
        else:
            pairs.extend(local)
        return sut
    finally:
        sut.close()


def p2p_alphabet():
    reg, dmr, rdac = p2p_command(0x10), p2p_command(0x11, rid=7, length=30, fill=3), p2p_command(0x12, rid=0, length=21)
    ping = p2p_ping(16)
    syms = []
    for p in PEERS:
        syms += [("p2p", p, reg, False), ("p2p", p, dmr, False), ("p2p", p, rdac, False), ("p2p", p, ping, False)]
    syms += [
        ("p2p", P1, p2p_ping(16, ack=True), False),  # acknowledgement
        ("p2p", P1, p2p_command(0x13), False),  # unknown command
        ("p2p", P2, b"\x00garbage", False),  # garbage
        ("setout", P1, ("192.0.2.9", 40000)),  # the application stores the outbound address
        ("p2p", P1, p2p_command(0x10, rid=255), False),  # data[4] = 255: ValueError
        ("p2p", P2, p2p_command(0x10), True),  # SNMP stub fails: answered but not registered
        ("p2p", P1, p2p_ping(13), False),  # short ping: IndexError once registered
    ]
    return syms


def rdac_alphabet(peers):
    syms = []
    for p in peers:
        syms += [("rdac", p, RESP_FD, False), ("rdac", p, RESP_10, False), ("rdac", p, RESP_00, False), ("rdac", p, LONG_00, False),
                 ("rdac", p, RESP_FA, False), ("rdac", p, b"\x00", False), ("rdac", p, b"\x7e\x04garbage", False)]
    return syms


RDAC_EXTRA = [
    ("rdac", P1, BAD_UTF16_00, False),
    ("rdac", P1, surrogate_body(), False),
    ("rdac", P1, b"\x01", False),
    ("rdac", P1, b"", False),
    ("rdac", P1, RESP_FA, True),
    ("rdac", P1, rdac_body(RESP_00, length=26), False),
]

CORPUS = [
    # the complete identification of one peer, then extra data and resets at step 14
    [("rdac", P1, d, False) for d in drive_to(14)] + [("rdac", P1, b"\x00", False), ("rdac", P1, b"\x01", False), ("rdac", P1, RESP_FD, False)],
    # two peers behind one IP share the step: the second peer's datagrams advance the first one's run
    [("rdac", P1, b"\x55", False), ("rdac", P2, RESP_FD, False), ("rdac", P1, RESP_10, False), ("rdac", P3, RESP_10, False)],
    # P2P: unregistered requests are rejected, registration, then accepted; same IP other port stays unregistered
    [("p2p", P1, p2p_command(0x11), False), ("p2p", P1, p2p_command(0x10), False), ("p2p", P1, p2p_command(0x11), False),
     ("p2p", P2, p2p_command(0x12), False), ("setout", P1, ("192.0.2.9", 40000)), ("p2p", P1, p2p_command(0x12), False), ("p2p", P1, p2p_ping(16), False)],
    # exceptions: data[4] = 255, short ping of a registered peer, SNMP failure during registration
    [("p2p", P1, p2p_command(0x10, rid=255), False), ("p2p", P1, p2p_command(0x10), False), ("p2p", P1, p2p_command(0x12, rid=255), False),
     ("p2p", P1, p2p_ping(13), False), ("p2p", P2, p2p_command(0x10), True), ("p2p", P2, p2p_ping(16), False)],
    # RDAC storage patches after a P2P registration on the shared storage
    [("p2p", P1, p2p_command(0x10), False)] + [("rdac", P1, d, False) for d in drive_to(11)],
]


def random_sym(rng, nm=None, peers=PEERS, hv=None):
    peer = rng.choice(peers)
    if hv is not None and rng.random() < 0.12:
        # library sentinels / defaults / literals of the current source (see Harvest) as source address, key, value, content
        k = rng.randrange(100)
        who = rng.choice(hv.peers_core) if rng.random() < 0.7 else peer
        if k < 45:
            return ("p2p", who, rng.choice([p2p_command(0x10), p2p_ping(16), p2p_ping(16), p2p_command(0x11), p2p_command(0x12)]), rng.random() < 0.05)
        if k < 58:
            return ("rdac", who, rng.choice([b"\x55\x55", RESP_FD, b"\x00", RESP_10]), False)
        if k < 85:
            return ("setattr", rng.choice(list(peers) + hv.peers_core[:3]), rng.choice(hv.keys), rng.choice(hv.values + list(peers) + hv.peers_core))
        return (rng.choice(["p2p", "rdac"]), who, rng.choice(hv.datagrams)[1], False)
    if nm is not None and rng.random() < 0.15:
        # a near miss of one of the compared values, wherever the history happens to be
        k = rng.randrange(100)
        if k < 50:
            return ("rdac", peer, rng.choice(nm.pool_rdac)[1], False)
        if k < 95:
            return ("p2p", peer, rng.choice(nm.pool_p2p)[1], False)
        return ("setattr", peer, rng.choice(nm.pool_keys), rng.choice([True, 1, "x", 0, ""]))
    c = rng.randrange(100)
    if c < 40:
        k = rng.randrange(100)
        if k < 60:
            d = p2p_command(rng.choice([0x10, 0x10, 0x11, 0x12, 0x13, 0x00]), rid=rng.choice([0, 1, 7, 254, 255]), length=rng.choice([21, 24, 30, 64]), fill=rng.randrange(256))
            if rng.random() < 0.1:
                d = d[: rng.choice([3, 10, 20])]
        elif k < 85:
            d = p2p_ping(rng.choice([9, 12, 13, 14, 15, 16, 30]), ack=rng.random() < 0.25)
        else:
            d = bytes(rng.randrange(256) for _ in range(rng.choice([0, 1, 2, 8, 9, 21, 25])))
        return ("p2p", peer, d, rng.random() < 0.08)
    if c < 45:
        return ("setout", peer, rng.choice([("192.0.2.9", 40000), ("10.0.0.1", 50000), ("", 0)]))
    k = rng.randrange(100)
    if k < 70:
        prefix = rng.choice([RESP_FD, RESP_10, RESP_10, RESP_00, RESP_00, RESP_FA])
        length = rng.choice([4, 4, 21, 26, 27, 37, 89, 108, 216, 220, 230])
        d = rdac_body(prefix, length=length, callsign=rng.choice(["OK1ABC", "", "Ž", "\U0001F600x"]), dmr_id=rng.randrange(1 << 24), tx=rng.randrange(1 << 32), rx=rng.randrange(1 << 32))
        if rng.random() < 0.1 and len(d) > 100:
            b = bytearray(d)
            i = rng.choice([56, 88, 120, 184]) + 2 * rng.randrange(5)
            b[i : i + 2] = rng.choice([0xD800, 0xDC00, 0xDBFF]).to_bytes(2, "little")
            d = bytes(b)
    elif k < 85:
        d = bytes([rng.choice([0, 0, 1, 0x41])])
    else:
        d = bytes(rng.randrange(256) for _ in range(rng.choice([0, 2, 3, 4, 5, 30])))
    return ("rdac", peer, d, rng.random() < 0.05)


class Shadow:
    """keeps the oracle failures of a long probing history apart, so that the failing delivery can be re-run alone"""

    def __init__(self, ctx):
        self.ctx = ctx
        self.failures = []

    def fail(self, kind, input, what, expected=None, actual=None):
        self.failures.append({"kind": kind, "input": input, "what": what, "expected": expected, "actual": actual})

    def count(self, key, n=1):
        self.ctx.count(key, n)


def p2p_states():
    reg = p2p_command(0x10)
    out = ("192.0.2.9", 40000)
    return [
        ("fresh", []),
        ("known", [("setout", P1, out)]),
        ("registered", [("p2p", P1, reg, False)]),
        ("registered+out", [("p2p", P1, reg, False), ("setout", P1, out), ("p2p", P3, reg, False)]),
        ("sibling-registered", [("p2p", P2, reg, False)]),  # same IP, other port
        ("failed-255", [("p2p", P1, p2p_command(0x10, rid=255), False)]),
        ("failed-snmp", [("p2p", P1, reg, True)]),
        ("rdac-known", [("rdac", P1, b"\x55\x55", False)]),  # record auto-created by the RDAC handler on the shared storage
    ]


# addresses that nearly equal P1's: its IP as a proper prefix / with a leading zero / cut short, its port cut short / off by one / zero
NEAR_ADDRS = [("10.0.0.10", 50000), ("10.0.0.", 50000), ("010.0.0.1", 50000), ("10.0.0.1.", 50000), ("10.0.0.1", 5000), ("10.0.0.1", 50001),
              ("10.0.0.1", 49999), ("10.0.0.1", 0), ("10.0.0.11", 50000), ("10.0.0.2", 50001)]

P2P_FOLLOW = [("p2p", P1, p2p_ping(16), False), ("p2p", P1, p2p_command(0x11), False), ("p2p", P1, p2p_command(0x12), False)]


def near_miss_sections(ctx, nm, pairs, flush):
    """near misses of every compared value, delivered where they are nearly expected (see `region_variants`)"""
    park = [("rdac", P3, d, False) for d in drive_to(3)]
    idx = {st: i for i, st in enumerate(STEP_ORDER)}

    def is_exp(st, d):
        e = SPEC_RESP.get(st)
        return e is not None and len(d) != 1 and d[: len(e)] == e

    # ---- RDAC: one near miss alone at the step that nearly expects it, then the expected response (the run goes on from
    # where it was; from step 13 it completes, exactly once), alternately from the peer itself and from the peer behind its IP
    n = 0
    for st in STEP_ORDER:
        prefix = [("rdac", P1, d, False) for d in drive_to(st)] + park
        near = nm.rdac_near(st)
        if st in (0, 14):
            near = near[::6]  # nothing is expected there: a thinner sample
        tail = [("rdac", P1, expected_for(st), False)]
        if st == 13:
            tail = tail + [("rdac", P1, RESP_FA, False), ("rdac", P1, b"\x00", False)]
        for j, (tag, d) in enumerate(near):
            who = P1 if j % 3 else P2
            run_history(ctx, [("rdac", who, d, j % 5 == 0)] + tail, pairs, prefix=prefix)  # a failing SNMP stub must stay unused
            ctx.case(("rdac-near", st, tag), sample={"start_step": st, "near_miss": tag, "datagram": d[:8].hex(), "length": len(d)} if (st, j) == (13, 40) else None)
            ctx.count(f"nearmiss:rdac:{tag.split(':')[1]}")
            ctx.count("nearmiss:rdac:is-the-expected-one(control)" if is_exp(st, d) else "nearmiss:rdac:is-a-reset" if len(d) == 1 else "nearmiss:rdac:unexpected")
            n += 1
    ctx.count("nearmiss:rdac-alone", n)
    flush("handshake.rdac-near")
    # ---- RDAC: every near miss of every response kind at every step, one long history per step (none may move the step),
    # then the rest of the identification (still completes, once).  A failing delivery is re-run alone for a short replay.
    allnear = nm.pool_rdac
    n = 0
    for st in STEP_ORDER:
        prefix = [("rdac", P1, d, False) for d in drive_to(st)] + park
        eff = 1 if st == 0 else st  # the first datagram of the train starts the run
        train = [("rdac", (P1, P2, P1, P3)[j % 4], d, False) for j, (tag, d) in enumerate(allnear) if len(d) != 1 and not is_exp(eff, d)]
        rest = [("rdac", P1, expected_for(s2), False) for s2 in STEP_ORDER[idx[eff] : -1]] + [("rdac", P1, RESP_FA, False)]
        sh = Shadow(ctx)
        run_history(sh, train + rest, pairs, prefix=prefix)
        ctx.case(("rdac-train", st, len(train)))
        n += len(train)
        if sh.failures:
            before = len(ctx.failures)
            seen = []
            for f in sh.failures:
                h = f["input"]["history"][-1]
                if h in seen or len(seen) >= 3:
                    continue
                seen.append(h)
                alone = [("rdac", uaddr(h[1]), bytes.fromhex(h[2]), bool(h[3]))]
                run_history(ctx, alone, pairs, prefix=prefix if st else prefix + [("rdac", P1, b"\x55\x55", False)])
            if len(ctx.failures) == before:  # only the accumulated history shows it
                f = sh.failures[0]
                ctx.fail(f["kind"], f["input"], f["what"], expected=f["expected"], actual=f["actual"])
    ctx.count("nearmiss:rdac-train-deliveries", n)
    flush("handshake.rdac-near-train")
    # ---- RDAC: every near miss of every response kind alone at every step, then the step's expected response
    n = 0
    for st in STEP_ORDER:
        prefix = [("rdac", P1, d, False) for d in drive_to(st)]
        for j, (tag, d) in enumerate(allnear):
            run_history(ctx, [("rdac", P1, d, False), ("rdac", P1, expected_for(st), False)], pairs, prefix=prefix)
            ctx.case(("rdac-near-all", st, tag))
            n += 1
        flush("handshake.rdac-near-all")
    ctx.count("nearmiss:rdac-alone-every-step", n)
    # ---- P2P: every near miss of the command prefix / packet type / ping / acknowledgement prefix from P1 in every
    # registration state, followed by a ping, a DMR and an RDAC start-up from P1 (a near miss must not have registered it)
    states = p2p_states()
    n = 0
    for j, (tag, d) in enumerate(nm.pool_p2p):
        for k, (sname, pre) in enumerate(states):
            run_history(ctx, [("p2p", P1, d, (j + k) % 4 == 0)] + P2P_FOLLOW, pairs, prefix=pre)
            ctx.case(("p2p-near", sname, tag), sample={"state": sname, "near_miss": tag, "datagram": d.hex()} if (sname, tag) == ("fresh", "cmd:sub:keep01:inc:10:cmd") else None)
            n += 1
        ctx.count(f"nearmiss:p2p:{tag.split(':')[0]}")
    ctx.count("nearmiss:p2p-deliveries", n)
    flush("handshake.p2p-near")
    # ---- the is-registered key: attributes with nearly that name (true values) authorise nobody; nearly-named false
    # values revoke nothing; the key itself with a false value / None authorises nobody
    KEY = SPEC["p2pIsRegisteredKey"]
    reg = ("p2p", P1, p2p_command(0x10), False)
    n = 0
    for key in nm.pool_keys:
        for val in (True, 1, "yes"):
            run_history(ctx, [("setattr", P1, key, val)] + P2P_FOLLOW + [reg] + P2P_FOLLOW, pairs)
            run_history(ctx, [("setattr", P1, key, val)] + P2P_FOLLOW, pairs, prefix=[("p2p", P2, p2p_command(0x10), False), ("rdac", P1, b"\x55\x55", False)])
            ctx.case(("key-near", key, val))
            n += 2
        for val in (False, 0, ""):
            run_history(ctx, [reg, ("setattr", P1, key, val)] + P2P_FOLLOW, pairs)
            ctx.case(("key-near-false", key, val))
            n += 1
    for val in (False, 0, "", None):
        run_history(ctx, [("setattr", P1, KEY, val)] + P2P_FOLLOW + [reg] + P2P_FOLLOW, pairs)
        run_history(ctx, [("setattr", P2, KEY, val)] + P2P_FOLLOW, pairs, prefix=[("p2p", P3, p2p_command(0x10), False)])
        ctx.case(("key-exact-false", val))
        n += 2
    ctx.count("nearmiss:key-histories", n)
    flush("handshake.key-near")
    # ---- near misses of the peer ADDRESS (the registered flag is looked up by (ip, port), the RDAC step by ip): peers whose
    # address nearly equals a registered / half-identified peer's are strangers
    n = 0
    for near in NEAR_ADDRS:
        for st in (1, 5, 13):
            pre = [("p2p", P1, p2p_command(0x10), False), ("setout", P1, ("192.0.2.9", 40000))] + [("rdac", P1, d, False) for d in drive_to(st)]
            follow = [("p2p", near, p2p_ping(16), False), ("p2p", near, p2p_command(0x11), False), ("p2p", near, p2p_command(0x12), False),
                      ("rdac", near, expected_for(st), False), ("rdac", near, expected_for(1), False), ("rdac", near, b"\x00", False),
                      ("rdac", P1, expected_for(st), False), ("p2p", P1, p2p_ping(16), False),
                      ("p2p", near, p2p_command(0x10), False), ("p2p", near, p2p_ping(16), False), ("p2p", P1, p2p_command(0x12), False)]
            run_history(ctx, follow, pairs, prefix=pre)
            ctx.case(("addr-near", near, st))
            n += 1
    ctx.count("nearmiss:address-histories", n)
    flush("handshake.addr-near")
    # ---- P2P exhaustive, extended alphabet: requests of two peers behind one IP plus one near miss of every compared value
    cmdE = (nm.cmd or [SPEC["p2pCommandPrefix"]])[0]
    pingE = (nm.ping or [SPEC["p2pPingPrefix"]])[0]
    regT = nm.gen.get("p2pTypeRegistration") if isinstance(nm.gen.get("p2pTypeRegistration"), int) else SPEC["p2pTypeRegistration"]
    regT &= 0xFF
    base = bytearray(p2p_command(regT, rid=1, length=24))
    base[0 : len(cmdE)] = cmdE
    ping = bytearray(p2p_ping(16))
    ping[4 : 4 + len(pingE)] = pingE

    def edit(b, at, new):
        b = bytearray(b)
        b[at : at + len(new)] = new
        return bytes(b)

    xs = [
        ("p2p", P1, p2p_command(0x10), False), ("p2p", P1, p2p_command(0x11), False), ("p2p", P1, p2p_command(0x12), False), ("p2p", P1, p2p_ping(16), False),
        ("p2p", P2, p2p_command(0x10), False), ("p2p", P2, p2p_ping(16), False),
        ("setattr", P1, nm.pool_keys[0] if nm.pool_keys else "p2p_is_registere", True),
    ]
    n_plain = len(xs) - 1
    for d in (
        edit(base, len(cmdE) - 1, bytes([(cmdE[-1] + 1) & 0xFF])),  # P2Q..., registration type: one octet of the prefix off
        edit(edit(base, 1, bytes(x ^ 0xFF for x in cmdE[1:])), 4, pingE),  # only the first octet of the prefix, registration type, ping prefix behind: a ping
        bytes(base[: len(cmdE) - 1]),  # ends one octet before the end of the prefix
        edit(base, 20, bytes([regT ^ 0x20])),  # registration type with one bit flipped: unknown command
        edit(edit(base, 20, b"\x00"), 19, bytes([regT])),  # the type one octet early
        bytes(base[:20]),  # the type octet is missing
        edit(ping, 4 + len(pingE) - 1, bytes([(pingE[-1] + 1) & 0xFF])),  # last octet of the ping prefix off by one
        edit(edit(ping, 4, bytes(len(pingE))), 5, pingE),  # the ping prefix one octet late
        bytes(ping[: 4 + len(pingE) - 1]),  # ends one octet before the end of the ping prefix
    ):
        xs.append(("p2p", P1, d, False))
    n = 0
    for L in range(1, 5 if ctx.thorough() else 4):
        for seq in itertools.product(range(len(xs)), repeat=L):
            if not any(i >= n_plain for i in seq):
                continue  # without a near miss: covered by the main alphabet
            run_history(ctx, [xs[i] for i in seq], pairs)
            ctx.case(("p2p-x", seq))
            n += 1
            if len(pairs) > 300000:
                flush("handshake.p2p-x")
    ctx.count("exhaustive:p2p-with-near-misses", n)
    ctx.count("exhaustive:p2p-with-near-misses:alphabet", len(xs))
    flush("handshake.p2p-x")


# ------------------------------------------------------------------------------------------------
# argument provenance: the shapes in which the transport hands over a peer address


def peer_shapes(h="fe80::1", p=50000):
    """[(name, address)]: two peers are the same peer iff their addresses are == (the storage compares address_in == address)"""
    h2 = h[:-1] + "2"
    return [
        ("tuple4", (h, p, 0, 0)),  # AF_INET6: (host, port, flowinfo, scope_id)
        ("tuple4-scope", (h, p, 0, 3)),
        ("tuple4-flow", (h, p, 7, 0)),
        ("tuple2", (h, p)),
        ("namedtuple4-scope", Addr4(h, p, 0, 3)),  # == tuple4-scope
        ("subclasses4-scope", (Str(h), Int(p), 0, 3)),  # == tuple4-scope
        ("namedtuple2", Addr2(h, p)),  # == tuple2
        ("list4", [h, p, 0, 0]),  # a list is never == a tuple
        ("list2", [h, p]),
        ("tuple3", (h, p, 0)),
        ("tuple5", (h, p, 0, 0, 0)),
        ("tuple4-port", (h, p + 1, 0, 0)),
        ("tuple4-host", (h2, p, 0, 0)),
    ]  # (a port that is no int never comes from a transport and breaks `port.to_bytes` in the DMR redirect: not a peer address)


def peer_pair_history(x, y):
    """x registers and half-identifies itself; y (nearly or exactly the same address) asks for everything; then y registers"""
    reg, ping, dmr, rdacq = p2p_command(0x10), p2p_ping(16), p2p_command(0x11), p2p_command(0x12)
    return (
        [("p2p", x, reg, False), ("setout", x, ("192.0.2.9", 40000)), ("p2p", y, ping, False), ("p2p", y, dmr, False), ("p2p", y, rdacq, False),
         ("p2p", x, ping, False), ("p2p", x, rdacq, False), ("p2p", x, dmr, False)]
        + [("rdac", x, d, False) for d in drive_to(5)]
        + [("rdac", y, expected_for(5), False), ("rdac", y, b"\x00", False), ("rdac", x, expected_for(1), False)]
        + [("p2p", y, reg, True), ("p2p", y, ping, False), ("p2p", y, reg, False), ("p2p", y, ping, False), ("p2p", x, ping, False), ("p2p", y, dmr, False)]
    )


def run_peer_shapes(ctx, pairs, flush):
    shapes = peer_shapes()
    n = 0
    for (nx, x), (ny, y) in itertools.product(shapes, repeat=2):
        run_history(ctx, peer_pair_history(x, y), pairs)
        ctx.case(("peer-shapes", nx, ny), sample={"class": "peer address shapes", "first": jaddr(x), "second": jaddr(y), "same peer": bool(x == y)} if (nx, ny) == ("tuple4", "tuple4-scope") else None)
        ctx.count("peers:pair:same-peer" if x == y else "peers:pair:different-peers")
        n += 1
    for h, p in (("10.0.0.1", 50000), ("::1", 0)):
        sh = peer_shapes(h, p)
        for (nx, x), (ny, y) in itertools.product(sh[:4], sh):
            run_history(ctx, peer_pair_history(x, y), pairs)
            ctx.case(("peer-shapes", h, nx, ny))
            n += 1
    ctx.count("peers:pair-histories", n)
    flush("handshake.peer-shapes")
    # ---- every P2P sequence up to length 3 (quick) / 4 over the requests of three IPv6 peers sharing host and port
    reg, ping, dmr, rdacq = p2p_command(0x10), p2p_ping(16), p2p_command(0x11, rid=7, length=30, fill=3), p2p_command(0x12, rid=0, length=21)
    alpha = []
    for q in PEERS6:
        alpha += [("p2p", q, reg, False), ("p2p", q, ping, False), ("p2p", q, dmr, False), ("p2p", q, rdacq, False)]
    alpha += [("p2p", Addr4(*Q2), ping, False), ("p2p", Q3, reg, False), ("p2p", Q3, ping, False), ("setout", Q1, ("192.0.2.9", 40000)), ("p2p", Q2, reg, True)]
    n = 0
    for L in range(1, (4 if ctx.thorough() else 3) + 1):
        for seq in itertools.product(range(len(alpha)), repeat=L):
            run_history(ctx, [alpha[i] for i in seq], pairs)
            ctx.case(("p2p6", seq))
            n += 1
            if len(pairs) > 300000:
                flush("handshake.p2p6")
    ctx.count("exhaustive:p2p-ipv6-peers", n)
    flush("handshake.p2p6")
    # ---- RDAC: sequences over three IPv6 peers (one step per host) from the initial state
    ralpha = [s for s in rdac_alphabet([Q1, Q2]) if s[2] != RESP_00] + [("rdac", Q0, RESP_FD, False), ("rdac", Q0, b"\x00", False)]
    n = 0
    for L in range(1, (4 if ctx.thorough() else 3) + 1):
        for seq in itertools.product(range(len(ralpha)), repeat=L):
            run_history(ctx, [ralpha[i] for i in seq], pairs)
            ctx.case(("rdac6", seq))
            n += 1
            if len(pairs) > 300000:
                flush("handshake.rdac6")
    ctx.count("exhaustive:rdac-ipv6-peers", n)
    flush("handshake.rdac6")
    # ---- random mixed histories over pools of shapes
    for i in range(ctx.budget(60, 1500)):
        pool = [Q1, Q2, Q0] + ctx.rng.sample([a for _, a in shapes], 3)
        seq = [random_sym(ctx.rng, None, pool) for _ in range(ctx.rng.choice([10, 40, 120]))]
        run_history(ctx, seq, pairs)
        ctx.case(("random6", i, str(seq[:4])))
        if len(pairs) > 300000:
            flush("handshake.random6")
    flush("handshake.random6")


# ------------------------------------------------------------------------------------------------
# library sentinels, default values and the literals of the CURRENT source, used as inputs (round 4).  Nothing here is a
# fixed list: the values are read at run time from the tree under test (the handlers', the storage's and the record's
# source with `ast`, their module / class constants, signature defaults and the members of freshly created records) and
# become peer addresses, attribute keys, attribute values and datagram contents.

_IDENT = re.compile(r"[A-Za-z0-9_.\-]+")


def _simple(v) -> bool:
    if v is None or type(v) in (bool, int, str, bytes):
        return True
    return type(v) is tuple and all(_simple(x) for x in v)


def is_addr(v) -> bool:
    return type(v) is tuple and len(v) >= 2 and type(v[0]) is str and all(type(x) is int and x >= 0 for x in v[1:])


def _lit_hash(v) -> str:
    import hashlib

    return hashlib.sha1(repr(v).encode()).hexdigest()[:10]


# the literals of the five anchored files as they were when this check was last reviewed (sha1 of repr, 10 hex digits).  A
# literal of the current source that is NOT in here came with a change: it is tried first and in every role it can play
# (host, port, octet, key, value, datagram content, identification field) - see Harvest.fresh_*
BASELINE_LITERALS = frozenset("""
00c5608161 0487111053 0716d9708d 09d590a5ab 0ade7c2cf9 0bad865a02 0fe9d1befc 10a25c7213 114d4eefde 1219ad2457
12c6fc06c9 13dc215e0b 14287ecb66 1574bddb75 15c5bc6a63 17503a6b23 17ba079149 18102ecf93 1a013f464d 1a3a4c390b
1b64538924 1cc6419540 1efd4d8b20 21239b7e82 212bf2b133 2283bb3d11 22dd0956b1 2731c1c35f 2856731fb4 293b1ec68e
29f5255dc0 2a45938070 2a7541babb 2d0c8af807 2ee9c46b50 2ef8126078 2fd6438d84 3028f51407 310b86e0b6 3167bd7b40
356a192b79 365e738e3e 36d073dae7 37cad8164d 39559af8ad 3a9e32cd54 3f9ca0ebac 400c0e4a6d 4197880fbc 450ddec8dd
472b07b9fc 4904e6851b 4a24520021 4afa8f9e90 4c15dc21c9 4d134bc072 4dea1daedb 4f16020077 5193e6c709 5452f8c795
54ceb91256 584130e068 5b1d17d855 5b95d362ba 5c7322c10c 5d098d4383 5e796e4833 5f1cd7c3fb 5f83d7a27f 6052521b76
6b6277afcb 6e6ed6e8f5 6fb84aed32 752ae7bdbb 7719a1c782 775bc5c30e 77a9e48d59 77de68daec 7aa38731e6 7b4deb8440
7b52009b64 7e9d9fc4cc 812ed4562d 86858728ca 87d538ef1c 887309d048 88ad0bc928 902ba3cda1 91032ad7bb 91dfde1d6e
94b8eeebdb 95c9e7d062 99bff373e8 9a15f42d1c 9d342719fd 9d8974badd 9e6a55b6b4 a1ac1116dc a1e52b3946 a763f0459d
ac3478d69a ac5966e711 aebd5ff7da b0bd9e02ed b16e07a5fd b1d5781111 b1f9dc9956 b37f6ddcef b49b6d7db1 b4be52e053
b6589fc6ab b6692ea5df b6ee60926c b888b29826 ba30fd97b4 bcf814ab41 bd307a3ec3 be057d4ca4 c1dfd96eea c2d4c5452f
c9f13c1614 ca90908f68 cae91e45ae cb4e5208b4 cb7a1d775e cc47de6971 cdbfc6c4b5 ce38c6faff cfe21c6800 d6e3de36b0
d8dfee6d6e da4b9237ba db01dca2f3 dcac9006f9 e1822db470 e2154fea5d e43b70df8c e62d7f1eb4 e71533ebbf e755eddc5d
e82068504f efa6e44dfa f17198b443 f1abd67035 f2ef873299 f69359d9bd f6e1126ced f7a6a12988 f8c88086ab fa35e19212
fe5dbbcea5 ff42f8731d
""".split())


class Harvest:
    """what the anchored code itself contains or defaults to:
    strings / ints / bytes_ / tuples : every literal of the current source of the five anchored files (ast)
    defaults                        : (owner, name, value) of module constants, class constants, signature defaults
    record_defaults                 : member -> value of a freshly created / auto-created Repeater (the UNSET values)"""

    PINNED_EMPTY = ("", 0)  # ADDRESS_EMPTY as the property was read; the live constant is harvested on top of it

    def __init__(self):
        self.strings, self.ints, self.bytes_, self.tuples, self.defaults = [], [], [], [], []
        self.record_defaults, self.errors, self.files = {}, [], 0
        try:
            self._read()
        except Exception as e:  # noqa  (a tree that cannot be introspected: the pinned values remain)
            self.errors.append(impl_error(e))
        self._derive()

    @staticmethod
    def _add(lst, v):
        for x in lst:
            if type(x) is type(v) and x == v:
                return
        lst.append(v)

    def _read(self):
        import ast
        import inspect

        import okdmr.dmrlib.protocols.hytera.p2p_datagram_protocol as pmod
        import okdmr.dmrlib.protocols.hytera.rdac_datagram_protocol as dmod
        import okdmr.dmrlib.storage as spkg
        import okdmr.dmrlib.storage.repeater as rmod
        import okdmr.dmrlib.storage.repeater_storage as smod

        mods = [spkg, rmod, smod, pmod, dmod]
        for m in mods:
            try:
                tree = ast.parse(open(inspect.getsourcefile(m), encoding="utf-8").read())
                self.files += 1
            except Exception as e:  # noqa
                self.errors.append(impl_error(e))
                continue
            for n in ast.walk(tree):
                if isinstance(n, ast.Constant):
                    v = n.value
                    if type(v) is str:
                        self._add(self.strings, v)
                    elif type(v) is int:
                        self._add(self.ints, v)
                    elif type(v) is bytes:
                        self._add(self.bytes_, v)
                    elif type(v) is float and v == int(v):
                        self._add(self.ints, int(v))
                elif isinstance(n, (ast.Tuple, ast.List, ast.UnaryOp)):
                    try:
                        v = ast.literal_eval(n)
                    except Exception:  # noqa
                        continue
                    if type(v) is int:
                        self._add(self.ints, v)
                    elif type(v) in (tuple, list) and _simple(tuple(v)):
                        self._add(self.tuples, tuple(v))
        classes = [pmod.P2PDatagramProtocol, dmod.RDACDatagramProtocol, smod.RepeaterStorage, rmod.Repeater]
        for owner in mods + classes:
            for name, v in list(vars(owner).items()):
                if name.startswith("__"):
                    continue
                if type(v) is list:
                    v = tuple(v)
                if _simple(v) and v is not None and type(v) is not bool:
                    self._add(self.defaults, (getattr(owner, "__name__", str(owner)).rsplit(".", 1)[-1], name, v))
        for cls in classes:
            for name, fn in list(vars(cls).items()):
                fn = getattr(fn, "__func__", fn)
                if not callable(fn):
                    continue
                try:
                    params = inspect.signature(fn).parameters.values()
                except (TypeError, ValueError):
                    continue
                for p in params:
                    if p.default is not inspect.Parameter.empty and _simple(p.default):
                        self._add(self.defaults, (f"{cls.__name__}.{name}", p.name, p.default))
        # the unset values: members of a record nobody configured (direct, through the factory, auto-created)
        probe = ("192.0.2.77", 7)
        st = smod.RepeaterStorage()
        for rec in (rmod.Repeater(), st.create_repeater(), st.match_incoming(probe, auto_create=True)):
            for name, v in vars(rec).items():
                name = name.replace("_Repeater__", "")
                if _simple(v) and v != probe:
                    self.record_defaults.setdefault(name, [])
                    self._add(self.record_defaults[name], v)
        self.members = [n for n in vars(rmod.Repeater())]
        self.non_data = [n for n in dir(rmod.Repeater()) if n not in FIELDS]

    def _derive(self):
        members = getattr(self, "members", [])
        non_data = set(getattr(self, "non_data", [])) | {"logger", "_Repeater__attrs"}
        vals = list(self.tuples) + [v for _, _, v in self.defaults] + [v for vs in self.record_defaults.values() for v in vs]
        # ---- addresses
        self.addrs = [self.PINNED_EMPTY]
        for v in vals:
            if is_addr(v):
                self._add(self.addrs, v)
        self.default_ports = []
        for owner, name, v in self.defaults:
            if type(v) is int and "port" in name.lower() and 0 <= v < 65536:
                self._add(self.default_ports, v)
        for a in self.addrs:
            self._add(self.default_ports, a[1])
        for p in (50000, 50002):  # as pinned in proto_pinned
            self._add(self.default_ports, p)
        self.addr_members = [n for n, vs in self.record_defaults.items() if any(is_addr(v) for v in vs) and n != "address_in"] or ["address_out", "address_nat"]
        short = [s for s in self.strings if len(s) <= 17 and "\n" not in s]
        # literals that came with a change of the source (not in the reviewed baseline)
        self.fresh_strings = [s for s in self.strings if _lit_hash(s) not in BASELINE_LITERALS]
        self.fresh_ints = [i for i in self.ints if _lit_hash(i) not in BASELINE_LITERALS]
        self.fresh_tuples = [t for t in self.tuples if _lit_hash(t) not in BASELINE_LITERALS]
        self.fresh_bytes = [b for b in self.bytes_ if _lit_hash(b) not in BASELINE_LITERALS]
        ports_extra = [i for i in self.ints if 256 <= i < 65536] + [i for i in self.fresh_ints if 0 <= i < 256]
        core = []
        for a in self.addrs:
            core += [a, a + (0, 0), (a[0], a[1] + 1), (a[0] + " ", a[1]), (a[0] + "0", a[1]), a + (0,)]
        for h in [a[0] for a in self.addrs] + [P1[0], P3[0]]:
            for p in self.default_ports:
                core.append((h, p))
        for p in ports_extra:  # every larger int literal (and every NEW small one) as a source port
            core += [(P1[0], p), (self.addrs[0][0], p)]
        for sfx in self.fresh_strings:  # every NEW string literal as a host (its text, and as a prefix / suffix of a peer's)
            if len(sfx) <= 40:
                core += [(sfx, P1[1]), (sfx, 0), (P1[0] + sfx, P1[1]), (sfx + P1[0], P1[1])]
        for t in self.fresh_tuples:  # a NEW tuple literal whose elements could be (host, port ...)
            if is_addr(t):
                core += [t, (t[0], P1[1]), (P1[0], t[1])]
        self.peers_core = []
        for a in core:
            if a not in PEERS:
                self._add(self.peers_core, a)
        self.peers_more = []
        for s in short:
            for p in self.default_ports[:2] + [0]:
                if (s, p) not in PEERS and (s, p) not in self.peers_core:
                    self._add(self.peers_more, (s, p))
        # ---- attribute names: every identifier-like literal and every data member, but not what envOk excludes (id,
        # address_in; the is-registered key itself is followed by the oracle and has its own section) and not a name that
        # would replace a method / the private dict of the record (no data member: outside the storage model)
        self.keys = []
        for k in list(FIELDS) + list(members) + self.strings:
            if type(k) is str and _IDENT.fullmatch(k) and len(k) <= 40 and k not in ("id", "address_in", SPEC["p2pIsRegisteredKey"]) and k not in non_data:
                self._add(self.keys, k)
        # ---- attribute values
        self.values = [None, True, False]
        for v in self.fresh_strings + self.fresh_ints + self.fresh_tuples + self.addrs + self.peers_core[:6] + [s for s in short if len(s) <= 12] + [i for i in self.ints if 0 <= i <= 65536][:24] + [t for t in self.tuples if len(t) <= 5]:
            self._add(self.values, v)
        for vs in self.record_defaults.values():
            for v in vs:
                self._add(self.values, v)
        # ---- datagram contents
        dgs = []

        def dg(tag, b):
            if all(b != x for _, x in dgs):
                dgs.append((tag, bytes(b)))

        for b in self.bytes_:
            dg("bytes-literal", b)
        for owner, name, v in self.defaults:
            if type(v) is bytes:
                dg(f"const:{name}", v)
            elif type(v) is tuple and v and all(type(x) is int and 0 <= x < 256 for x in v):
                dg(f"const:{name}", bytes(v))
        for t in self.tuples:
            if t and all(type(x) is int and 0 <= x < 256 for x in t):
                dg("int-list-literal", bytes(t))
        for s in self.strings:
            if len(s) <= 40:
                dg("str-literal", s.encode("utf-8", "surrogatepass"))
                dg("str-literal-utf16", s.encode("utf_16_le", "surrogatepass"))
        for i in self.ints:
            if 0 <= i < 256:
                dg(f"int-literal:{i}", bytes([i]))
            elif 0 <= i < 65536:
                dg("int-literal-le16", i.to_bytes(2, "little"))
                dg("int-literal-be16", i.to_bytes(2, "big"))
            if 1 < i <= 300:
                dg(f"int-literal-zeros:{i}", bytes(i))  # `bytes(n)`: n NUL octets
        self.datagrams = dgs
        self.octets = [i for i in self.ints if 0 <= i < 256]


def sentinel_states(S, hv):
    """registration states seen from a source address S that never registered: who holds the FIRST record of the storage,
    and whether that record completed registration"""
    reg = p2p_command(0x10)
    other = ("10.0.0.9", 50000)
    nat_member = hv.addr_members[-1]
    return [
        ("fresh", []),
        ("first-registered", [("p2p", P1, reg, False)]),
        ("first-registered,second-known", [("p2p", P1, reg, False), ("rdac", P3, b"\x55\x55", False)]),
        ("first-known,second-registered", [("rdac", P1, b"\x55\x55", False), ("p2p", P3, reg, False)]),
        ("first-failed-snmp,second-registered", [("p2p", P1, reg, True), ("p2p", P3, reg, False)]),
        ("first-registered-with-addresses", [("p2p", P1, reg, False), ("setout", P1, ("192.0.2.9", 40000)), ("setattr", P1, nat_member, other)]),
        ("all-three-registered", [("p2p", P1, reg, False), ("p2p", P2, reg, False), ("p2p", P3, reg, False)]),
    ]


def sentinel_sections(ctx, hv, nm, pairs, flush):
    reg, ping, dmr, rdacq = p2p_command(0x10), p2p_ping(16), p2p_command(0x11, rid=7, length=30, fill=3), p2p_command(0x12, rid=0, length=21)
    thorough = ctx.thorough() or ctx.boost > 1
    ctx.count("harvest:files-read", hv.files)
    ctx.count("harvest:string-literals", len(hv.strings))
    ctx.count("harvest:int-literals", len(hv.ints))
    ctx.count("harvest:tuple-literals", len(hv.tuples))
    ctx.count("harvest:constants-and-defaults", len(hv.defaults))
    ctx.count("harvest:record-default-members", len(hv.record_defaults))
    ctx.count("harvest:address-shaped-values", len(hv.addrs))
    ctx.count("harvest:attribute-names", len(hv.keys))
    ctx.count("harvest:datagram-contents", len(hv.datagrams))
    ctx.count("harvest:literals-not-in-the-reviewed-baseline", len(hv.fresh_strings) + len(hv.fresh_ints) + len(hv.fresh_tuples) + len(hv.fresh_bytes))
    if hv.errors:
        ctx.count("harvest:errors", len(hv.errors))
    more = list(hv.peers_more)
    ctx.rng.shuffle(more)
    sentinels = hv.peers_core + more[: (len(more) if thorough else 4)]
    # ---- 1. every sequence up to length 2 (quick) / 3 over the requests of ONE sentinel source S (plus a ping of the first
    # peer and an RDAC datagram of S, which auto-creates S's record), after every registration state of the storage
    n = 0
    for S in sentinels:
        alpha = [("p2p", S, ping, False), ("p2p", S, dmr, False), ("p2p", S, rdacq, False), ("p2p", S, reg, False),
                 ("p2p", P1, ping, False), ("rdac", S, b"\x55\x55", False)]
        for sname, pre in sentinel_states(S, hv):
            for L in range(1, (3 if thorough else 2) + 1):
                for seq in itertools.product(range(len(alpha)), repeat=L):
                    run_history(ctx, [alpha[i] for i in seq], pairs, prefix=pre)
                    ctx.case(("sentinel", S, sname, seq), sample={"class": "library sentinel as source address", "source": jaddr(S), "state": sname, "requests": [sym_json(alpha[i]) for i in seq]} if (S, sname, seq) == (Harvest.PINNED_EMPTY, "first-registered", (0, 3)) else None)
                    n += 1
            if len(pairs) > 300000:
                flush("handshake.sentinel")
    ctx.count("sentinel:source-addresses", len(sentinels))
    ctx.count("sentinel:exhaustive-after-state", n)
    flush("handshake.sentinel")
    # ---- 1b. handlers configured with OTHER ports: sources whose port is the configured P2P / RDAC port, or the default one
    cfg_ports = (62000, 65535)
    n = 0
    for S in [(P1[0], cfg_ports[0]), (P1[0], cfg_ports[1]), (hv.addrs[0][0], cfg_ports[0]), (hv.addrs[0][0], cfg_ports[1]), hv.addrs[0], (P3[0], (hv.default_ports or [50000])[0])]:
        alpha = [("p2p", S, ping, False), ("p2p", S, dmr, False), ("p2p", S, rdacq, False), ("p2p", S, reg, False), ("p2p", P1, ping, False), ("p2p", P1, dmr, False)]
        for sname, pre in sentinel_states(S, hv):
            for L in (1, 2):
                for seq in itertools.product(range(len(alpha)), repeat=L):
                    run_history(ctx, [alpha[i] for i in seq], pairs, ports=cfg_ports, prefix=pre)
                    ctx.case(("sentinel-ports", S, sname, seq))
                    n += 1
    ctx.count("sentinel:other-configured-ports", n)
    flush("handshake.sentinel-ports")
    # ---- 1c. a sentinel source runs the whole RDAC identification (its host may be '' or a literal) while the first peer is in
    # the middle of its own: each run advances on its own responses only and completes once
    n = 0
    for S in sentinels:
        if S[0] == P1[0]:
            continue  # the step table is per host: a source behind the first peer's IP shares its run (corpus, exhaustive RDAC)
        h = [("p2p", P1, reg, False)] + [("rdac", P1, d, False) for d in drive_to(5)]
        for st in STEP_ORDER[:-1]:
            h += [("rdac", S, expected_for(st), False)]
            if st in (3, 8):
                h += [("rdac", P1, expected_for(st), False), ("p2p", S, ping, False)]
        h += [("rdac", S, RESP_FA, False), ("rdac", S, b"\x00", False), ("rdac", P1, expected_for(5), False), ("p2p", S, rdacq, False), ("p2p", P1, rdacq, False)]
        run_history(ctx, h, pairs)
        ctx.case(("sentinel-rdac", S))
        n += 1
    ctx.count("sentinel:rdac-identification-by-a-sentinel-source", n)
    flush("handshake.sentinel-rdac")
    # ---- 2. every P2P sequence up to length 3 / 4 from the INITIAL state over the requests of the first peer and of the
    # sentinel sources (the sentinel may itself be the first record)
    S0 = hv.addrs[0]
    S1 = hv.addrs[-1] if hv.addrs[-1] != S0 else (S0[0], (hv.default_ports or [50000])[0])
    alpha = []
    for p in (P1, S0):
        alpha += [("p2p", p, reg, False), ("p2p", p, ping, False), ("p2p", p, dmr, False), ("p2p", p, rdacq, False)]
    alpha += [("p2p", S1, ping, False), ("p2p", S1, reg, False), ("p2p", P1, reg, True), ("setattr", P1, hv.addr_members[-1], S1)]
    n = 0
    for L in range(1, (4 if thorough else 3) + 1):
        for seq in itertools.product(range(len(alpha)), repeat=L):
            run_history(ctx, [alpha[i] for i in seq], pairs)
            ctx.case(("sentinel-x", seq))
            n += 1
            if len(pairs) > 300000:
                flush("handshake.sentinel-x")
    ctx.count("sentinel:exhaustive-from-init", n)
    flush("handshake.sentinel-x")
    # ---- 3. a value stored in ANOTHER member / attribute of a record is used as a source address: the application (or the
    # RDAC payload) wrote X under key K of the first peer's record; X never registered and stays a stranger
    strangers = [P3, P2, S0, ("10.0.0.9", 50000), ("10.0.0.1", 50000, 0, 0), Addr2("10.0.0.8", 50000)]  # (stored as a namedtuple, == the plain tuple that asks)
    keys = list(hv.addr_members) + [k for k in hv.keys if k not in hv.addr_members]
    if not thorough:
        rest = [k for k in keys if k not in hv.addr_members and k not in FIELDS]
        ctx.rng.shuffle(rest)
        fresh = [k for k in rest if k in hv.fresh_strings]
        keys = list(hv.addr_members) + [k for k in FIELDS if k in hv.keys and k not in hv.addr_members] + fresh + [k for k in rest if k not in fresh][:8]
    n = 0
    for K in keys:
        for X in strangers:
            for sname, pre in (("first-registered", [("p2p", P1, reg, False)]), ("first-known", [("rdac", P1, b"\x55\x55", False)]),
                               ("second-registered", [("p2p", ("10.0.0.7", 50000), reg, True), ("p2p", P1, reg, False)])):
                A = tuple(X)  # who asks: the plain tuple
                follow = [("setattr", P1, K, X), ("p2p", A, ping, False), ("p2p", A, dmr, False), ("p2p", A, rdacq, False), ("rdac", A, b"\x55\x55", False),
                          ("p2p", A, ping, False), ("p2p", P1, ping, False), ("p2p", P1, rdacq, False), ("p2p", A, reg, False), ("p2p", A, ping, False), ("p2p", P1, dmr, False)]
                run_history(ctx, follow, pairs, prefix=pre)
                ctx.case(("attr-as-address", K, X, sname), sample={"class": "stored attribute value used as source address", "key": K, "value": jaddr(X), "state": sname} if (K, X, sname) == (hv.addr_members[-1], P3, "first-registered") else None)
                n += 1
    ctx.count("sentinel:attribute-names-used", len(keys))
    ctx.count("sentinel:attr-value-as-address-histories", n)
    flush("handshake.attr-as-address")
    # ---- 4. harvested values under harvested keys (and under the is-registered key: the application's own decision, followed
    # by the oracle) never change who is served
    KEY = SPEC["p2pIsRegisteredKey"]
    n = 0
    vals = list(hv.values)
    if not thorough:
        ctx.rng.shuffle(vals)
        nfresh = len(hv.fresh_strings) + len(hv.fresh_ints) + len(hv.fresh_tuples)
        vals = hv.values[3 : 3 + nfresh] + [v for v in hv.values[3 + nfresh :] if is_addr(v)][:4] + vals[:10]
    for v in vals:
        for K in [KEY] + ctx.rng.sample(keys, min(3, len(keys))):
            run_history(ctx, [("setattr", P1, K, v)] + P2P_FOLLOW + [("p2p", P1, reg, False), ("setattr", P1, K, v)] + P2P_FOLLOW + [("p2p", P3, ping, False)], pairs)
            run_history(ctx, [("setattr", P3, K, v)] + P2P_FOLLOW + [("p2p", P3, ping, False)], pairs, prefix=[("p2p", P1, reg, False)])
            ctx.case(("sentinel-value", K, repr(v)))
            n += 2
    ctx.count("sentinel:attribute-value-histories", n)
    flush("handshake.sentinel-values")
    # ---- 5. the literals as datagram contents: alone (as they stand), at the offsets the handlers read (octet 20 = packet
    # type, octet 4 = repeater id, 4..8 = ping prefix, 0.. = command prefix / RDAC response prefix), to both handlers, from a
    # registered and from an unknown peer / at several RDAC steps; the run goes on as if nothing had happened
    n = 0
    dgs = list(hv.datagrams)
    for i in hv.octets:
        dgs.append((f"type-octet:{i}", p2p_command(i, rid=1)))
        dgs.append((f"id-octet:{i}", p2p_command(0x10 if i % 2 else 0x12, rid=i)))
    for tag, b in hv.datagrams:
        if 2 <= len(b) <= 12:
            d = bytearray(p2p_ping(16))
            d[4 : 4 + len(b)] = b
            dgs.append((tag + "@4", bytes(d[:24])))
            dgs.append((tag + "+body", b + LONG_00[len(b):]))
    if not thorough:
        sampled = lambda x: x[0].startswith(("type-octet", "id-octet", "int-literal:", "int-literal-zeros")) and not any(x[0].endswith(f":{i}") for i in hv.fresh_ints)  # noqa: E731
        keep = [x for x in dgs if not sampled(x)]
        rest = [x for x in dgs if sampled(x)]
        ctx.rng.shuffle(rest)
        dgs = keep + rest[:60]
    steps = STEP_ORDER if thorough else [0, 1, 3, 6, 13, 14]
    for j, (tag, d) in enumerate(dgs):
        for sname, pre in (("fresh", []), ("registered", [("p2p", P1, reg, False), ("p2p", P3, reg, False)])):
            run_history(ctx, [("p2p", P1, d, j % 4 == 0)] + P2P_FOLLOW, pairs, prefix=pre)
            n += 1
        st = steps[j % len(steps)]
        tail = [("rdac", P1, expected_for(st), False)]
        run_history(ctx, [("rdac", P1 if j % 3 else P2, d, False)] + tail, pairs, prefix=[("rdac", P1, x, False) for x in drive_to(st)])
        n += 1
        ctx.case(("literal-datagram", tag, d.hex()[:40]))
        ctx.count(f"sentinel:datagram:{tag.split(':')[0].split('@')[0].split('+')[0]}")
        if len(pairs) > 300000:
            flush("handshake.literal-datagrams")
    ctx.count("sentinel:literal-datagram-histories", n)
    flush("handshake.literal-datagrams")
    # ---- 6. the UNSET values inside the RDAC identification payload: two peers (the first one registered) identify with
    # bodies whose fields are the defaults of a record / harvested strings (equal for both); each stays who it is
    strs = [""] + [s for s in hv.fresh_strings if 0 < len(s) <= 16] + [s for s in hv.strings if 0 < len(s) <= 10 and "\n" not in s and s not in hv.fresh_strings][: (12 if thorough else 3)]
    ids = [0] + [i for i in hv.fresh_ints if 0 < i < (1 << 24)] + [i for i in hv.ints if 0 < i < (1 << 24)][-2:]
    n = 0
    for s in strs:
        for dmr_id in ids:
            body = rdac_body(RESP_00, callsign=s, hardware=s, firmware=s, serial=s, dmr_id=dmr_id, tx=0, rx=0)

            def run_of(peer, upto):
                return [("rdac", peer, body if expected_for(st) is LONG_00 else expected_for(st), False) for st in STEP_ORDER[: STEP_ORDER.index(upto)]]

            h = [("p2p", P1, reg, False)] + run_of(P1, 11) + run_of(P3, 11) + [("p2p", P3, ping, False), ("p2p", P3, dmr, False), ("p2p", P1, ping, False), ("p2p", P1, rdacq, False)]
            h += [("rdac", P3, expected_for(st), False) for st in (11, 12, 13)] + [("p2p", P3, rdacq, False), ("p2p", P1, dmr, False)]
            run_history(ctx, h, pairs)
            ctx.case(("rdac-default-fields", s, dmr_id))
            n += 1
    ctx.count("sentinel:rdac-bodies-with-default-field-values", n)
    flush("handshake.rdac-default-fields")


# ------------------------------------------------------------------------------------------------
# scale: many distinct peers on ONE handler instance (step table / registered flags have no bound)


def spec_next(before, data):
    """the step after a datagram, read off the pinned protocol constants (no exception expected)"""
    if len(data) == 1 and before != 14:
        return 1
    if before == 14:
        return 14
    if before == 0:
        return 1
    e = SPEC_RESP.get(before)
    nxt = {1: 2, 2: 3, 3: 4, 4: 5, 5: 6, 6: 7, 7: 8, 8: 10, 10: 11, 11: 12, 12: 13, 13: 14}
    return nxt[before] if e is not None and data[: len(e)] == e else before


SCALE_SHAPES = {
    "ips": lambda i: (f"10.{(i >> 16) & 255}.{(i >> 8) & 255}.{i & 255}", 50000 + i % 3),
    # AF_INET6 peers: four neighbours share host and port and differ in the scope id
    "ips6": lambda i: (f"fe80::{(i >> 2) >> 16:x}:{(i >> 2) & 0xFFFF:x}", 50000, 0, i & 3),
}


def checkpoint(k) -> bool:
    return k % 1024 in (0, 1) or (k & (k - 1)) == 0 or ((k + 1) & k) == 0 or ((k - 1) & (k - 2)) == 0


def scale_rdac_events(shape, n, salt):
    """yields (peer index, datagram): six early peers (two finish, one stops at step 13, one at 6, one at 1, one silent), then
    n - 6 further distinct source addresses sending one datagram each (every 97th a second one, every 1009th the whole
    identification), then the early peers and a sample of old / new peers again"""
    rng = __import__("random").Random(f"scale-rdac:{shape}:{n}:{salt}")
    for i in (0, 1):
        for d in drive_to(14):
            yield i, d
    for i, st in ((2, 13), (3, 6), (4, 1)):
        for d in drive_to(st):
            yield i, d
    for i in range(6, n):
        yield i, b"\x55\x55"
        if i % 1009 == 7:
            for d in drive_to(14)[1:]:
                yield i, d
        elif i % 97 == 5:
            yield i, RESP_FD
    # the early peers again: finished ones must stay finished (no second completion), unfinished ones go on where they were
    for d in [RESP_FA, b"\x00", b"\x55\x55"] + drive_to(14):
        yield 0, d
    yield 1, RESP_FA
    yield 2, RESP_FA  # completes now, once
    yield 2, RESP_FA
    for st in STEP_ORDER[STEP_ORDER.index(6) : -1]:
        yield 3, expected_for(st)
    yield 4, RESP_10
    yield 5, b"\x01"
    for i in [6, 7, n - 1, n - 2] + [rng.randrange(6, n) for _ in range(64)]:
        yield i, RESP_FD
        yield i, RESP_10


def run_scale_rdac(ctx, shape, n, salt, indexed, upto=None):
    """O(1) checks per datagram (step of the sender, size of the step table, completion exactly on 13 -> 14 and once per
    host, destinations), the whole step table against a mirror at checkpoints (powers of two +-1, every 1024 peers, the end)"""
    addr = SCALE_SHAPES[shape]
    sut = Sut(indexed=indexed)
    mirror, done, failure, t = {}, {}, None, 0
    try:
        for t, (i, data) in enumerate(scale_rdac_events(shape, n, salt)):
            if upto is not None and t > upto:
                break
            a = addr(i)
            ip = a[0]
            before = mirror.get(ip, 0)
            events, exc = sut.rx_light("rdac", a, data)
            want = spec_next(before, data)
            mirror[ip] = want
            got = sut.rdac.step.get(ip)
            cbs = [e[1] for e in events if e[0] == "cb"]
            if exc is not None:
                failure = ("rdac-unexpected-exception", f"delivery {t}: datagram_received raised {type(exc).__name__} with {len(mirror)} peers in the step table", None, impl_error(exc))
            elif got != want:
                failure = ("rdac-isolation" if before and not got else "rdac-step", f"delivery {t}: step of {ip} (peer #{i} of {len(mirror)}) went {before} -> {got}", want, got)
            elif len(sut.rdac.step) != len(mirror):
                failure = ("rdac-isolation", f"delivery {t} from {ip}: the step table holds {len(sut.rdac.step)} peers, {len(mirror)} distinct source hosts have talked to the handler (steps of other peers were dropped)", len(mirror), len(sut.rdac.step))
            elif len(cbs) != (1 if before == 13 and want == 14 else 0):
                failure = ("rdac-completion", f"delivery {t}: completion callback does not coincide with the step of {ip} going 13 -> 14", int(before == 13 and want == 14), len(cbs))
            elif any(e[0] == "send" and e[2] != a for e in events):
                failure = ("rdac-destination", f"delivery {t}: a request was sent to another address than the peer's", cval(a), None)
            if cbs and not failure:
                done[ip] = done.get(ip, 0) + 1
                if done[ip] > 1:
                    failure = ("rdac-completion", f"delivery {t}: completion reported {done[ip]} times for {ip} ({len(mirror)} peers)", 1, done[ip])
            if not failure and checkpoint(len(mirror)) and before == 0:
                if dict(sut.rdac.step) != mirror:
                    bad = [k for k in mirror if sut.rdac.step.get(k) != mirror[k]][:4]
                    failure = ("rdac-isolation", f"delivery {t}: with {len(mirror)} peers the steps of {bad} differ from what their own datagrams imply", [mirror[k] for k in bad], [sut.rdac.step.get(k) for k in bad])
            if failure:
                break
        if not failure and upto is None and dict(sut.rdac.step) != mirror:
            bad = [k for k in mirror if sut.rdac.step.get(k) != mirror[k]][:4]
            failure = ("rdac-isolation", f"at the end ({len(mirror)} peers) the steps of {bad} differ from what their own datagrams imply", [mirror[k] for k in bad], [sut.rdac.step.get(k) for k in bad])
        if not failure and upto is None and len(sut.storage) != n:
            failure = ("rdac-storage-local", f"one record per source address after {n} distinct addresses", n, len(sut.storage))
        if ctx is not None:
            ctx.count(f"scale:rdac:{shape}:{'indexed' if indexed else 'plain'}-storage:peers", len(mirror))
            ctx.count("scale:rdac:deliveries", t + 1)
            ctx.hist["scale:rdac:peers-max"] = max(len(mirror), ctx.hist.get("scale:rdac:peers-max", 0))
            ctx.case(("scale-rdac", shape, n, salt, indexed), sample={"class": "scale", "handler": "rdac", "shape": shape, "peers": len(mirror), "deliveries": t + 1, "indexed storage": indexed})
            if failure:
                ctx.count(f"oracle-failure:{failure[0]}")
                ctx.fail(failure[0], {"stream": "scale-rdac", "shape": shape, "n": n, "salt": salt, "indexed": indexed, "upto": t}, failure[1], expected=failure[2], actual=failure[3])
        return failure
    finally:
        sut.close()


def scale_p2p_events(shape, n, salt):
    """yields (peer index, kind, snmp_fails): every third peer registers (every 21st of them with a failing SNMP read: answered,
    not registered), then every peer pings; then old / new / sampled peers send start-up requests and register late"""
    rng = __import__("random").Random(f"scale-p2p:{shape}:{n}:{salt}")
    for i in range(n):
        if i % 3 == 0:
            yield i, "reg", i % 21 == 9
        elif i % 50 == 1:
            yield i, "ping", False
    for i in range(n):
        yield i, "ping", False
    for i in [0, 1, 2, 3, 4, n - 1, n - 2, n - 3] + [rng.randrange(n) for _ in range(96)]:
        yield i, rng.choice(["dmr", "rdacq"]), False
        if i % 3 == 1:
            yield i, "reg", False
            yield i, "ping", False
            yield i + 1 if i + 1 < n else 0, "ping", False


def run_scale_p2p(ctx, shape, n, salt, indexed, upto=None):
    addr = SCALE_SHAPES[shape]
    sut = Sut(indexed=indexed)
    data = {"reg": p2p_command(0x10), "ping": p2p_ping(16), "dmr": p2p_command(0x11), "rdacq": p2p_command(0x12)}
    registered, failure, t = set(), None, 0
    try:
        for t, (i, kind, snmp_fails) in enumerate(scale_p2p_events(shape, n, salt)):
            if upto is not None and t > upto:
                break
            a = addr(i)
            events, exc = sut.rx_light("p2p", a, data[kind], snmp_fails)
            sends = [(e[1], e[2]) for e in events if e[0] == "send"]
            what = f"delivery {t}: {kind} from peer #{i} {a} with {len(registered)} registered peers, {len(sut.storage)} records"
            if kind == "reg":
                if len(sends) != 1 or (exc is None) == snmp_fails:
                    failure = ("p2p-registration-answer", what + ": not answered by exactly one datagram / wrong outcome", 1, len(sends))
                elif exc is None:
                    registered.add(a)
            elif a not in registered:
                if sends != [(b"\x00", a)] or exc is not None:
                    failure = ("p2p-unregistered-not-rejected", what + ": a request from an unregistered source was not answered by the single-byte reject to the requester", [("00", cval(a))], [(d.hex(), cval(x)) for d, x in sends])
            else:
                tuple_error = kind != "ping" and not is_pair(a)  # the eagerly formatted log line, after the acceptance
                want = 1 if kind == "ping" or tuple_error else 2
                dest = {"ping": a, "dmr": (a[0], sut.p2p_port), "rdacq": ("", 0)}[kind]
                if (b"\x00", a) in sends:
                    failure = ("p2p-registered-rejected", what + ": a request from a registered source was rejected", None, None)
                elif len(sends) != want or any(x != dest for _, x in sends) or (type(exc).__name__ != ("TypeError" if tuple_error else "NoneType")):
                    failure = ("p2p-answer-count", what + ": not answered as specified", [want, cval(dest)], [(d.hex(), cval(x)) for d, x in sends] + [impl_error(exc) if exc else "ok"])
            if failure:
                break
        if not failure and upto is None:
            flags = {o.address_in for o in sut.storage.all() if o.attr(SPEC["p2pIsRegisteredKey"])}
            if flags != registered:
                odd = list(flags ^ registered)[:4]
                failure = ("p2p-request-changed-state", f"at the end the registered flags differ from the completed registrations for {odd}", len(registered), len(flags))
        if ctx is not None:
            ctx.count(f"scale:p2p:{shape}:{'indexed' if indexed else 'plain'}-storage:peers", n)
            ctx.count("scale:p2p:deliveries", t + 1)
            ctx.hist["scale:p2p:peers-max"] = max(n, ctx.hist.get("scale:p2p:peers-max", 0))
            ctx.case(("scale-p2p", shape, n, salt, indexed), sample={"class": "scale", "handler": "p2p", "shape": shape, "peers": n, "registered": len(registered), "indexed storage": indexed})
            if failure:
                ctx.count(f"oracle-failure:{failure[0]}")
                ctx.fail(failure[0], {"stream": "scale-p2p", "shape": shape, "n": n, "salt": salt, "indexed": indexed, "upto": t}, failure[1], expected=failure[2], actual=failure[3])
        return failure
    finally:
        sut.close()


def run_scale_modelled(ctx, pairs, n):
    """a few hundred distinct peers through the ordinary path: full oracle after every datagram and the model"""
    syms = []
    for i in range(n):
        a = SCALE_SHAPES["ips6" if i % 2 else "ips"](i)
        syms.append(("rdac", a, b"\x55\x55", False))
        if i % 3 == 0:
            syms.append(("p2p", a, p2p_command(0x10), False))
        if i % 5 == 0:
            syms.append(("rdac", a, RESP_FD, False))
        syms.append(("p2p", a, p2p_ping(16), False))
    for i in (0, 1, 2, 3, n - 1, n - 2):
        a = SCALE_SHAPES["ips6" if i % 2 else "ips"](i)
        syms += [("p2p", a, p2p_ping(16), False), ("rdac", a, RESP_FD, False), ("rdac", a, RESP_10, False)]
    run_history(ctx, syms, pairs)
    ctx.case(("scale-modelled", n))
    ctx.count("scale:modelled:peers", n)


def run_ambient(ctx, pairs):
    """a fixed small sample under ambient interpreter state: root logger at DEBUG (the handlers' log lines are emitted to a
    collecting handler, nothing is printed), a sys.stdout that raises on every write, `random` reseeded before every delivery"""
    import random as _random
    import sys

    shapes = peer_shapes()
    hs = [list(h) for h in CORPUS]
    hs += [peer_pair_history(x, y) for (_, x), (_, y) in ctx.rng.sample(list(itertools.product(shapes, repeat=2)), 24)]
    hs += [[random_sym(ctx.rng, None, PEERS + PEERS6) for _ in range(60)] for _ in range(12)]
    root = logging.getLogger()
    saved_level, saved_disable, saved_stdout = root.level, root.manager.disable, sys.stdout
    records = []

    class Collect(logging.Handler):
        def emit(self, record):
            records.append(record.getMessage())

    class RaisingWriter:
        def write(self, *_):
            raise OSError("stdout is gone")

        def flush(self):
            raise OSError("stdout is gone")

    handler = Collect(level=logging.DEBUG)
    real_apply = globals()["apply"]

    def reseeding_apply(*a, **k):
        _random.seed(4711)
        return real_apply(*a, **k)

    n = 0
    try:
        root.addHandler(handler)
        root.setLevel(logging.DEBUG)
        logging.disable(logging.NOTSET)
        sys.stdout = RaisingWriter()
        globals()["apply"] = reseeding_apply
        for h in hs:
            run_history(ctx, h, pairs)
            n += 1
            ctx.case(("ambient", n))
    finally:
        globals()["apply"] = real_apply
        sys.stdout = saved_stdout
        root.removeHandler(handler)
        root.setLevel(saved_level)
        logging.disable(saved_disable)
    ctx.count("ambient:histories(logger DEBUG, stdout raising, random reseeded)", n)
    ctx.count("ambient:log-records-collected", len(records))


def sym_json(s):
    return [s[0], list(s[1])] + [x.hex() if isinstance(x, bytes) else (list(x) if isinstance(x, tuple) else x) for x in s[2:]]


class AsyncCorrespondence:
    """the model driver works on one batch of lines (a separate process) while this process generates the next histories;
    batches are compared in order, one at a time; an error of the driver is raised when the run ends"""

    def __init__(self, ctx):
        import queue
        import threading

        self.ctx, self.err = ctx, None
        self.q = queue.Queue(maxsize=2)
        self.t = threading.Thread(target=self.loop, daemon=True)
        self.t.start()

    def loop(self):
        while True:
            item = self.q.get()
            if item is None:
                return
            if self.err is None:
                try:
                    self.ctx.correspond(*item)
                except BaseException as e:  # noqa
                    self.err = e

    def put(self, component, pairs):
        self.q.put((component, pairs))

    def close(self):
        self.q.put(None)
        self.t.join()
        if self.err is not None:
            raise self.err

    def abort(self):
        """the run itself failed: batches still waiting are dropped, the one being compared is finished"""
        self.err = self.err or RuntimeError("aborted")
        try:
            while True:
                self.q.get_nowait()
        except Exception:  # noqa  (queue.Empty)
            pass
        self.q.put(None)
        self.t.join()


def run(ctx):
    logging.disable(logging.CRITICAL)
    corr = AsyncCorrespondence(ctx)
    try:
        try:
            _run(ctx, corr)
        except BaseException:
            corr.abort()
            raise
        corr.close()
    finally:
        logging.disable(logging.NOTSET)


def _run(ctx, corr):
    ctx.rule = (
        "datagram histories from 3 peers (two sharing an IP) delivered to P2PDatagramProtocol and RDACDatagramProtocol on one "
        "shared storage with recording transports: corpus; P2P: every sequence up to length 4 (quick) / 5 (thorough) over 19 "
        "symbols (3 peers x {registration, DMR start-up, RDAC start-up, ping}, ack, unknown command, garbage, outbound-address "
        "update, data[4]=255, SNMP failure, short ping); RDAC: every sequence up to length 4 / 5 over 2 peers x 6 datagram classes "
        "from the initial state and every sequence up to length 2 / 3 over 27 symbols (3 peers x 7 classes + bad UTF-16, lone "
        "surrogate, 0x01, empty, SNMP failure, short body) plus 4 near misses of THAT step's expected response from each of the "
        "14 steps; NEAR MISSES of every value the handlers compare with (each RDAC step's response prefix, command / ping / ack "
        "prefix, packet-type octet at offset 20, one-octet reset, is-registered key), generated from the tables extracted from "
        "/repo this run (Gen/Proto.lean) united with the pinned ones: for every proper subset of the compared positions the "
        "datagram that is right exactly there and wrong elsewhere (wrong = zeroed / +1 / -1 / complemented / another compared "
        "value's octet; so: one octet off, only first, only last, only even positions ...), every single-bit flip, one octet "
        "shorter / exact / longer than the compared region, the value one octet early / late / rotated / reversed / transposed, "
        "as a bare prefix and with a full body; each delivered alone at the step that nearly expects it (from the peer and from "
        "the peer behind its IP) followed by the expected response, alone at every other step, and all of them in one long history "
        "per step followed by the rest of the identification; P2P near misses from a peer in 8 registration states (fresh, known, "
        "registered, registered with outbound address, sibling behind the IP registered, failed with data[4]=255, failed SNMP, "
        "known through RDAC) followed by ping / DMR / RDAC start-up; records carrying attributes named nearly like the "
        "is-registered key (true and false values) and the key itself with false values; every P2P sequence up to length 3 over "
        "16 symbols containing at least one near miss; random mixed histories up to 150 datagrams with random bodies, 15 % of "
        "the symbols drawn from the near-miss tables; PEER ADDRESS SHAPES (argument provenance): every ordered pair of 13 shapes "
        "(AF_INET6 4-tuples (host, port, flowinfo, scope_id) equal / differing in scope id, flowinfo, port, host; the 2-tuple; "
        "namedtuples; str / int subclasses; lists; 3- / 5-tuples) in one registration + start-up + RDAC history (same peer iff ==), "
        "every P2P sequence up to length 3 / 4 over the requests of three IPv6 peers sharing host and port, RDAC sequences up to "
        "3 / 4 over them, random histories over shape pools; SCALE: 70 000 (quick) / 150 000 (thorough) distinct source addresses "
        "on ONE RDAC and ONE P2P handler instance (indexed storage subclass) and 9 000 / 17 000 over the plain storage, O(1) checks "
        "per delivery (sender's step / answer, size of the step table, completion once, destinations), the whole step table / all "
        "registered flags against a mirror at powers of two +-1, every 1024 peers and the end; early finished / half-finished / "
        "silent peers and a sample of old and new peers continue afterwards. LIBRARY SENTINELS / DEFAULTS / LITERALS OF THE CURRENT "
        "SOURCE AS INPUTS (Harvest, read at run time): every string / int / bytes / tuple literal of the five anchored files (ast), "
        "their module and class constants, signature defaults and the members of a freshly created / auto-created record (the unset "
        "values: ADDRESS_EMPTY ('', 0) in address_out / address_nat, '' , 0, None); literals that are not in the reviewed baseline "
        "(they came with a change) are tried first and in every role.  As SOURCE ADDRESSES: the sentinel and its neighbours (('', 0), "
        "('', 0, 0, 0), ('', 1), (' ', 0), hosts '' / a peer's with every default port and every larger int literal as port, new string "
        "literals as host / host prefix / suffix): every sequence up to length 2 / 3 over {ping, DMR, RDAC start-up, registration of "
        "the sentinel source, ping of the first peer, an RDAC datagram of the source} after each of 7 registration states of the "
        "storage (first record registered / known only / failed SNMP, second registered, addresses stored, all registered), and every "
        "P2P sequence up to length 3 / 4 from the initial state over the first peer's and the sentinel sources' requests.  As "
        "ATTRIBUTE VALUES EQUAL TO A SOURCE ADDRESS: the application stores X under every address-valued member (address_out, "
        "address_nat), every other data member and every harvested attribute name of the first peer's record, X in {another peer, "
        "the sibling behind the IP, the sentinel, a stranger, an IPv6 4-tuple}; X asks for everything and stays a stranger until it "
        "registers itself.  Harvested values under harvested keys and under the is-registered key.  As DATAGRAM CONTENTS: every "
        "constant / literal (as it stands, at octets 4.. of a ping, in front of an identification body; every int literal as packet "
        "type and as repeater id) to both handlers, from a registered and an unknown peer and at 6 / 14 RDAC steps.  As RDAC "
        "identification fields: bodies whose strings / dmr_id are the record defaults and harvested literals, equal for two peers. "
        "12 % of the symbols of every second random history are drawn from these pools. "
        " ROUND 6, READ-ONLY CALLS: observer-style calls found by introspection on the live objects (repr / str / len / bool / == / hash / copy / every attribute, debug(), get_* / is_* / has_* / match_* without auto-create, the log helpers, on every library object reachable) are interleaved into histories: the same history runs without and with them in fresh objects; each call must leave the deep picture of the objects, their class / module data and the stubs' counters unchanged, every answer, the final state and a final sweep through the whole catalogue (made, and itself checked, at the end of every such history) must be identical, and the model is driven with the history without the calls; reviewed exclusions (calls that advance by design) are listed in harness/ro_calls.py EXCLUDED. "
        "Distinct = distinct symbol sequence; non-trivial = at least one datagram dispatches"
    )
    ctx.trusted_base += [
        "Lean 4.33 kernel",
        "tools/extract_proto.py / extract_storage.py (byte-string constants, packet types, attribute keys, ports read from /repo)",
        "the protocol constants the oracle reads the property against are pinned in this file (SPEC) and, identically, in the theorem proto_pinned; the near-miss tables are generated from Gen/Proto.lean of this run",
        "hand-written models of the two datagram_received methods and step0..step14 (Model/P2p.lean, Model/Rdac.lean) over the storage model of C20, tied to the code by this run's correspondence",
        "Repeater.read_snmp_values is stubbed (returns {} or raises on demand); uuid4 is a counter",
        "Python's utf_16_le / utf-8 codecs are modelled on code points (decodeField) and only cross-checked here",
        "asyncio delivery order is outside the model: one step per datagram",
        "the harvest of literals / constants / defaults reads the source files and the imported classes of the tree under test (ast, inspect); the baseline of known literals (BASELINE_LITERALS) only decides what is tried FIRST, never what is left out",
    ]
    ctx.assumptions += [
        "connection_made was called with a transport; a completion callback is installed",
        "peers are identified as the code does: the storage by the whole address tuple the transport hands over ((ip, port), or (host, port, flowinfo, scope_id) for AF_INET6), the RDAC step dictionary by ip alone (two peers behind one IP share a run)",
        "a peer address is a tuple (str, int, ...) with an int port (what a datagram transport delivers); lists and other shapes are checked by the oracle alone",
        "the 70 000-peer scale runs inject an indexed RepeaterStorage subclass (create_repeater keeps an address index, match_attr('address_in') is a dict lookup); 9 000 / 17 000 peers run over the plain RepeaterStorage",
        "'expected response' at step 0 is any datagram (the first datagram of a peer starts the identification)",
        "UDP ports and the configured ports are < 65536",
        "the application may patch any attribute of a record between datagrams except id, address_in and the is-registered key with a true value (envOk); writing that key itself is the application's own authorisation decision and is followed by the oracle",
    ]
    pairs = []
    import time

    t_last = [time.time()]

    def mark(stream):
        now = time.time()
        ctx.hist[f"seconds:{stream}"] = round(ctx.hist.get(f"seconds:{stream}", 0) + now - t_last[0], 1)
        t_last[0] = now

    def flush(component):
        if pairs and not ctx.search_only and ctx.driver_ok:
            corr.put(component, list(pairs))
        pairs.clear()

    for seq in CORPUS:
        run_history(ctx, seq, pairs)
        ctx.case(("corpus", str([sym_json(s) for s in seq])), sample={"corpus": [sym_json(s) for s in seq][:4]})
    run_history(ctx, CORPUS[2], pairs, ports=(62000, 65535))
    flush("handshake.corpus")
    # ---- P2P exhaustive
    alpha = p2p_alphabet()
    plen = 4 if not ctx.thorough() else 5
    if ctx.boost > 1:
        plen = 4
    n = 0
    for L in range(1, plen + 1):
        for seq in itertools.product(range(len(alpha)), repeat=L):
            if L == 5 and (seq[0] + 3 * seq[1] + ctx.seed) % 3:
                continue  # thorough: one third of the length-5 sequences (seeded), all of length <= 4
            run_history(ctx, [alpha[i] for i in seq], pairs)
            ctx.case(("p2p", seq), nontrivial=any(i < 12 for i in seq), sample={"p2p": [sym_json(alpha[i]) for i in seq]} if seq == (0, 1, 15, 2) else None)
            n += 1
            if len(pairs) > 300000:
                flush("handshake.p2p")
    flush("handshake.p2p")
    ctx.count("exhaustive:p2p", n)
    # ---- RDAC exhaustive from the initial state
    ralpha = [s for s in rdac_alphabet([P1, P2]) if s[2] != RESP_00]  # LONG_00 serves every "00" step
    rlen = 4 if not ctx.thorough() else 5
    n = 0
    for L in range(1, rlen + 1):
        for seq in itertools.product(range(len(ralpha)), repeat=L):
            run_history(ctx, [ralpha[i] for i in seq], pairs)
            ctx.case(("rdac0", seq))
            n += 1
            if len(pairs) > 300000:
                flush("handshake.rdac")
    flush("handshake.rdac")
    ctx.count("exhaustive:rdac-from-init", n)
    # ---- RDAC exhaustive from every step: the common alphabet plus the near misses of THIS step's expected response
    nm = NearMiss().pools()
    ctx.count("nearmiss:tables-read-from-Gen/Proto", len(nm.gen))
    slen = 2 if not ctx.thorough() else 3
    n = 0
    for st in STEP_ORDER:
        salpha = rdac_alphabet(PEERS) + RDAC_EXTRA + nm.rdac_step_symbols(st)
        prefix = [("rdac", P1, d, False) for d in drive_to(st)] + [("rdac", P3, d, False) for d in drive_to(3)]
        for L in range(1, slen + 1):
            for seq in itertools.product(range(len(salpha)), repeat=L):
                run_history(ctx, [salpha[i] for i in seq], pairs, prefix=prefix)
                ctx.case(("rdac-step", st, seq), sample={"start_step": st, "rdac": [sym_json(salpha[i]) for i in seq]} if (st, seq) == (6, (3, 21)) else None)
                n += 1
                if len(pairs) > 300000:
                    flush("handshake.rdac-steps")
    flush("handshake.rdac-steps")
    ctx.count("exhaustive:rdac-from-each-step", n)
    mark("exhaustive")
    near_miss_sections(ctx, nm, pairs, flush)
    mark("near-misses")
    # ---- argument provenance: peer addresses of other shapes (AF_INET6 4-tuples, namedtuples, lists ...)
    run_peer_shapes(ctx, pairs, flush)
    mark("peer-shapes")
    # ---- library sentinels, default attribute values and the literals of the current source as inputs
    hv = Harvest()
    sentinel_sections(ctx, hv, nm, pairs, flush)
    mark("sentinels")
    # ---- scale: thousands of distinct peers on one handler instance.  With the storage's own linear lookup every datagram
    # costs O(peers); the big runs use the indexed storage subclass (see Sut), smaller ones the plain RepeaterStorage.
    salt = ctx.seed
    if not ctx.thorough():
        plan = [("rdac", "ips", 70000 + ctx.seed % 11, True), ("p2p", "ips6", 70000 + ctx.seed % 11, True), ("p2p", "ips", 10000, True),
                ("rdac", "ips", 9000 + ctx.seed % 11, False), ("p2p", "ips6", 3000, False)]
    else:
        plan = [("rdac", "ips", 150000 + ctx.seed % 11, True), ("p2p", "ips6", 150000 + ctx.seed % 11, True), ("p2p", "ips", 70000, True),
                ("rdac", "ips6", 70000, True), ("rdac", "ips", 17000 + ctx.seed % 11, False), ("p2p", "ips6", 12000, False)]
    for which, shape, n, indexed in plan:
        failure = (run_scale_rdac if which == "rdac" else run_scale_p2p)(ctx, shape, n, salt, indexed)
        mark(f"scale:{which}:{shape}:{n}:{'indexed' if indexed else 'plain'}")
        if failure:
            break
    run_scale_modelled(ctx, pairs, 250 if not ctx.thorough() else 500)
    flush("handshake.scale")
    mark("scale:modelled")
    # ---- ambient interpreter state
    run_ambient(ctx, pairs)
    flush("handshake.ambient")
    mark("ambient")
    # ---- round 6: read-only calls interleaved (a fixed share, own random stream)
    run_read_only(ctx, nm, hv, pairs, flush)
    mark("read-only")
    # ---- random mixed histories
    for i in range(ctx.budget(400, 8000)):
        length = ctx.rng.choice([5, 20, 60, 150]) if i % 5 else 150
        seq = [random_sym(ctx.rng, nm, PEERS, hv if i % 2 else None) for _ in range(length)]
        prefix = []
        if i % 3 == 0:
            prefix = [("rdac", ctx.rng.choice(PEERS), d, False) for d in drive_to(ctx.rng.choice(STEP_ORDER))]
        ports = (50000, 50002) if i % 4 else (ctx.rng.randrange(1, 65536), ctx.rng.randrange(1, 65536))
        sut = run_history(ctx, seq, pairs, ports=ports, prefix=prefix)
        ctx.case(("random", i, length, str(seq[:6])), sample={"length": length, "first": [sym_json(s) for s in seq[:3]], "steps": sut.steps(), "records": len(sut.storage)} if length == 60 else None)
        if len(pairs) > 300000:
            flush("handshake.random")
    flush("handshake.random")
    mark("random")
    ctx.exhaustive = False


# ------------------------------------------------------------------------------------------------
def replay(obj):
    logging.disable(logging.CRITICAL)
    f = obj.get("failure") or {}
    inp = f.get("input") or {}
    print(json.dumps(obj.get("type")), f.get("what"))
    if inp.get("stream") in ("scale-rdac", "scale-p2p"):
        fn = run_scale_rdac if inp["stream"] == "scale-rdac" else run_scale_p2p
        failure = fn(None, inp["shape"], inp["n"], inp["salt"], inp.get("indexed", True), upto=inp.get("upto"))
        print(f"{inp['stream']} history shape={inp['shape']} n={inp['n']} salt={inp['salt']} indexed_storage={inp.get('indexed', True)}: deliveries 0..{inp.get('upto')} re-run")
        print("property check:", failure)
        print("expected:", f.get("expected"), "actual:", f.get("actual"))
        return 1 if failure else 0
    hist = inp.get("history")
    if not hist:
        print("no history recorded (proof/correspondence record):", json.dumps(obj.get("no_longer_checks") or obj.get("correspondence_differences"))[:2000])
        return 1
    syms = []
    for h in hist:
        if h[0] == "ro":
            syms.append(("ro", h[1], h[2]))
            print("read-only call in the history:", RO.spec_text(h[2]))
        elif h[0] == "setout":
            syms.append(("setout", uaddr(h[1]), tuple(h[2]) if isinstance(h[2], list) else uj(h[2])))
        elif h[0] == "setattr":
            syms.append(("setattr", uaddr(h[1]), h[2], uj(h[3])))
        else:
            syms.append((h[0], uaddr(h[1]), bytes.fromhex(h[2]), bool(h[3])))

    class C:
        failures = []

        def fail(self, kind, input, what, expected=None, actual=None):
            self.failures.append((kind, what, expected, actual))

        def count(self, *a):
            pass

    c = C()
    pairs = []
    run_history(c, syms, pairs, ports=tuple(inp.get("ports", [50000, 50002])))
    model = []
    try:
        exe = os.path.join(BIN, "drv_c18")
        model = subprocess.run([exe], input="\n".join(p[0] for p in pairs) + "\n", capture_output=True, text=True).stdout.split("\n")
    except Exception as e:  # noqa
        print("model driver not available:", e)
    for i, (line, impl) in enumerate(pairs):
        print(f"input           {line}")
        print(f"implementation  {impl}")
        if i < len(model):
            print(f"model           {model[i]}")
    for k in c.failures:
        print("property check:", k)
    print("expected:", f.get("expected"), "actual:", f.get("actual"))
    return 1 if c.failures else 0
