"""C08 — transmission tracking emits well-formed start/end events for any burst sequence (DESIGN §5 C08).

Real 33-byte bursts are built per alphabet symbol with the library itself (PDU classes, FEC encoders,
`Burst.as_bytes`, `TransmissionGenerator`), parsed with `Burst.from_bytes` and fed to a real `Terminal`
with recording observers (raising or not).  Compared with the Lean model (`drv_c08`) line by line: sequence
number, voice label, stream id, colour code and the events every observer received per burst, and the
final state of both time slots.  The oracle evaluates the property itself on the real code with shadow
bookkeeping that does not use the model.

Round 4 (exact totals at wrap points): transmissions whose end falls on the 253rd … 259th, 509th … 515th,
1021st … 1027th burst since the last restart of the numbering (voice calls, generated data transmissions behind
filler bursts, the maximal 256-burst generated transmission, ends by count and by an interrupting voice header),
followed by more bursts; data transmissions that stay open for 250 … 300 / 510 … 520 blocks (header with nothing /
no count to follow, UDT, overshoot after a preamble count that was reached without a header, CSBK streams) ended
by a voice LC header or by end_all_transmissions, every block and the header counted (also for the hand-over of
end_all_transmissions, which the oracle now checks block by block).
"""
import contextlib
import errno
import io
import json
import logging
import os
import random as _random
import sys
import time as _time
import warnings

import ro_calls as RO
from common import impl_error

PROP = "C08"
MODULES = ["C08"]
GEN = ["Tracker"]
MATCHERS = {}

_L = {}


def lib():
    """lazy import of everything used from the library"""
    if _L:
        return _L
    import secrets

    from bitarray import bitarray
    from bitarray.util import int2ba
    from okdmr.dmrlib.etsi.crc.crc32 import CRC32
    from okdmr.dmrlib.etsi.crc.crc9 import CRC9
    from okdmr.dmrlib.etsi.fec.bptc_196_96 import BPTC19696
    from okdmr.dmrlib.etsi.layer2.elements.crc_masks import CrcMasks
    from okdmr.dmrlib.etsi.fec.trellis import Trellis34
    from okdmr.dmrlib.etsi.layer2.burst import Burst
    from okdmr.dmrlib.etsi.layer2.elements.burst_types import BurstTypes
    from okdmr.dmrlib.etsi.layer2.elements.csbk_opcodes import CsbkOpcodes
    from okdmr.dmrlib.etsi.layer2.elements.data_packet_formats import DataPacketFormats
    from okdmr.dmrlib.etsi.layer2.elements.data_types import DataTypes
    from okdmr.dmrlib.etsi.layer2.elements.defined_data_formats import DefinedDataFormats
    from okdmr.dmrlib.etsi.layer2.elements.feature_set_ids import FeatureSetIDs
    from okdmr.dmrlib.etsi.layer2.elements.flcos import FLCOs
    from okdmr.dmrlib.etsi.layer2.elements.full_message_flag import FullMessageFlag
    from okdmr.dmrlib.etsi.layer2.elements.resynchronize_flag import ResynchronizeFlag
    from okdmr.dmrlib.etsi.layer2.elements.sap_identifier import SAPIdentifier
    from okdmr.dmrlib.etsi.layer2.elements.sarq import SARQ
    from okdmr.dmrlib.etsi.layer2.elements.sync_patterns import SyncPatterns
    from okdmr.dmrlib.etsi.layer2.elements.voice_bursts import VoiceBursts
    from okdmr.dmrlib.etsi.layer2.pdu.csbk import CSBK
    from okdmr.dmrlib.etsi.layer2.pdu.data_header import DataHeader
    from okdmr.dmrlib.etsi.layer2.pdu.embedded_signalling import EmbeddedSignalling
    from okdmr.dmrlib.etsi.layer2.pdu.full_link_control import FullLinkControl
    from okdmr.dmrlib.etsi.layer2.pdu.rate12_data import Rate12Data
    from okdmr.dmrlib.etsi.layer2.pdu.rate1_data import Rate1Data
    from okdmr.dmrlib.etsi.layer2.pdu.rate34_data import Rate34Data
    from okdmr.dmrlib.etsi.layer2.pdu.slot_type import SlotType
    from okdmr.dmrlib.etsi.layer3.elements.service_options import ServiceOptions
    from okdmr.dmrlib.transmission.terminal import Terminal
    from okdmr.dmrlib.transmission.transmission_generator import TransmissionGenerator
    from okdmr.dmrlib.transmission.transmission_observer_interface import TransmissionObserverInterface
    from okdmr.dmrlib.transmission.transmission_types import TransmissionTypes
    from okdmr.dmrlib.utils.bits_bytes import bits_to_bytes, bytes_to_bits

    _L.update({k: v for k, v in locals().items() if not k.startswith("_")})
    return _L


class Box:
    def __init__(self, d):
        self.__dict__.update(d)


def L():
    return Box(lib())


# ------------------------------------------------------------------------------------------------
# building bursts (bytes) per alphabet symbol.  A history element is [slot, hex of the 33 bytes, burst type]
# ------------------------------------------------------------------------------------------------
DATA_SYNCS = ["BsSourcedData", "MsSourcedData", "Tdma1Data", "Tdma2Data"]
VOICE_SYNCS = ["BsSourcedVoice", "MsSourcedVoice", "Tdma1Voice", "Tdma2Voice"]


def rand_bits(rng, n):
    l = L()
    return l.int2ba(rng.getrandbits(n), length=n) if n else l.bitarray()


def lib_burst(pdu, dt, cc, sync="BsSourcedData"):
    """serialise a data/control burst with the library's own `Burst.as_bytes`"""
    l = L()
    b = l.Burst(burst_type=l.BurstTypes.DataAndControl)
    b.has_emb = False
    b.sync_or_embedded_signalling = l.SyncPatterns[sync]
    b.slot_type = l.SlotType(colour_code=cc, data_type=dt)
    b.data = pdu
    return [b.as_bytes().hex(), "DataAndControl"]


def raw_burst(payload196, dt_value, cc, centre48):
    """assemble the 264 bits by hand (for combinations `Burst.as_bytes` does not produce)"""
    l = L()
    st = l.SlotType(colour_code=cc, data_type=l.DataTypes(dt_value)).as_bits()
    bits = payload196[:98] + st[:10] + centre48 + st[10:] + payload196[98:]
    return [l.bits_to_bytes(bits).hex(), "DataAndControl"]


def sym_voice_header(rng, cc=None, kind=None, terminator=False):
    l = L()
    cc = rng.randrange(16) if cc is None else cc
    kind = kind or rng.choice(["group", "group", "u2u", "alias", "aliasblock"])
    crc = rand_bits(rng, 24)
    so = l.ServiceOptions.from_bits(rand_bits(rng, 8))
    fid = l.FeatureSetIDs(rng.choice([0, 0x10, 0x68]))
    if kind == "group":
        flc = l.FullLinkControl(
            protect_flag=rng.randrange(2), flco=l.FLCOs.GroupVoiceChannelUser, fid=fid, crc=crc, service_options=so,
            group_address=rng.randrange(1, 1 << 24), source_address=rng.randrange(1, 1 << 24))
    elif kind == "u2u":
        flc = l.FullLinkControl(
            protect_flag=rng.randrange(2), flco=l.FLCOs.UnitToUnitVoiceChannelUser, fid=fid, crc=crc, service_options=so,
            target_address=rng.randrange(1, 1 << 24), source_address=rng.randrange(1, 1 << 24))
    elif kind == "alias":
        # talker alias header with non-ASCII octets: its repr raises UnicodeDecodeError
        flc = l.FullLinkControl.from_bits(
            l.bitarray("00") + l.FLCOs.TalkerAliasHeader.as_bits() + fid.as_bits() + rand_bits(rng, 8)
            + l.bytes_to_bits(bytes([0xFF, 0x80 | rng.randrange(128)] + [rng.randrange(256) for _ in range(4)])) + crc)
    else:
        flc = l.FullLinkControl.from_bits(
            l.bitarray("00") + l.FLCOs.TalkerAliasBlock1.as_bits() + fid.as_bits()
            + l.bytes_to_bits(bytes([0xC3] + [rng.randrange(256) for _ in range(6)])) + crc)
    dt = l.DataTypes.TerminatorWithLC if terminator else l.DataTypes.VoiceLCHeader
    return lib_burst(flc, dt, cc, rng.choice(DATA_SYNCS))


def sym_terminator(rng, cc=None):
    return sym_voice_header(rng, cc, kind=rng.choice(["group", "u2u"]), terminator=True)


SAPS = [3, 3, 4, 10, 0, 9, 5, 2]


def sym_data_header(rng, fmt=None, btf=None, a=None, sap=None, cc=None):
    l = L()
    cc = rng.randrange(16) if cc is None else cc
    fmt = fmt or rng.choice(["unconfirmed", "confirmed", "response", "sdd", "udt"])
    a = rng.randrange(2) if a is None else a
    sap = l.SAPIdentifier(rng.choice(SAPS) if sap is None else sap)
    if btf is None:
        btf = rng.choice([0, 1, 1, 2, 2, 3, 4, 6, rng.randrange(128)])
    dst, src = rng.randrange(1, 1 << 24), rng.randrange(1, 1 << 24)
    fmf = l.FullMessageFlag(rng.randrange(2))
    if fmt == "unconfirmed":
        h = l.DataHeader(dpf=l.DataPacketFormats.DataPacketUnconfirmed, is_group=rng.randrange(2), is_response_requested=a,
                         pad_octet_count=rng.randrange(32), sap_identifier=sap, llid_destination=dst, llid_source=src,
                         full_message_flag=fmf, blocks_to_follow=btf % 128, fragment_sequence_number=rng.randrange(16))
    elif fmt == "confirmed":
        h = l.DataHeader(dpf=l.DataPacketFormats.DataPacketConfirmed, is_group=rng.randrange(2), is_response_requested=a,
                         pad_octet_count=rng.randrange(32), sap_identifier=sap, llid_destination=dst, llid_source=src,
                         full_message_flag=fmf, blocks_to_follow=btf % 128, resynchronize_flag=l.ResynchronizeFlag(rng.randrange(2)),
                         send_sequence_number=rng.randrange(8), fragment_sequence_number=rng.randrange(16))
    elif fmt == "response":
        h = l.DataHeader(dpf=l.DataPacketFormats.ResponsePacket, is_response_requested=a, sap_identifier=sap,
                         llid_destination=dst, llid_source=src, full_message_flag=fmf, blocks_to_follow=btf % 128,
                         response_class=rng.randrange(4), response_type=rng.randrange(8), response_status=rng.randrange(8))
    elif fmt == "sdd":
        h = l.DataHeader(dpf=l.DataPacketFormats.ShortDataDefined, is_group=rng.randrange(2), is_response_requested=a,
                         appended_blocks=btf % 64, sap_identifier=sap, llid_destination=dst, llid_source=src,
                         defined_data_format=l.DefinedDataFormats.from_bits(rand_bits(rng, 6)), sarq=l.SARQ(rng.randrange(2)),
                         full_message_flag=fmf, bit_padding=rand_bits(rng, 8))
    else:
        bits = (l.bitarray([rng.randrange(2), a, rng.randrange(2), rng.randrange(2)]) + l.DataPacketFormats.UnifiedDataTransport.as_bits()
                + sap.as_bits() + rand_bits(rng, 4) + l.int2ba(dst, length=24) + l.int2ba(src, length=24)
                + rand_bits(rng, 5) + l.bitarray("0") + rand_bits(rng, 2) + rand_bits(rng, 1) + l.bitarray("0")
                + l.CsbkOpcodes.PreambleCSBK.as_bits() + l.bitarray("0" * 16))
        h = l.DataHeader.from_bits(bits)
    return lib_burst(h, l.DataTypes.DataHeader, cc, rng.choice(DATA_SYNCS))


def sym_csbk(rng, preamble=None, btf=None, cc=None):
    l = L()
    cc = rng.randrange(16) if cc is None else cc
    preamble = rng.random() < 0.6 if preamble is None else preamble
    dst, src = rng.randrange(1, 1 << 24), rng.randrange(1, 1 << 24)
    if preamble:
        if btf is None:
            btf = rng.choice([0, 1, 2, 2, 3, 4, 5, 8, rng.randrange(256)])
        c = l.CSBK(csbko=l.CsbkOpcodes.PreambleCSBK, last_block=True, source_address=src, target_address=dst,
                   blocks_to_follow=btf, target_address_is_individual=bool(rng.randrange(2)),
                   csbk_content_follows_preambles=bool(rng.randrange(2)))
    else:
        op = rng.choice(["BSOutboundActivation", "UnitToUnitVoiceServiceRequest", "ChannelTimingCSBK"])
        if op == "BSOutboundActivation":
            c = l.CSBK(csbko=l.CsbkOpcodes.BSOutboundActivation, last_block=True, bs_address=dst, source_address=src)
        elif op == "UnitToUnitVoiceServiceRequest":
            c = l.CSBK(csbko=l.CsbkOpcodes.UnitToUnitVoiceServiceRequest, last_block=True, target_address=dst, source_address=src,
                       service_options=l.ServiceOptions.from_bits(rand_bits(rng, 8)))
        else:
            c = l.CSBK(csbko=l.CsbkOpcodes.ChannelTimingCSBK, last_block=True, sync_age=rng.randrange(2048), generation=rng.randrange(32),
                       leader_identifier=rng.randrange(1 << 20), new_leader=rng.randrange(2), source_identifier=rng.randrange(1 << 20))
    return lib_burst(c, l.DataTypes.CSBK, cc, rng.choice(DATA_SYNCS))


def sym_rate(rng, rate=None, cc=None, info=None):
    """rate-x block with arbitrary information bits (the tracker decides how to read them)"""
    l = L()
    cc = rng.randrange(16) if cc is None else cc
    rate = rate or rng.choice(["r12", "r12", "r34", "r1"])
    n = {"r12": 96, "r34": 144, "r1": 192}[rate]
    if info is None:
        mode = rng.random()
        if mode < 0.2:
            info = l.bitarray("0" * n)  # both UDP ports "in extended header": the diagnostic asserts on short data
        elif mode < 0.35:
            info = rand_bits(rng, n)
            info[25:32] = 0  # one UDP port in the extended header
        elif mode < 0.45:
            info = rand_bits(rng, n)
            info[16:48] = 0  # the same for confirmed blocks (data starts at bit 16)
        else:
            info = rand_bits(rng, n)
    centre = l.SyncPatterns[rng.choice(DATA_SYNCS)].as_bits()
    if rate == "r12":
        return raw_burst(l.BPTC19696.encode(info), 7, cc, centre)
    if rate == "r34":
        return raw_burst(l.Trellis34.encode(info), 8, cc, centre)
    return raw_burst(info[:96] + l.bitarray("0000") + info[96:], 10, cc, centre)


def sym_other(rng, cc=None):
    """data types the tracker has no branch for: PI header, MBC header/continuation, idle, unified single block"""
    l = L()
    cc = rng.randrange(16) if cc is None else cc
    dt = rng.choice([0, 4, 5, 9, 11])
    return raw_burst(l.BPTC19696.encode(rand_bits(rng, 96)), dt, cc, l.SyncPatterns[rng.choice(DATA_SYNCS)].as_bits())


def sym_data_with_emb(rng, cc=None):
    """data/control burst type whose centre is embedded signalling: the colour code comes from the EMB"""
    l = L()
    cc = rng.randrange(16) if cc is None else cc
    emb = l.EmbeddedSignalling(colour_code=cc, preemption_and_power_control_indicator=rng.randrange(2),
                               link_control_start_stop=rng.randrange(4)).as_bits()
    centre = emb[:8] + rand_bits(rng, 32) + emb[8:]
    c = l.CSBK(csbko=l.CsbkOpcodes.PreambleCSBK, last_block=True, source_address=1, target_address=2, blocks_to_follow=rng.randrange(4))
    return raw_burst(l.BPTC19696.encode(c.as_bits()), 3, (cc + 1 + rng.randrange(15)) % 16, centre)


def sym_voice_sync(rng):
    l = L()
    bits = rand_bits(rng, 108) + l.SyncPatterns[rng.choice(VOICE_SYNCS)].as_bits() + rand_bits(rng, 108)
    return [l.bits_to_bytes(bits).hex(), rng.choice(["Vocoder", "Vocoder", "Undefined", "DataAndControl"])]


def sym_voice_emb(rng, cc=None):
    l = L()
    cc = rng.randrange(16) if cc is None else cc
    emb = l.EmbeddedSignalling(colour_code=cc, preemption_and_power_control_indicator=rng.randrange(2),
                               link_control_start_stop=rng.randrange(4)).as_bits()
    bits = rand_bits(rng, 108) + emb[:8] + rand_bits(rng, 32) + emb[8:] + rand_bits(rng, 108)
    return [l.bits_to_bytes(bits).hex(), rng.choice(["Vocoder", "Vocoder", "Undefined"])]


def sym_voice_nocc(rng):
    """vocoder burst whose centre is the reserved / reverse-channel SYNC: neither EMB nor slot type"""
    l = L()
    bits = rand_bits(rng, 108) + l.SyncPatterns[rng.choice(["Reserved", "MsSourcedRcSync"])].as_bits() + rand_bits(rng, 108)
    return [l.bits_to_bytes(bits).hex(), rng.choice(["Vocoder", "Undefined"])]


def generated_transmission(rng, rate=None, confirmed=None, k=None, length=None, sap=None, cc=None, payload=None):
    """a complete data transmission from the library's own generator"""
    l = L()
    rate = rate or rng.choice(["r12", "r34", "r1"])
    cls = {"r12": l.Rate12Data, "r34": l.Rate34Data, "r1": l.Rate1Data}[rate]
    confirmed = bool(rng.randrange(2)) if confirmed is None else confirmed
    k = rng.choice([0, 0, 1, 2, 3]) if k is None else k
    if payload is None:
        length = rng.choice([0, 1, 5, 6, 7, 8, 9, 12, 20, 33, rng.randrange(70)]) if length is None else length
        payload = bytes(rng.randrange(256) for _ in range(length)) if rng.random() < 0.7 else bytes(length)
    length = len(payload)
    cc = rng.randrange(16) if cc is None else cc
    _, poc = l.TransmissionGenerator.generate_data_bursts(cls, payload, cc, confirmed)
    per, last = {("r12", True): (10, 6), ("r12", False): (12, 8), ("r34", True): (16, 12), ("r34", False): (18, 14),
                 ("r1", True): (22, 18), ("r1", False): (24, 20)}[(rate, confirmed)]
    nblocks = (length + poc - last) // per + 1
    hdr = l.DataHeader(dpf=l.DataPacketFormats.DataPacketConfirmed if confirmed else l.DataPacketFormats.DataPacketUnconfirmed,
                       is_response_requested=confirmed, pad_octet_count=poc,
                       sap_identifier=l.SAPIdentifier(rng.choice(SAPS) if sap is None else sap),
                       llid_destination=rng.randrange(1, 1 << 24), llid_source=rng.randrange(1, 1 << 24),
                       full_message_flag=l.FullMessageFlag(1), blocks_to_follow=nblocks,
                       resynchronize_flag=l.ResynchronizeFlag(0), fragment_sequence_number=8)
    bursts = l.TransmissionGenerator.generate_full_data_transmission(cls, payload, hdr, csbk_count=k, colour_code=cc)
    return [[b.as_bytes().hex(), "DataAndControl"] for b in bursts]


SYMBOL_MAKERS = [
    ("vh", sym_voice_header), ("tm", sym_terminator), ("dh", sym_data_header), ("cs", sym_csbk), ("rate", sym_rate),
    ("ot", sym_other), ("demb", sym_data_with_emb), ("vs", sym_voice_sync), ("ve", sym_voice_emb), ("vn", sym_voice_nocc),
]


def symbol_variants(rng):
    """one instance of every distinguishable symbol class (used for the (state, symbol) product)"""
    v = []
    for kind in ["group", "u2u", "alias", "aliasblock"]:
        v.append((f"vh:{kind}", sym_voice_header(rng, kind=kind)))
    v.append(("tm", sym_terminator(rng)))
    for fmt in ["unconfirmed", "confirmed", "response", "sdd", "udt"]:
        for btf in ([None] if fmt == "udt" else [0, 1, 2, 3]):
            for a in [0, 1]:
                v.append((f"dh:{fmt}:{btf}:{a}", sym_data_header(rng, fmt=fmt, btf=btf or 0, a=a, sap=3 if (btf or 0) % 2 else None)))
    for btf in [0, 1, 2, 3, 255]:
        v.append((f"cs:pre:{btf}", sym_csbk(rng, preamble=True, btf=btf)))
    v.append(("cs:other", sym_csbk(rng, preamble=False)))
    l = L()
    for rate, n in [("r12", 96), ("r34", 144), ("r1", 192)]:
        v.append((f"{rate}:random", sym_rate(rng, rate=rate, info=rand_bits(rng, n))))
        v.append((f"{rate}:zero", sym_rate(rng, rate=rate, info=l.bitarray("0" * n))))
    v.append(("ot", sym_other(rng)))
    v.append(("demb", sym_data_with_emb(rng)))
    v.append(("vs", sym_voice_sync(rng)))
    v.append(("ve", sym_voice_emb(rng)))
    v.append(("vn", sym_voice_nocc(rng)))
    return v


def state_prefixes(rng):
    """short histories (one slot) that put the tracker into every state class"""
    p = []
    p.append(("idle", []))
    p.append(("idle+stray-block", [sym_rate(rng)]))
    p.append(("voice", [sym_voice_header(rng)]))
    p.append(("voice2hdr", [sym_voice_header(rng), sym_voice_header(rng)]))
    for n in range(0, 6):
        p.append((f"voice:label{n}", [sym_voice_header(rng), sym_voice_sync(rng)] + [sym_voice_emb(rng) for _ in range(n)]))
    p.append(("voice+block", [sym_voice_header(rng), sym_voice_header(rng), sym_rate(rng)]))
    p.append(("voice-late-entry", [sym_voice_header(rng), sym_voice_emb(rng)]))
    p.append(("data:csbk-only", [sym_csbk(rng, preamble=False)]))
    p.append(("data:preamble-done", [sym_csbk(rng, preamble=True, btf=0)]))
    for btf in [1, 2, 3]:
        p.append((f"data:preamble{btf}", [sym_csbk(rng, preamble=True, btf=btf)]))
    for a in [0, 1]:
        for btf in [0, 1, 2, 3]:
            p.append((f"data:hdr:a{a}:btf{btf}", [sym_data_header(rng, fmt="confirmed" if a else "unconfirmed", btf=btf, a=a, sap=3)]))
        p.append((f"data:hdr+block:a{a}", [sym_data_header(rng, fmt="unconfirmed", btf=3, a=a, sap=3), sym_rate(rng, rate="r12")]))
        p.append((f"data:one-before-last:a{a}", [sym_data_header(rng, fmt="unconfirmed", btf=2, a=a, sap=3), sym_rate(rng, rate="r34")]))
    p.append(("data:udt", [sym_data_header(rng, fmt="udt")]))
    p.append(("data:preamble+hdr", [sym_csbk(rng, preamble=True, btf=3), sym_data_header(rng, fmt="unconfirmed", btf=2, a=0, sap=3)]))
    p.append(("data:overrun", [sym_csbk(rng, preamble=True, btf=1), sym_rate(rng, rate="r12"), sym_data_header(rng, btf=1, fmt="unconfirmed")]))
    p.append(("idle-after-data", [sym_data_header(rng, fmt="unconfirmed", btf=1, a=0, sap=3), sym_rate(rng, rate="r12")]))
    p.append(("idle-after-voice", [sym_voice_header(rng), sym_voice_sync(rng), sym_terminator(rng)]))
    return p


# ------------------------------------------------------------------------------------------------
# running the real code
# ------------------------------------------------------------------------------------------------
LABEL = {"Unknown": "U", "VoiceBurstA": "A", "VoiceBurstB": "B", "VoiceBurstC": "C", "VoiceBurstD": "D", "VoiceBurstE": "E", "VoiceBurstF": "F"}
TXT = {"Idle": "I", "VoiceTransmission": "V", "DataTransmission": "D"}
NEXT = {"A": "B", "B": "C", "C": "D", "D": "E", "E": "F", "F": "A"}


def pdu_hex(obj):
    try:
        return obj.as_bits().tobytes().hex()
    except BaseException:  # noqa: identity only; an unserialisable PDU gets a fixed marker on both sides
        return "ee" * 12


def canon_hdr(h):
    l = L()
    if isinstance(h, l.FullLinkControl):
        return "F" + pdu_hex(h)
    if isinstance(h, l.DataHeader):
        return "D" + pdu_hex(h)
    return "X" + type(h).__name__


def canon_block(b):
    l = L()
    if isinstance(b, l.DataHeader):
        return "H" + pdu_hex(b)
    if isinstance(b, l.CSBK):
        return "C" + pdu_hex(b)
    for cls, name in ((l.Rate12Data, "R12"), (l.Rate34Data, "R34"), (l.Rate1Data, "R1")):
        if isinstance(b, cls):
            return f"{name}.{b.packet_type.value}.{b.data.hex() or '-'}.{b.dbsn}.{b.crc32}"
    return "X" + type(b).__name__


class ObserverAbort(BaseException):
    """an observer exception that is not an `Exception` (like asyncio.CancelledError / GeneratorExit)"""


class BadStr(Exception):
    """an exception whose text cannot be produced (met when a logger formats the traceback)"""

    def __str__(self):
        raise RuntimeError("no text")

    __repr__ = __str__


def _unicode_error():
    return UnicodeDecodeError("ascii", b"\xff", 0, 1, "ordinal not in range(128)")


def _cancelled():
    import asyncio

    return asyncio.CancelledError()


# what a raising observer raises from (started, data ended, voice ended); flavour 0 is the historical one.
# The fan-out guards every callback with a bare `except:`: whatever is raised must be swallowed.
FLAVOURS = [
    (lambda: RuntimeError("observer raises"), lambda: KeyError("observer raises"), lambda: AssertionError("observer raises")),
    (lambda: AssertionError("observer raises"), lambda: AssertionError(), lambda: AssertionError("x")),
    (lambda: BrokenPipeError(errno.EPIPE, "Broken pipe"), lambda: OSError(errno.ENOSPC, "No space left on device"),
     lambda: ValueError("I/O operation on closed file.")),
    (lambda: StopIteration(), _unicode_error, lambda: RecursionError("maximum recursion depth exceeded")),
    (lambda: ObserverAbort("observer raises"), lambda: GeneratorExit(), _cancelled),
    (lambda: SystemExit(3), lambda: KeyboardInterrupt(), lambda: MemoryError()),
    (lambda: BadStr(), lambda: BadStr(), lambda: BadStr()),
]

# called before every burst and inside every observer callback (ambient conditions that act between steps)
_HOOK = [None]


def _hook():
    if _HOOK[0] is not None:
        _HOOK[0]()


def make_observer(raises, flavour=0):
    l = L()
    exc = FLAVOURS[flavour % len(FLAVOURS)]

    class Rec(l.TransmissionObserverInterface):
        def __init__(self):
            self.log = []  # canonical strings
            self.raw = []  # (kind, header, blocks) for the oracle

        def transmission_started(self, transmission_type):
            self.log.append("S:" + TXT[transmission_type.name])
            self.raw.append(("S", TXT[transmission_type.name], None, None))
            _hook()
            if raises:
                raise exc[0]()

        def data_transmission_ended(self, transmission_header, blocks):
            bl = [canon_block(b) for b in blocks]
            self.log.append("DE:" + canon_hdr(transmission_header) + ":[" + (",".join(bl) if bl else "-") + "]")
            self.raw.append(("E", "D", transmission_header, list(blocks)))
            _hook()
            if raises:
                raise exc[1]()

        def voice_transmission_ended(self, voice_header, blocks):
            bl = [canon_block(b) for b in blocks]
            self.log.append("VE:" + canon_hdr(voice_header) + ":[" + (",".join(bl) if bl else "-") + "]")
            self.raw.append(("E", "V", voice_header, list(blocks)))
            _hook()
            if raises:
                raise exc[2]()

    if raises and flavour % len(FLAVOURS) != 0:
        # a raising observer that cannot be printed either (a forwarder whose repr reads an unset link): the fan-out
        # must not touch the observer object itself while handling what it raised
        def _no_text(self, *a):
            raise RuntimeError("observer has no text form")

        Rec.__repr__ = Rec.__str__ = Rec.__format__ = _no_text
    return Rec()


_ALPHA = {}


def alpha(hexbytes, btype):
    """abstraction of a parsed burst = the model's input symbol; also returns the oracle's view"""
    key = (hexbytes, btype)
    if key in _ALPHA:
        return _ALPHA[key]
    l = L()
    b = l.Burst.from_bytes(bytes.fromhex(hexbytes), burst_type=l.BurstTypes[btype])
    cc = str(b.colour_code) if (b.has_emb or b.has_slot_type) else "-"
    view = {"kind": None}
    if not b.has_slot_type:
        if b.is_voice_superframe_start:
            tok, view["kind"] = "vs", "vs"
        else:
            tok, view["kind"] = f"ve {cc}", "ve"
    else:
        dt = b.data_type
        DT = l.DataTypes
        if dt == DT.VoiceLCHeader:
            tok = f"vh {pdu_hex(b.data)} {cc}"
            view.update(kind="vh", id=pdu_hex(b.data))
        elif dt == DT.TerminatorWithLC:
            tok = f"tm {pdu_hex(b.data)} {cc}"
            view.update(kind="tm")
        elif dt == DT.DataHeader:
            btf = b.data.get_blocks_to_follow()
            tok = f"dh {'-' if btf is None else btf} {int(b.data.is_response_requested)} {b.data.sap_identifier.value} {pdu_hex(b.data)} {cc}"
            view.update(kind="dh", id=pdu_hex(b.data))
        elif dt == DT.CSBK:
            tok = f"cs {int(b.data.csbko == l.CsbkOpcodes.PreambleCSBK)} {b.data.blocks_to_follow} {pdu_hex(b.data)} {cc}"
            view.update(kind="cs", id=pdu_hex(b.data))
        elif dt in (DT.Rate12Data, DT.Rate34Data, DT.Rate1Data):
            name = {DT.Rate12Data: "r12", DT.Rate34Data: "r34", DT.Rate1Data: "r1"}[dt]
            info = b.info_bits_deinterleaved.tobytes().hex()
            tok = f"{name} {info} {cc}"
            view.update(kind="rate", rate=name, info=info)
        else:
            tok = f"ot {cc}"
            view.update(kind="ot")
    _ALPHA[key] = (tok, view)
    return _ALPHA[key]


class Counter:
    """deterministic stand-in for `secrets.token_bytes`: 0, 1, 2, … as big-endian octets"""

    def __init__(self):
        self.n = 0

    def __call__(self, nbytes=None):
        v = self.n
        self.n += 1
        return v.to_bytes(nbytes or 4, "big")


@contextlib.contextmanager
def quiet(counter):
    l = L()
    old = l.secrets.token_bytes
    l.secrets.token_bytes = counter
    prev = logging.root.manager.disable
    logging.disable(logging.CRITICAL)
    try:
        with contextlib.redirect_stdout(io.StringIO()):
            yield
    finally:
        logging.disable(prev)
        l.secrets.token_bytes = old


# ------------------------------------------------------------------------------------------------
# ambient interpreter / process state: "processing never fails" must not depend on it
# ------------------------------------------------------------------------------------------------
class FailingWriter:
    """a text stream (sys.stdout / sys.stderr / a logging handler's stream) every use of which raises"""

    encoding = "utf-8"
    errors = "strict"
    closed = False

    def __init__(self, make_exc):
        self.make_exc = make_exc
        self.attempts = 0

    def _fail(self, *a, **k):
        self.attempts += 1
        raise self.make_exc()

    write = writelines = flush = fileno = _fail

    def writable(self):
        return True

    def isatty(self):
        return False

    @property
    def buffer(self):
        return self


STREAM_ERRORS = {
    "enospc": lambda: OSError(errno.ENOSPC, "No space left on device"),
    "epipe": lambda: BrokenPipeError(errno.EPIPE, "Broken pipe"),
    "closed": lambda: ValueError("I/O operation on closed file."),
    "ebadf": lambda: OSError(errno.EBADF, "Bad file descriptor"),
    "eagain": lambda: BlockingIOError(errno.EAGAIN, "write could not complete without blocking", 0),
    "readonly": lambda: io.UnsupportedOperation("not writable"),
    "unicode": lambda: UnicodeEncodeError("ascii", "ř", 0, 1, "ordinal not in range(128)"),
    "reentrant": lambda: RuntimeError("reentrant call inside <_io.BufferedWriter name='<stdout>'>"),
}
# Python's own logging only survives OSError from sys.stderr (Handler.handleError); see ctx.assumptions
STDERR_ERRORS = ["enospc", "epipe", "ebadf", "eagain"]

AMBIENTS = (
    ["stdout:" + k for k in STREAM_ERRORS] + ["stdout:pipe", "stdout:closedfile", "stdout:none"]
    + ["stderr:" + k for k in STDERR_ERRORS] + ["both:enospc", "both:epipe", "both:closed-noraise"]
    + ["log:root-debug", "log:root-debug-failing", "log:class-debug", "log:root-debug-stdout-failing"]
    + ["random:reseed", "random:setstate", "secrets:real"]
    + ["clock:backwards", "clock:frozen", "clock:jump"]
    + ["warnings:error"]
)
REAL_ENTROPY = ("random:reseed", "random:setstate", "secrets:real")
CLASS_LOGGERS = ["Transmission", "Timeslot", "Terminal", "TransmissionWatcher", "WithObservers"]


@contextlib.contextmanager
def ambient_env(name, counter):
    """run the body under one ambient condition; nothing reaches the harness' own stdout / stderr.
    Everything that is changed is restored afterwards."""
    l = L()
    fam, _, var = name.partition(":")
    from okdmr.dmrlib.transmission import timeslot as ts_mod

    saved = {
        "stdout": sys.stdout, "stderr": sys.stderr, "token": l.secrets.token_bytes, "disable": logging.root.manager.disable,
        "root_level": logging.root.level, "root_handlers": list(logging.root.handlers), "raise": logging.raiseExceptions,
        "random": _random.getstate(), "time": _time.time, "ts_time": ts_mod.time, "hook": _HOOK[0],
        "loggers": {n: (logging.getLogger(n).level, list(logging.getLogger(n).handlers)) for n in CLASS_LOGGERS},
    }
    to_close = []
    sink_out, sink_err = io.StringIO(), io.StringIO()
    wctx = warnings.catch_warnings()
    wctx.__enter__()
    try:
        sys.stdout, sys.stderr = sink_out, sink_err
        logging.disable(logging.NOTSET)  # logging as an application has it by default: WARNING and above to the last-resort handler
        if name not in REAL_ENTROPY:
            l.secrets.token_bytes = counter
        fmt = logging.Formatter("%(asctime)s %(name)s %(levelname)s %(message)s")
        if fam in ("stdout", "both") and var in STREAM_ERRORS:
            sys.stdout = FailingWriter(STREAM_ERRORS[var])
        if fam in ("stderr", "both") and var in STREAM_ERRORS:
            sys.stderr = FailingWriter(STREAM_ERRORS[var])
            h = logging.StreamHandler()  # binds the failing sys.stderr
            logging.root.handlers = [h]
            logging.root.setLevel(logging.DEBUG)
        if name == "both:closed-noraise":
            # both standard streams closed, logging configured for production (errors of handlers are dropped)
            sys.stdout = FailingWriter(STREAM_ERRORS["closed"])
            sys.stderr = FailingWriter(STREAM_ERRORS["closed"])
            logging.raiseExceptions = False
            logging.root.handlers = [logging.StreamHandler()]
            logging.root.setLevel(logging.DEBUG)
        if name == "stdout:pipe":
            # the reader of the pipe has gone: BrokenPipeError from the real descriptor (SIGPIPE is ignored by Python)
            rfd, wfd = os.pipe()
            os.close(rfd)
            sys.stdout = os.fdopen(wfd, "w", buffering=1)
            to_close.append(sys.stdout)
        elif name == "stdout:closedfile":
            f = io.StringIO()
            f.close()
            sys.stdout = f
        elif name == "stdout:none":
            sys.stdout = None  # pythonw / detached daemon
        elif fam == "log":
            logging.root.setLevel(logging.DEBUG)
            if var == "root-debug":
                h = logging.StreamHandler(io.StringIO())
                h.setFormatter(fmt)
                logging.root.handlers = [h]
            elif var == "root-debug-failing":
                h = logging.StreamHandler(FailingWriter(STREAM_ERRORS["enospc"]))
                h.setFormatter(fmt)
                logging.root.handlers = [h]
            elif var == "root-debug-stdout-failing":
                # the usual `basicConfig(stream=sys.stdout, level=DEBUG)` of the library's tools, on a dead stdout
                sys.stdout = FailingWriter(STREAM_ERRORS["epipe"])
                h = logging.StreamHandler(sys.stdout)
                h.setFormatter(fmt)
                logging.root.handlers = [h]
            else:
                logging.root.setLevel(saved["root_level"])
                for n in CLASS_LOGGERS:
                    lg = logging.getLogger(n)
                    lg.setLevel(logging.DEBUG)
                    h = logging.StreamHandler(io.StringIO())
                    h.setFormatter(fmt)
                    lg.handlers = [h]
        elif name == "random:reseed":
            _HOOK[0] = lambda: _random.seed(20260926)
        elif name == "random:setstate":
            st = _random.getstate()
            _HOOK[0] = lambda: _random.setstate(st)
        elif fam == "clock":
            box = [2.0e9]

            def clock():
                if var == "backwards":
                    box[0] -= 3600.0
                elif var == "jump":
                    box[0] += 86400.0 * 365
                return box[0]

            _time.time = clock
            ts_mod.time = clock
        elif name == "warnings:error":
            warnings.simplefilter("error")
        yield
    finally:
        wctx.__exit__(None, None, None)
        _HOOK[0] = saved["hook"]
        _time.time, ts_mod.time = saved["time"], saved["ts_time"]
        _random.setstate(saved["random"])
        for n, (lvl, hs) in saved["loggers"].items():
            logging.getLogger(n).setLevel(lvl)
            logging.getLogger(n).handlers = hs
        logging.root.handlers = saved["root_handlers"]
        logging.root.setLevel(saved["root_level"])
        logging.raiseExceptions = saved["raise"]
        logging.disable(saved["disable"])
        l.secrets.token_bytes = saved["token"]
        sys.stdout, sys.stderr = saved["stdout"], saved["stderr"]
        for f in to_close:
            try:
                f.close()
            except (OSError, ValueError):
                pass


@contextlib.contextmanager
def inherit_env(counter):
    """no redirection at all: the standard streams and the logging configuration the process has (used by
    the child process whose descriptors 1 and 2 are really broken)"""
    l = L()
    old = l.secrets.token_bytes
    l.secrets.token_bytes = counter
    try:
        yield
    finally:
        l.secrets.token_bytes = old


def slot_state(ts):
    tx = ts.transmission
    return " ".join([
        TXT[tx.type.name], str(tx.blocks_expected), str(tx.blocks_received), LABEL[tx.last_voice_burst.name],
        "1" if tx.confirmed else "0", str(len(tx.blocks)), "-" if tx.header is None else canon_hdr(tx.header),
        str(int.from_bytes(tx.stream_no, "big")), str(ts.colour_code), str(ts.rx_sequence), "1" if ts.reset_rx_sequence else "0",
    ])


# ------------------------------------------------------------------------------------------------
# calls the tracker must reject (error paths).  A history element ["bad", kind, slot, hex, burst type] is such a
# call; it is not a burst of the alphabet, the model is not told about it, and the valid bursts around it
# must be answered exactly as without it.
# ------------------------------------------------------------------------------------------------
BAD_KINDS = [
    "slot:0", "slot:3", "slot:-1", "slot:str", "slot:none", "slot:tuple",
    "burst:none", "burst:bytes", "burst:object", "burst:int", "burst:str", "burst:dict", "burst:class",
    "ts:none", "ts:bytes", "tx:none", "tx:int",
    "obs:add-object", "obs:add-none", "obs:add-class", "obs:remove-absent", "obs:tx-add-none", "obs:remove-present",
    "terminal:id0", "terminal:id-big", "terminal:id-none", "terminal:id-str",
    "watch:slot7", "watch:none", "watch:no-target",
]
# coverage round (neither was executed by any generated history): "obs:remove-present" registers one more observer and removes it again
# (remove_observer's successful return) - it must never receive a notification afterwards; "watch:no-target" hands the watcher a parseable
# burst that names no target radio (target id 0, a burst that did not come out of an IP Site Connect frame): the watcher ignores it
# (returns None, creates no terminal).  Both leave the tracker's state alone and deliver nothing, like every other call of this list.
# corrupted copies of a valid data / control burst: the colour code is read before the parse fails, so
# they are only injected directly in front of the burst they were copied from (same slot)
TWIN_KINDS = ["twin:none", "twin:trunc", "twin:empty", "twin:long", "twin:bytes"]
# twins that fail the same way when asserts are stripped (python -O)
TWIN_KINDS_NOASSERT = ["twin:none"]


def do_bad_call(term, watch, kind, slot, hexbytes, btype, info=None):
    """perform one rejected call; returns the canonical exception or 'returned' ('VIOLATES: ...' when a call that has a stated
    outcome does something else)"""
    l = L()
    fam, _, var = kind.partition(":")
    burst = l.Burst.from_bytes(bytes.fromhex(hexbytes), burst_type=l.BurstTypes[btype])
    try:
        if fam == "slot":
            bad = {"0": 0, "3": 3, "-1": -1, "str": str(slot), "none": None, "tuple": (slot,)}[var]
            term.process_incoming_burst(burst, bad)
        elif fam == "burst":
            x = {"none": None, "bytes": bytes.fromhex(hexbytes), "object": object(), "int": 0, "str": hexbytes, "dict": {},
                 "class": l.Burst}[var]
            term.process_incoming_burst(x, slot)
        elif fam == "ts":
            term.timeslots[slot].process_burst(None if var == "none" else bytes.fromhex(hexbytes))
        elif fam == "tx":
            term.timeslots[slot].transmission.process_packet(None if var == "none" else 7)
        elif fam == "obs":
            if var == "add-object":
                term.add_observer(object())
            elif var == "add-none":
                term.add_observer(None)
            elif var == "add-class":
                term.add_observer(l.TransmissionObserverInterface)
            elif var == "tx-add-none":
                term.timeslots[slot].transmission.add_observer(None)
            elif var == "remove-present":
                extra = make_observer(False)
                had = list(term.observers)
                r1 = term.add_observer(extra)
                r2 = term.remove_observer(extra)
                if info is not None:
                    info.setdefault("removed_observers", []).append(extra)
                if r1 is not term or r2 is not term or len(term.observers) != len(had) or any(a is not b for a, b in zip(term.observers, had)):
                    return "VIOLATES: add_observer / remove_observer of a new observer do not return the terminal or do not restore the observer list"
            else:
                term.remove_observer(make_observer(False))
        elif fam == "terminal":
            l.Terminal({"id0": 0, "id-big": 1 << 24, "id-none": None, "id-str": "1"}[var], [])
        elif fam == "watch":
            target = watch if watch is not None else term
            if var == "no-target":
                if watch is None:
                    from okdmr.dmrlib.transmission.transmission_watcher import TransmissionWatcher

                    watch = TransmissionWatcher(list(term.observers) if term is not None else [])
                n0 = dict(watch.terminals)
                burst.target_radio_id = 0
                if burst.target_radio_id:
                    # a CSBK / data header names its target itself (Burst.guess_target_radio_id): take a voice-sync burst, which cannot
                    burst = l.Burst.from_bytes(bytes(13) + bytes.fromhex("07 55 fd 7d f7 5f 70") + bytes(13), burst_type=l.BurstTypes.Vocoder)
                    burst.target_radio_id = 0
                burst.timeslot = slot
                out = watch.process_burst(burst)
                if out is not None or watch.terminals != n0:
                    return "VIOLATES: a burst without target radio id is not ignored by the watcher (returned " + type(out).__name__ + f", terminals {sorted(watch.terminals)})"
            elif var == "slot7":
                if watch is not None:
                    burst.target_radio_id = 1
                    burst.timeslot = 7
                    watch.process_burst(burst)
                else:
                    term.process_incoming_burst(burst, 7)
            else:
                if watch is not None:
                    watch.process_burst(None)
                else:
                    target.process_incoming_burst(None, slot)
        elif fam == "twin":
            if var == "none":
                burst.full_bits = None
            elif var == "trunc":
                burst.full_bits = burst.full_bits[:200]
            elif var == "empty":
                burst.full_bits = burst.full_bits[:0]
            elif var == "long":
                burst.full_bits = burst.full_bits + burst.full_bits
            else:
                burst.full_bits = burst.full_bits.tobytes()
            if watch is not None:
                burst.target_radio_id = 1
                burst.timeslot = slot
                watch.process_burst(burst)
            else:
                term.process_incoming_burst(burst, slot)
        else:
            raise KeyError(kind)
    except BaseException as e:  # noqa
        return impl_error(e)
    return "returned"


def mask_twin(state):
    """a corrupted twin legitimately leaves its colour code (and, inside a voice call, the label Unknown, which the
    burst it was copied from leaves as well): everything else must be untouched"""
    out = []
    for part in state.split(" / "):
        f = part.split(" ")
        f[3] = f[8] = "*"
        out.append(" ".join(f))
    return " / ".join(out)


def inject_bad_calls(rng, history, first=True, density=0.25, noassert=False):
    """interleave rejected calls into a history (always one before the first burst when `first`)"""
    out = []
    ref = None
    for el in history:
        if el[0] != "bad":
            ref = el
            break
    if ref is None:
        return list(history)
    twins = TWIN_KINDS_NOASSERT if noassert else TWIN_KINDS
    # without asserts Terminal(0) is created (and draws two stream ids from the counter that stands in for the entropy source)
    kinds = [k for k in BAD_KINDS if not (noassert and k.startswith("terminal:"))]
    for i, el in enumerate(history):
        if el[0] == "bad":
            out.append(el)
            continue
        n = 0
        if i == 0 and first:
            n = rng.randrange(1, 4)
        elif rng.random() < density:
            n = rng.randrange(1, 3)
        for _ in range(n):
            out.append(["bad", rng.choice(kinds), el[0] if rng.random() < 0.7 else 3 - el[0], el[1], el[2]])
        if el[2] == "DataAndControl" and rng.random() < density:
            try:
                _, view = alpha(el[1], el[2])
            except BaseException:  # noqa
                view = {"kind": None}
            if view["kind"] in ("vh", "tm", "dh", "cs", "rate", "ot"):
                out.append(["bad", rng.choice(twins), el[0], el[1], el[2]])
        out.append(el)
        ref = el
    if rng.random() < 0.5:
        out.append(["bad", rng.choice(kinds), ref[0], ref[1], ref[2]])
    return out


# ------------------------------------------------------------------------------------------------
# round 6: read-only calls interleaved into a history (harness/ro_calls.py).  A history element
# ["ro", path, kind, name, flags, args] is one observer-style call (Terminal.debug(), repr(timeslot), Transmission.is_last_block(),
# get_rx_sequence(increment=False), the logging helpers, reading every attribute ...) on a live object of the tracker, found by
# introspection; like a rejected call it is not a burst of the alphabet, the model is not told about it, it must change nothing
# (deep picture of terminal / time slots / transmissions / watcher, class and module data, the entropy counter, the observers' logs)
# and the bursts around it must be answered exactly as without it.
# ------------------------------------------------------------------------------------------------
RO_POOLS = {"msg": ["status", "%s %d", ""], "exc": [None]}


def ro_roots(term, watch):
    roots = {"terminal": term}
    if watch is not None:
        roots["watcher"] = watch
    return roots


def ro_dynamic(slot):
    """objects that exist only while a transmission is open: its header and its first / second block (protocol calls only)"""
    tx = ["terminal", ["a", "timeslots"], ["k", slot - 1], ["a", "transmission"]]
    return [tx + [["a", "header"]], tx + [["a", "blocks"], ["i", 0]], tx + [["a", "blocks"], ["i", 1]]]


_RO_CAT = {}


def ro_specs(watcher):
    """the catalogue of a new tracker (discovered once per process; what a change ADDS to the classes is in it)"""
    if watcher not in _RO_CAT:
        l = L()
        from okdmr.dmrlib.transmission.transmission_watcher import TransmissionWatcher

        with quiet(Counter()):
            if watcher:
                watch = TransmissionWatcher([])
                watch.ensure_terminal(1)
                term = watch.terminals[1]
            else:
                watch, term = None, l.Terminal(1, [])
            skipped = []
            specs = RO.all_specs(ro_roots(term, watch), RO_POOLS, _random.Random(8), skipped)
        for slot in (1, 2):
            for path in ro_dynamic(slot):
                specs += [[path, "proto", p, {}, {}] for p in RO.PROTO_ALWAYS]
        _RO_CAT[watcher] = (specs, skipped)
    return _RO_CAT[watcher]


def inject_ro_calls(rng, history, watcher=False, density=0.3):
    """interleave read-only calls (a random subset of the catalogue, rotating with the seed) between the elements of a history"""
    specs, _ = ro_specs(bool(watcher))
    out = []
    n_total = 0
    for i, el in enumerate(history):
        n = 0
        if rng.random() < density or (i == len(history) // 2 and n_total == 0):
            n = rng.randrange(1, 3)
        for _ in range(n):
            out.append(["ro"] + rng.choice(specs))
            n_total += 1
        out.append(el)
    if rng.random() < 0.5:
        out.append(["ro"] + rng.choice(specs))
    return out


def do_ro_call(term, watch, observers, counter, spec, step, info, fails):
    roots = ro_roots(term, watch)
    try:
        obj = RO.resolve(spec[0], roots)
    except Exception:  # noqa: the object of this path does not exist in this state (no header yet, no watcher)
        obj = None
    if obj is None or not RO.is_lib_obj(obj):
        info.setdefault("ro", []).append([spec[2] if spec[1] == "proto" else "call:" + spec[2], "no-such-object"])
        return
    text = RO.spec_text(spec)
    before = [len(o.log) for o in observers]
    s0 = RO.snapshot(roots, extra=counter.n)
    answer, _ = RO.perform(obj, spec, other=term.timeslots[2])
    s1 = RO.snapshot(roots, extra=counter.n)
    info.setdefault("ro", []).append([spec[2] if spec[1] == "proto" else "call:" + spec[2], answer])
    if s0 != s1:
        fails.append(("read-only-call", f"the read-only call {text} (answer: {answer}) at step {step} changed the state of the tracker", "nothing changes",
                      RO.first_diff(s0, s1)))
    if [len(o.log) for o in observers] != before:
        fails.append(("read-only-call", f"the read-only call {text} (answer: {answer}) at step {step} delivered notifications",
                      [], [o.log[n:] for o, n in zip(observers, before)][:1]))


def run_history(raises, history, watcher=False, ambient=None, flavour=0, info=None):
    """feed one history to a real Terminal (directly, or through a TransmissionWatcher that ends with
    end_all_transmissions).  Returns (lines for the model, impl outputs, oracle failures)."""
    l = L()
    counter = Counter()
    lines, outs, fails = [], [], []
    info = {} if info is None else info
    # under these conditions what the UDP/IP diagnostic of end_data_transmission did can be observed from outside
    # (standard output a recording sink or a failing writer that counts, warnings on the standard error sink)
    fam, _, var = (ambient or "").partition(":")
    if fam == "stdout" and var in STREAM_ERRORS:
        info["observe_diag"] = 1
    elif ambient in ("clock:frozen", "clock:jump", "warnings:error"):
        info["observe_diag"] = 0
    env = quiet(counter) if ambient is None else inherit_env(counter) if ambient == "inherit" else ambient_env(ambient, counter)
    with env:
        streams = (sys.stdout, sys.stderr)
        try:
            return _run_history(raises, history, watcher, flavour, info, counter, lines, outs, fails)
        finally:
            info.pop("removed_observers", None)
            # how often the code under test wrote (or tried to write) to the standard streams
            info["write_attempts"] = sum(getattr(x, "attempts", 0) for x in streams)
            if isinstance(streams[0], io.StringIO) and not streams[0].closed:
                info["printed"] = streams[0].getvalue().count("[IPv4 id:")


def diag_marks():
    """(writes attempted on a failing stdout, datagrams printed on a recording stdout, decode warnings on stderr)"""
    out, err = sys.stdout, sys.stderr
    return (getattr(out, "attempts", 0),
            out.getvalue().count("[IPv4 id:") if isinstance(out, io.StringIO) and not out.closed else 0,
            err.getvalue().count("cannot decode UDP/IPv4 compressed header") if isinstance(err, io.StringIO) and not err.closed else 0)


def _run_history(raises, history, watcher, flavour, info, counter, lines, outs, fails):
    l = L()
    dead = info.get("observe_diag")
    if True:
        observers = [make_observer(r, flavour) for r in raises]
        if watcher:
            from okdmr.dmrlib.transmission.transmission_watcher import TransmissionWatcher

            watch = TransmissionWatcher(observers)
            watch.ensure_terminal(1)
            term = watch.terminals[1]
        else:
            watch = None
            term = l.Terminal(1, observers)
        lines.append("t.init " + ("".join("1" if r else "0" for r in raises)))
        outs.append("ok")
        shadow = {1: Shadow(), 2: Shadow()}
        seen_streams = {int.from_bytes(term.timeslots[s].transmission.stream_no, "big") for s in (1, 2)}
        if len(seen_streams) != 2:
            fails.append(("stream-id-not-fresh", "the two time slots start with the same stream id", None, None))
        for step, el in enumerate(history):
            _hook()
            if el[0] == "ro":
                do_ro_call(term, watch, observers, counter, el[1:], step, info, fails)
                continue
            if el[0] == "bad":
                _, kind, slot, hexbytes, btype = el
                before = [len(o.log) for o in observers]
                st0 = slot_state(term.timeslots[1]) + " / " + slot_state(term.timeslots[2])
                res = do_bad_call(term, watch, kind, slot, hexbytes, btype, info=info)
                info.setdefault("bad", []).append([kind, res, len(lines) == 1])
                if res.startswith("VIOLATES"):
                    fails.append(("error-path-state", f"the call {kind} at step {step}: {res[10:]}", "ignored / restored", res))
                st1 = slot_state(term.timeslots[1]) + " / " + slot_state(term.timeslots[2])
                if kind.startswith("twin:"):
                    if res == "returned":
                        # the corrupted burst was processed (e.g. a length assert stripped by -O): what follows is
                        # no longer a history over the alphabet; the run stops here and is not compared
                        fails.append(("TAINT", kind, None, None))
                        return lines, outs, fails
                    st0, st1 = mask_twin(st0), mask_twin(st1)
                if st0 != st1:
                    fails.append(("error-path-state", f"the rejected call {kind} (answer: {res}) at step {step} changed the state of the tracker", st0, st1))
                if [len(o.log) for o in observers] != before:
                    fails.append(("error-path-state", f"the rejected call {kind} (answer: {res}) at step {step} delivered notifications",
                                  [], [o.log[n:] for o, n in zip(observers, before)][:1]))
                continue
            slot, hexbytes, btype = el
            try:
                tok, view = alpha(hexbytes, btype)
            except BaseException:  # noqa: not a parseable burst: outside the property's domain, not fed
                continue
            burst = l.Burst.from_bytes(bytes.fromhex(hexbytes), burst_type=l.BurstTypes[btype])
            before = [len(o.log) for o in observers]
            marks = diag_marks() if dead is not None else None
            try:
                if watch is not None:
                    burst.target_radio_id = 1
                    burst.timeslot = slot
                    out = watch.process_burst(burst)
                else:
                    out = term.process_incoming_burst(burst, slot)
            except BaseException as e:  # noqa
                lines.append(f"t.burst {slot} {tok}")
                outs.append(impl_error(e))
                fails.append(("process-burst-raises", f"process_incoming_burst raised {type(e).__name__}: {str(e)[:120]} at step {step}", "no exception", impl_error(e)))
                return lines, outs, fails
            lines.append(f"t.burst {slot} {tok}")
            ts = term.timeslots[slot]
            news = [o.log[n:] for o, n in zip(observers, before)]
            stream = int.from_bytes(out.stream_no, "big")
            outs.append(" ".join([
                str(out.sequence_no), LABEL[out.voice_burst.name], str(stream), str(ts.colour_code),
                "|".join(";".join(n) if n else "-" for n in news) if observers else "-",
            ]))
            # ---------------- oracle: the property itself, from shadow bookkeeping
            raw_news = [o.raw[n:] for o, n in zip(observers, before)]
            for j in range(1, len(observers)):
                if news[j] != news[0]:
                    fails.append(("observer-isolation", f"observer {j} received different events than observer 0 at step {step}", news[0], news[j]))
            evs = raw_news[0] if observers else []
            if observers:
                fails += shadow[slot].step(step, view, evs, out, ts, stream, seen_streams)
            # (without any observer the notifications are not visible from outside: model correspondence only)
            seen_streams.add(stream)
            ends = [e for e in evs if e[0] == "E" and e[1] == "D"]
            if marks is not None and len(ends) == 1:
                # model vs code: what the diagnostic did with this transmission (decoded / undecodable / skipped)
                m2 = diag_marks()
                tried, printed, warned = (m2[0] - marks[0], m2[1] - marks[1], m2[2] - marks[2])
                ud = b"".join(b.data for b in ends[0][3] if isinstance(b, (l.Rate12Data, l.Rate34Data, l.Rate1Data)))
                sap = getattr(getattr(ends[0][2], "sap_identifier", None), "value", "-")
                if printed and not tried and not warned:
                    got = "printed"
                elif tried and warned and not printed:
                    got = "print-failed"
                elif warned and not tried and not printed:
                    got = "undecodable"
                elif not (tried or printed or warned):
                    got = "skipped"
                else:
                    got = f"tried={tried} printed={printed} warned={warned}"
                info.setdefault("diag_pairs", []).append([f"t.diag {sap} {dead} {ud.hex() or '-'}", got])
        if watch is not None:
            # end_all_transmissions: every open transmission with a header is ended, by its own kind
            before = [len(o.log) for o in observers]
            opened = {s: shadow[s].open for s in (1, 2)}
            try:
                watch.end_all_transmissions()
            except BaseException as e:  # noqa
                lines.append("t.flush")
                outs.append(impl_error(e))
                fails.append(("process-burst-raises", f"end_all_transmissions raised {type(e).__name__}", "no exception", impl_error(e)))
                return lines, outs, fails
            news = [o.log[n:] for o, n in zip(observers, before)]
            lines.append("t.flush")
            outs.append("|".join(";".join(n) if n else "-" for n in news) if observers else "-")
            if observers:
                ended = [e[1] for e in observers[0].raw[before[0]:] if e[0] == "E"]
                allowed = [opened[s] for s in (1, 2) if opened[s]]
                if any(e[0] == "S" for e in observers[0].raw[before[0]:]) or any(k not in allowed for k in ended) or len(ended) > len(allowed):
                    fails.append(("ended-without-open-start", "end_all_transmissions delivered an end that closes no open start of its kind", allowed, ended))
                else:
                    # exactly the header and the blocks received since the start, here too (slot 1 is ended before slot 2;
                    # an open data transmission that has seen no header yet is not ended)
                    due = [s for s in (1, 2) if opened[s] == "V" or (opened[s] == "D" and shadow[s].hdr is not None)]
                    ends = [e for e in observers[0].raw[before[0]:] if e[0] == "E"]
                    if [e[1] for e in ends] == [opened[s] for s in due]:
                        for s, e in zip(due, ends):
                            fails += shadow[s].check_end("end_all_transmissions", e)
            for s in (1, 2):
                if term.timeslots[s].transmission.type.name == "VoiceTransmission":
                    fails.append(("not-idle-after-end", f"slot {s} still in a voice transmission after end_all_transmissions", "Idle", "VoiceTransmission"))
        for o in info.pop("removed_observers", []):
            if o.log:
                fails.append(("observer-isolation", "an observer that was removed again (remove_observer) still received notifications", [], o.log[:3]))
        if info.get("ro_sweep"):
            # the final look through every observer of every object (the run without interleaved calls does the same): what the
            # observers THEMSELVES answer at the end, and the deep picture, must not depend on the calls made on the way
            roots = ro_roots(term, watch)
            before = [len(o.log) for o in observers]
            info["ro_final"], specs, changed = RO.checked_sweep(roots, RO_POOLS, 5 + sum(1 for el in history if el[0] not in ("ro", "bad")), lambda: counter.n)
            if changed or [len(o.log) for o in observers] != before:
                info["ro_sweep_changed"] = [changed or "notifications were delivered", specs]
        lines.append("t.state")
        outs.append(slot_state(term.timeslots[1]) + " / " + slot_state(term.timeslots[2]) + " / " + str(counter.n))
    return lines, outs, fails


class Shadow:
    """per time slot: what the property allows next, derived from the bursts fed and the events seen only"""

    def __init__(self):
        self.open = None  # kind of the last 'started' that has not been ended
        self.acc = []  # contributions since that start
        self.hdr = None
        self.since_end = 0
        self.prev_label = "U"

    def contribute(self, view):
        k = view["kind"]
        if k == "dh":
            self.acc.append(("H", view["id"]))
            self.hdr = ("D", view["id"])
        elif k == "cs":
            self.acc.append(("C", view["id"]))
        elif k == "rate":
            self.acc.append(("R", view["rate"], view["info"]))
        elif k == "vh":
            self.hdr = ("F", view["id"])

    def check_end(self, step, ev):
        l = L()
        f = []
        _, kind, hdr, blocks = ev
        if self.open != kind:
            f.append(("ended-without-open-start", f"'{kind}' ended delivered at step {step} while the open started is {self.open}", self.open, kind))
        else:
            exp_hdr = self.hdr
            got_hdr = (canon_hdr(hdr)[0], canon_hdr(hdr)[1:])
            if exp_hdr != got_hdr:
                f.append(("ended-wrong-header", f"ended at step {step} hands over a header that is not the last one received since the start", exp_hdr, got_hdr))
            ok = len(blocks) == len(self.acc)
            if ok:
                for b, c in zip(blocks, self.acc):
                    if c[0] == "H":
                        ok &= isinstance(b, l.DataHeader) and pdu_hex(b) == c[1]
                    elif c[0] == "C":
                        ok &= isinstance(b, l.CSBK) and pdu_hex(b) == c[1]
                    else:
                        cls = {"r12": l.Rate12Data, "r34": l.Rate34Data, "r1": l.Rate1Data}[c[1]]
                        ok &= isinstance(b, cls) and len(b.data) > 0 and b.data.hex() in c[2]
            if not ok:
                f.append(("ended-wrong-blocks", f"ended at step {step} does not hand over exactly the blocks received since the start",
                          [list(c[:2]) for c in self.acc], [canon_block(b)[:40] for b in blocks]))
        self.open = None
        return f

    def step(self, step, view, evs, out, ts, stream, seen_streams):
        f = []
        tx = ts.transmission
        # sequence numbers
        exp_seq = (self.since_end + 1) % 256
        if out.sequence_no != exp_seq:
            f.append(("rx-sequence", f"sequence number at step {step}", exp_seq, out.sequence_no))
        # voice labels
        label = LABEL[out.voice_burst.name]
        if self.open == "V":
            if view["kind"] == "vs":
                exp_label = "A"
            elif view["kind"] == "ve":
                exp_label = NEXT.get(self.prev_label, "U")
            else:
                exp_label = "U"
            self.prev_label = label
        else:
            exp_label = "A" if view["kind"] == "vs" else "U"
            self.prev_label = "U"
        if label != exp_label:
            f.append(("voice-label", f"voice burst label at step {step}", exp_label, label))
        # events
        started = [i for i, e in enumerate(evs) if e[0] == "S"]
        if len(started) > 1:
            f.append(("two-starts", f"two started notifications for one burst at step {step}", 1, len(started)))
        if started:
            i = started[0]
            for e in evs[:i]:
                f += self.check_end(step, e)
            self.open, self.acc, self.hdr, self.prev_label = evs[i][1], [], None, "U"
            self.contribute(view)
            for e in evs[i + 1:]:
                if e[0] == "E":
                    f += self.check_end(step, e)
        else:
            self.contribute(view)
            for e in evs:
                f += self.check_end(step, e)
        ended = any(e[0] == "E" for e in evs)
        self.since_end = 0 if ended else self.since_end + 1
        # after an end: idle, counters zero, fresh stream id
        if int.from_bytes(tx.stream_no, "big") != stream:
            f.append(("stream-id-mismatch", f"returned burst does not carry the tracker's stream id at step {step}", int.from_bytes(tx.stream_no, "big"), stream))
        if ended:
            if stream in seen_streams:
                f.append(("stream-id-not-fresh", f"stream id after the end at step {step} was used before", "fresh", stream))
            if evs[-1][0] == "E":
                st = (tx.type.name, tx.blocks_expected, tx.blocks_received, len(tx.blocks), tx.header is None)
                if st != ("Idle", 0, 0, 0, True):
                    f.append(("not-idle-after-end", f"tracker state after the ended notification at step {step}", ["Idle", 0, 0, 0, True], list(st)))
            else:
                if TXT[tx.type.name] != evs[-1][1]:
                    f.append(("not-idle-after-end", f"tracker type after end+start at step {step}", evs[-1][1], TXT[tx.type.name]))
        if ts.reset_rx_sequence:
            f.append(("reset-flag-left-set", f"reset_rx_sequence still set after step {step}", False, True))
        return f


# ------------------------------------------------------------------------------------------------
# histories
# ------------------------------------------------------------------------------------------------
def corpus(rng):
    """historically failing inputs first (KNOWN_FINDINGS.txt: e6dc4ce, 6fc831f, 48aece2)"""
    l = L()
    c = []
    zero12 = sym_rate(rng, rate="r12", info=l.bitarray("0" * 96), cc=1)
    hdr_udp = sym_data_header(rng, fmt="unconfirmed", btf=1, a=0, sap=3, cc=1)
    c.append(("fixed:e6dc4ce udp-diagnostic both ports extended", [[1] + hdr_udp, [1] + zero12]))
    c.append(("fixed:e6dc4ce then next header", [[1] + hdr_udp, [1] + zero12, [1] + hdr_udp, [1] + zero12]))
    one = l.bitarray("0" * 96)
    one[33:40] = 1
    c.append(("fixed:e6dc4ce one port extended, confirmed", [
        [2] + sym_data_header(rng, fmt="confirmed", btf=1, a=1, sap=3), [2] + sym_rate(rng, rate="r12", info=l.bitarray("0" * 16) + one[:80])]))
    c.append(("fixed:e6dc4ce trailing end (csbk preamble count)", [
        [1] + sym_csbk(rng, preamble=True, btf=2), [1] + hdr_udp, [1] + sym_rate(rng, rate="r34", info=l.bitarray("0" * 144))]))
    c.append(("fixed:6fc831f data block completes a voice transmission", [[1] + sym_voice_header(rng, kind="group"), [1] + sym_rate(rng, rate="r12")]))
    c.append(("fixed:6fc831f talker alias header repr", [[1] + sym_voice_header(rng, kind="alias"), [1] + sym_rate(rng, rate="r1")]))
    c.append(("fixed:6fc831f two headers two blocks", [[2] + sym_voice_header(rng), [2] + sym_voice_header(rng), [2] + sym_rate(rng), [2] + sym_rate(rng), [2] + sym_voice_sync(rng)]))
    c.append(("fixed:48aece2 vocoder burst without colour code", [[1] + sym_voice_nocc(rng), [1] + sym_voice_header(rng), [1] + sym_voice_sync(rng), [1] + sym_voice_nocc(rng), [1] + sym_voice_emb(rng)]))
    return c


def voice_fragment(rng, n_max=14):
    f = []
    if rng.random() < 0.85:
        f.append(sym_voice_header(rng))
        if rng.random() < 0.15:
            f.append(sym_voice_header(rng))
    n = rng.randrange(0, n_max)
    pos = 0 if rng.random() < 0.8 else rng.randrange(1, 6)
    for _ in range(n):
        r = rng.random()
        if r < 0.04:
            f.append(sym_rate(rng))
        elif r < 0.07:
            f.append(sym_voice_nocc(rng))
            pos += 1
        elif r < 0.1:
            pos += 1  # a lost burst
        elif pos % 6 == 0 and rng.random() < 0.9:
            f.append(sym_voice_sync(rng))
            pos += 1
        else:
            f.append(sym_voice_emb(rng))
            pos += 1
    if rng.random() < 0.7:
        f.append(sym_terminator(rng))
    return f


def data_fragment(rng):
    f = generated_transmission(rng)
    r = rng.random()
    if r < 0.45:
        return f
    if r < 0.6 and len(f) > 1:
        return f[: rng.randrange(1, len(f))]  # truncated
    if r < 0.7 and len(f) > 1:
        del f[rng.randrange(len(f))]  # one burst lost
        return f
    if r < 0.8:
        i = rng.randrange(len(f))
        return f[: i + 1] + [f[i]] + f[i + 1:]  # one burst repeated
    if r < 0.9:
        i = rng.randrange(len(f) + 1)
        return f[:i] + [rng.choice(SYMBOL_MAKERS)[1](rng)] + f[i:]  # a foreign burst in between
    rng.shuffle(f)
    return f


def random_history(rng, max_len):
    target = rng.randrange(1, max_len + 1)
    streams = {1: [], 2: []}
    for slot in (1, 2):
        while len(streams[slot]) < target:
            r = rng.random()
            if r < 0.3:
                streams[slot] += voice_fragment(rng)
            elif r < 0.6:
                streams[slot] += data_fragment(rng)
            else:
                streams[slot] += [rng.choice(SYMBOL_MAKERS)[1](rng) for _ in range(rng.randrange(1, 5))]
    h = []
    p1 = rng.choice([0.5, 0.5, 0.9, 0.1, 1.0])
    while len(h) < target and (streams[1] or streams[2]):
        slot = 1 if (rng.random() < p1 and streams[1]) or not streams[2] else 2
        h.append([slot] + streams[slot].pop(0))
    return h


def long_voice(rng, n):
    """more than 256 bursts without an end: the sequence number wraps"""
    h = [[1] + sym_voice_header(rng)]
    pool = [sym_voice_sync(rng)] + [sym_voice_emb(rng) for _ in range(5)]
    for i in range(n):
        h.append([1] + pool[i % 6])
    h.append([1] + sym_terminator(rng))
    h.append([1] + sym_voice_emb(rng))
    return h


def many_transmissions(rng, n):
    """n complete short transmissions in a row (two or three bursts each, voice and data mixed, both slots): many
    notifications per observer, e.g. a fan-out that gives up on an observer after its k-th exception"""
    l = L()
    vh, tm = sym_voice_header(rng, kind="group"), sym_terminator(rng)
    dh = sym_data_header(rng, fmt="unconfirmed", btf=1, a=0, sap=3)
    blk = sym_rate(rng, rate="r12", info=l.bytes_to_bits(bytes.fromhex("123400010141424344454647")))
    vs = sym_voice_sync(rng)
    h = []
    for i in range(n):
        slot = 1 + (i // 3) % 2
        if i % 2:
            h += [[slot] + dh, [slot] + blk]
        else:
            h += [[slot] + vh, [slot] + vs, [slot] + tm]
    return h


# ------------------------------------------------------------------------------------------------
# round 4: exact totals at wrap points.  (1) transmissions whose END falls on the 253rd … 259th, 509th … 515th,
# 1021st … 1027th burst since the last restart of the numbering (the ending burst itself numbered …, 255, 0, 1, …),
# with more bursts behind the end; (2) transmissions that stay open for 250 … 300 / 510 … 520 blocks (no count-down
# to end them) and are then ended from outside: every block received since the start is handed over.
# ------------------------------------------------------------------------------------------------
WRAP_TOTALS = [m * 256 + d for m in (1, 2, 4) for d in range(-3, 4)]
WRAP_KINDS = ["voice", "filler+generated", "open-ended-by-voice-header", "generated-256", "filler+ended-by-count", "voice-after-restart", "voice-two-headers"]
OPEN_COUNTS_QUICK = [250, 254, 255, 256, 257, 258, 275, 300, 510, 511, 512, 513, 514, 520]
OPEN_COUNTS = list(range(250, 301)) + list(range(510, 521))
OPEN_SHAPES = ["response-btf0", "udt", "preamble-overshoot", "csbk-stream-then-header", "unconfirmed-btf0", "sdd-0-appended", "lost-header-overshoot"]
OPEN_ENDERS = ["voice-header", "end-all-transmissions", "voice-header"]


def idle_filler(rng, n):
    """n bursts that neither start nor end anything on an idle slot (data types the tracker has no branch for,
    vocoder bursts outside a call): they are numbered, nothing else"""
    pool = [sym_other(rng), sym_voice_emb(rng), sym_other(rng), sym_voice_nocc(rng), sym_voice_sync(rng)]
    return [pool[i % len(pool)] for i in range(n)]


def voice_call(rng, total, two_headers=False):
    """a voice call of exactly `total` >= 2 bursts, header(s) and terminator included"""
    head = [sym_voice_header(rng)] + ([sym_voice_header(rng)] if two_headers and total >= 3 else [])
    pool = [sym_voice_sync(rng)] + [sym_voice_emb(rng) for _ in range(5)]
    return head + [pool[i % 6] for i in range(total - len(head) - 1)] + [sym_terminator(rng)]


def block_mix(rng, n, preambles=False):
    """n block-producing bursts that do not end an open data transmission whose count-down is not running:
    non-preamble CSBKs and rate-x blocks of every rate (a small pool, repeated)"""
    pool = [sym_csbk(rng, preamble=False) for _ in range(3)] + [sym_rate(rng, rate=r) for r in ("r12", "r34", "r1", "r12")]
    if preambles:
        pool += [sym_csbk(rng, preamble=True, btf=b) for b in (0, 7, 255)]
    mode = rng.randrange(3)
    if mode == 0:
        pool = pool[:3]  # a stream of CSBKs only
    elif mode == 1:
        pool = pool[3:7]  # data blocks only
    return [pool[rng.randrange(len(pool))] if mode == 2 else pool[i % len(pool)] for i in range(n)]


def open_transmission(rng, n, shape):
    """a data transmission of exactly n >= 3 block-producing bursts (header included) that nothing ends by itself"""
    if shape == "response-btf0":
        return [sym_data_header(rng, fmt="response", btf=0)] + block_mix(rng, n - 1)
    if shape == "udt":
        return [sym_data_header(rng, fmt="udt")] + block_mix(rng, n - 1)
    if shape == "unconfirmed-btf0":
        return [sym_data_header(rng, fmt="unconfirmed", btf=0, sap=rng.choice((3, 4)))] + block_mix(rng, n - 1)
    if shape == "sdd-0-appended":
        return [sym_data_header(rng, fmt="sdd", btf=0)] + block_mix(rng, n - 1)
    if shape == "preamble-overshoot":
        # the preamble announces nothing to follow: its count is reached at once (no header yet: nothing is ended),
        # every later block overshoots it
        return [sym_csbk(rng, preamble=True, btf=0), sym_data_header(rng, fmt="confirmed", btf=rng.choice((1, 3, 127)), a=1)] + block_mix(rng, n - 2, preambles=True)
    if shape == "csbk-stream-then-header":
        m = rng.randrange(1, n - 1)
        return [sym_csbk(rng, preamble=False) for _ in range(m)] + [sym_data_header(rng, fmt="response", btf=0)] + block_mix(rng, n - m - 1)
    # lost-header-overshoot: the header of the first packet is lost, the count its preamble announced is reached by a
    # block (no header: nothing is ended), everything after overshoots it — the next packet's header and blocks are
    # collected into the same transmission
    first = [sym_csbk(rng, preamble=True, btf=2), sym_rate(rng, rate="r12"), sym_rate(rng, rate="r12")]
    return first + [sym_data_header(rng, fmt="unconfirmed", btf=rng.choice((0, 2, 127)), a=0)] + block_mix(rng, n - 4, preambles=True)


AFTER_END = 6


def after_end(rng, in_voice=False):
    """what follows the end: at least three more bursts, another end among them, then two more"""
    call = [sym_voice_sync(rng), sym_voice_emb(rng), sym_voice_emb(rng), sym_terminator(rng)]
    return ([] if in_voice else [sym_voice_header(rng)]) + call + [sym_voice_emb(rng), sym_other(rng)]


def wrap_history(rng, total, how, slot):
    """one slot: a transmission whose 'ended' is delivered on burst number `total` since the last restart"""
    l = L()
    if how == "voice":
        h = voice_call(rng, total)
    elif how == "voice-two-headers":
        h = voice_call(rng, total, two_headers=True)
    elif how == "voice-after-restart":
        # a complete transmission first: the count that matters is the one since ITS end
        first = generated_transmission(rng, k=1) if rng.random() < 0.5 else voice_call(rng, rng.randrange(2, 9))
        h = first + voice_call(rng, total)
    elif how == "filler+generated":
        g = generated_transmission(rng, k=rng.choice((0, 1, 3)), length=rng.choice((0, 9, 20, 60, 200)))
        h = idle_filler(rng, total - len(g)) + g
    elif how == "filler+ended-by-count":
        # the count a preamble announced is reached by a CSBK: the end comes from end_transmissions, not from a last block
        g = [sym_csbk(rng, preamble=True, btf=3), sym_data_header(rng, fmt=rng.choice(("response", "unconfirmed")), btf=0), sym_rate(rng), sym_csbk(rng, preamble=False)]
        h = idle_filler(rng, total - len(g)) + g
    elif how == "generated-256":
        # the longest transmission the generator can announce: 128 preambles (255 … 128 to follow), header, 127 blocks
        conf = bool(rng.randrange(2))
        g = generated_transmission(rng, rate="r12", confirmed=conf, k=128, length=126 * (10 if conf else 12) + (6 if conf else 8), sap=4)
        h = idle_filler(rng, total - len(g)) + g
    else:
        # open-ended-by-voice-header: the 'ended' comes with the voice LC header that interrupts the data transmission
        h = open_transmission(rng, total - 1, rng.choice(OPEN_SHAPES[:6])) + [sym_voice_header(rng)]
        return [[slot] + b for b in h + after_end(rng, in_voice=True)]
    return [[slot] + b for b in h + after_end(rng)]


def open_history(rng, n, shape, ender, slot):
    """an open data transmission of n blocks, ended by a voice LC header or left to end_all_transmissions; the
    other slot carries a short call in between (its events must not get mixed in)"""
    h = [[slot] + b for b in open_transmission(rng, n, shape)]
    other = [[3 - slot] + b for b in voice_call(rng, 4)]
    pos = rng.randrange(1, len(h))
    h = h[:pos] + other + h[pos:]
    if ender == "voice-header":
        h += [[slot] + b for b in [sym_voice_header(rng)] + after_end(rng, in_voice=True)]
    return h


# ------------------------------------------------------------------------------------------------
# histories for the ambient sample: every way a transmission with SAP = UDP/IP header compression can end
# ------------------------------------------------------------------------------------------------
def udp_datagrams(rng):
    """user data of a UDP/IPv4-compressed datagram: 16 bit id, SAID/DAID, SPID, DPID, [extended headers], data"""
    ident = bytes([rng.randrange(256), rng.randrange(256), rng.randrange(256)])
    port = lambda: bytes([rng.randrange(1, 128)])  # noqa: E731
    data = lambda n: bytes(rng.randrange(256) for _ in range(n))  # noqa: E731
    return [
        ("table-ports", ident + port() + port() + data(15)),
        ("one-port-extended", ident + rng.choice([b"\x00" + port(), port() + b"\x00"]) + data(2) + data(11)),
        ("both-ports-extended", ident + b"\x00\x00" + data(4) + data(9)),
        ("both-ports-extended-short", ident + b"\x00\x00" + data(rng.randrange(0, 3))),
        ("min-5-octets", ident + port() + port()),
        ("4-octets", ident + port()),
        ("long", ident + port() + port() + data(rng.randrange(40, 90))),
    ]


def udp_histories(rng):
    l = L()
    out = []
    n = 0
    for rate in ("r12", "r34", "r1"):
        for confirmed in (False, True):
            for name, payload in udp_datagrams(rng):
                slot = 1 + n % 2
                k = [0, 2, 1][n % 3]
                h = [[slot] + b for b in generated_transmission(rng, rate=rate, confirmed=confirmed, k=k, sap=3, payload=payload)]
                if n % 4 == 1:
                    # a voice call on the other slot in between
                    v = [[3 - slot] + b for b in [sym_voice_header(rng), sym_voice_sync(rng), sym_voice_emb(rng), sym_terminator(rng)]]
                    h = [x for pair in zip(h, v) for x in pair] + h[len(v):] + v[len(h):]
                # a second transmission from another radio on the same slot: would be merged into the first
                # one if the first end did not complete
                h += [[slot] + b for b in generated_transmission(rng, rate=rate, confirmed=confirmed, k=0, sap=[3, 4][n % 2], payload=payload[::-1])]
                out.append((f"udp {rate} {'confirmed' if confirmed else 'unconfirmed'} {name}", h, False))
                n += 1
    dg = udp_datagrams(rng)[0][1]
    info = l.bytes_to_bits(dg[:12])
    hdr = lambda btf: sym_data_header(rng, fmt="unconfirmed", btf=btf, a=0, sap=3, cc=5)  # noqa: E731
    blk = lambda: sym_rate(rng, rate="r12", info=info, cc=5)  # noqa: E731
    tail = [sym_data_header(rng, fmt="unconfirmed", btf=1, a=0, sap=4, cc=5), sym_rate(rng, rate="r12", cc=5)]
    # the end is triggered by a voice LC header (new_transmission while the data transmission is open)
    out.append(("udp ended by a voice header", [[1] + b for b in [hdr(3), blk(), sym_voice_header(rng, kind="group"), sym_voice_sync(rng), sym_terminator(rng)] + tail], False))
    # by the block count announced by a preamble CSBK being reached with a CSBK (end_transmissions)
    out.append(("udp ended by the preamble count", [[2] + b for b in [sym_csbk(rng, preamble=True, btf=3, cc=5), hdr(0), blk(), sym_csbk(rng, preamble=False, cc=5)] + tail], False))
    # by end_all_transmissions of the watcher
    out.append(("udp ended by end_all_transmissions", [[1] + b for b in [hdr(6), blk(), blk()]], True))
    out.append(("udp ended by end_all_transmissions, both slots", [[1] + hdr(6), [2] + hdr(4), [1] + blk(), [2] + blk()], True))
    # a duplicated header, a repeated last block
    g = [[1] + b for b in generated_transmission(rng, rate="r12", confirmed=False, k=1, sap=3, payload=dg)]
    out.append(("udp duplicated header and last block", g[:2] + [g[1]] + g[2:] + [g[-1]] + g, False))
    return out


# ------------------------------------------------------------------------------------------------
def build_history(job):
    kind = job["kind"]
    if kind == "random":
        history = random_history(_random.Random(job["seed"]), job["max_len"])
    elif kind == "long":
        history = long_voice(_random.Random(job["seed"]), job["n"])
    elif kind == "many":
        history = many_transmissions(_random.Random(job["seed"]), job["n"])
    elif kind == "longdata":
        r = _random.Random(job["seed"])
        history = [[job["slot"]] + b for b in generated_transmission(r, rate=job["rate"], confirmed=job["confirmed"], k=2, sap=3,
                                                                   payload=bytes(r.randrange(1, 256) for _ in range(job["n"])))]
        history += [[job["slot"]] + sym_voice_header(r), [job["slot"]] + sym_terminator(r)]
    elif kind == "wrap":
        history = wrap_history(_random.Random(job["seed"]), job["total"], job["how"], job["slot"])
    elif kind == "open":
        history = open_history(_random.Random(job["seed"]), job["n"], job["shape"], job["ender"], job["slot"])
    else:
        history = job["history"]
    if job.get("inject") is not None:
        history = inject_bad_calls(_random.Random(job["inject"]), history, first=True, noassert=bool(job.get("noassert")))
    if job.get("roinject") is not None:
        history = inject_ro_calls(_random.Random(job["roinject"]), history, watcher=job.get("watcher", False))
    return history


def job_run(job):
    """one job in a worker process: build the history (if it is a seeded one) and run it on the real code"""
    history = build_history(job)
    info = {"ro_sweep": True} if job.get("rosweep") else {}
    lines, outs, fails = run_history(job["raises"], history, watcher=job.get("watcher", False), ambient=job.get("ambient"),
                                     flavour=job.get("flavour", 0), info=info)
    if job.get("ambient") in REAL_ENTROPY and any(f[0] == "stream-id-not-fresh" for f in fails):
        # real 32-bit tokens can collide (2^-32 per pair): only what a second run repeats is reported
        _, _, again = run_history(job["raises"], history, watcher=job.get("watcher", False), ambient=job.get("ambient"),
                                  flavour=job.get("flavour", 0))
        repeated = {f[1] for f in again if f[0] == "stream-id-not-fresh"}
        fails = [f for f in fails if f[0] != "stream-id-not-fresh" or f[1] in repeated]
    tainted = any(f[0] == "TAINT" for f in fails)
    fails = [f for f in fails if f[0] != "TAINT"]
    return {"history": history, "lines": lines, "outs": outs, "fails": fails, "info": info, "tainted": tainted}


def normalise_streams(outs):
    """stream ids renamed by order of first appearance (runs with the real entropy source)"""
    names = {}

    def nm(x):
        return "s%d" % names.setdefault(x, len(names))

    res = []
    for o in outs:
        f = o.split(" ")
        if " / " in o:
            parts = o.split(" / ")
            for i in (0, 1):
                g = parts[i].split(" ")
                g[7] = nm(g[7])
                parts[i] = " ".join(g)
            res.append(" / ".join(parts[:2]))  # the number of tokens drawn is not observable without the counter
        elif len(f) >= 5 and f[2].isdigit():
            f[2] = nm(f[2])
            res.append(" ".join(f))
        else:
            res.append(o)
    return res


def workers():
    try:
        w = int(os.environ.get("VERIF_WORKERS", "8"))
    except ValueError:
        w = 8
    return max(1, min(w, os.cpu_count() or 1))


def pmap(fn, jobs, nworkers):
    """results of fn over jobs, in order; a fork pool when it pays off (the library is already imported)"""
    if nworkers <= 1 or len(jobs) < 16:
        for j in jobs:
            yield fn(j)
        return
    import multiprocessing as mp

    with mp.get_context("fork").Pool(nworkers) as pool:
        for r in pool.imap(fn, jobs, chunksize=max(1, min(8, len(jobs) // (nworkers * 8)))):
            yield r


# ------------------------------------------------------------------------------------------------
# the child interpreter: `python -O` (asserts stripped), a fresh process whose FIRST calls on the tracker
# classes are rejected ones, and a phase with the descriptors 1 and 2 really broken
# ------------------------------------------------------------------------------------------------
def child_main(argv):
    """argv: <jobs.json> <result.json>.  Nothing is printed."""
    with open(argv[0]) as f:
        spec = json.load(f)
    res = {"optimize": sys.flags.optimize, "first": [], "jobs": [], "broken": []}
    lib()
    l = L()
    logging.disable(logging.CRITICAL)
    # phase 0: the first calls this process makes on Terminal / Timeslot / Transmission / TransmissionWatcher fail
    fb = spec["first_burst"]
    term = None
    try:
        for kind in BAD_KINDS:
            if kind.startswith("terminal:"):
                res["first"].append([kind, do_bad_call(None, None, kind, 1, fb[0], fb[1])])
        from okdmr.dmrlib.transmission.transmission_watcher import TransmissionWatcher

        watch = TransmissionWatcher([])
        res["first"].append(["watch:none", do_bad_call(None, watch, "watch:none", 1, fb[0], fb[1])])
        term = l.Terminal(1, [])
        for kind in BAD_KINDS:
            if not kind.startswith(("terminal:", "watch:")):
                res["first"].append([kind, do_bad_call(term, None, kind, 1, fb[0], fb[1])])
        res["first_state"] = slot_state(term.timeslots[1]).split(" ")[:7] + slot_state(term.timeslots[2]).split(" ")[:7]
    except BaseException as e:  # noqa
        res["first_error"] = impl_error(e)
    logging.disable(logging.NOTSET)
    # phase 1: the jobs as the parent ran them
    for job in spec["jobs"]:
        try:
            r = job_run(job)
            res["jobs"].append({"outs": r["outs"], "fails": r["fails"], "tainted": r["tainted"]})
        except BaseException as e:  # noqa
            res["jobs"].append({"error": impl_error(e) + " " + str(e)[:200]})
    # phase 2: the standard descriptors themselves are dead (the reader of both pipes has gone)
    try:
        sys.stdout.flush()
        sys.stderr.flush()
        rfd, wfd = os.pipe()
        os.close(rfd)
        os.dup2(wfd, 1)
        os.dup2(wfd, 2)
        sys.stdout = os.fdopen(1, "w", buffering=1, closefd=False)
        sys.stderr = os.fdopen(2, "w", buffering=1, closefd=False)
        for i in spec["broken"]:
            job = dict(spec["jobs"][i], ambient="inherit")
            try:
                r = job_run(job)
                res["broken"].append({"index": i, "outs": r["outs"], "fails": r["fails"], "tainted": r["tainted"]})
            except BaseException as e:  # noqa
                res["broken"].append({"index": i, "error": impl_error(e) + " " + str(e)[:200]})
    except BaseException as e:  # noqa
        res["broken_error"] = impl_error(e)
    with open(argv[1], "w") as f:
        json.dump(res, f, default=str)
    os._exit(0)  # no flush of the dead standard streams at interpreter exit


def child_start(spec, optimize=True):
    """start the child interpreter on `spec`; returns (process, result path)"""
    import subprocess
    import tempfile

    d = tempfile.mkdtemp(prefix="c08child")
    jp, rp = os.path.join(d, "jobs.json"), os.path.join(d, "result.json")
    with open(jp, "w") as f:
        json.dump(spec, f)
    here = os.path.dirname(os.path.abspath(__file__))
    code = ("import sys; sys.path[:0] = [%r, %r]; import c08; c08.child_main(sys.argv[1:])" % (os.path.dirname(here), here))
    cmd = [sys.executable] + (["-O"] if optimize else []) + ["-c", code, jp, rp]
    p = subprocess.Popen(cmd, stdin=subprocess.DEVNULL, stdout=subprocess.PIPE, stderr=subprocess.PIPE)
    return p, rp, d


def child_finish(handle, timeout=600):
    import shutil

    p, rp, d = handle
    try:
        try:
            _, err = p.communicate(timeout=timeout)
        except Exception:  # noqa
            p.kill()
            _, err = p.communicate()
        try:
            with open(rp) as f:
                return json.load(f), None
        except Exception as e:  # noqa
            return None, f"child interpreter gave no result (rc={p.returncode}): {e}: {(err or b'')[-400:]!r}"
    finally:
        shutil.rmtree(d, ignore_errors=True)


def run(ctx):
    ctx.rule = (
        "corpus of the three repaired defects; every (state class, symbol class) pair on one slot and on the other slot with "
        "traffic in between; random two-slot histories assembled from generated data transmissions (complete, truncated, with lost / "
        "repeated / foreign bursts, shuffled), voice fragments (header, superframes with lost bursts and late entry, terminator) and "
        "single random symbols, each under observers that raise / do not raise (seven families of exception classes, BaseException "
        "included), a quarter of them through a TransmissionWatcher that finishes with end_all_transmissions; histories with > 256 "
        "bursts without an end; exact totals at wrap points: a dense sweep of transmission lengths in bursts since the last restart of "
        "the numbering (253..259, 509..515, 1021..1027; voice calls, generated data behind filler bursts, the maximal 256-burst generated "
        "transmission, ends by count and by an interrupting voice header) with at least six bursts after the end, and data transmissions "
        "that stay open for 250..300 / 510..520 blocks (nothing / no count to follow, UDT, overshoot, CSBK streams) ended by a voice LC "
        "header or end_all_transmissions, header and every block counted.  Error paths: calls the tracker rejects (wrong time slot / burst type / observer, corrupted copies of "
        "the next burst) interleaved into histories, the first call being a rejected one; they must change nothing and the valid "
        "bursts must be answered as without them.  Ambient state: a fixed sample (every way a SAP = UDP/IP-compression transmission "
        "whose datagram does / does not decode can end, the corpus, random histories) re-run with sys.stdout / sys.stderr replaced "
        "by writers that raise, the root logger at DEBUG, `random` reseeded between bursts with the real entropy source, a moving "
        "clock, warnings as errors, and in a child `python -O` process whose first calls are rejected ones and whose descriptors 1 "
        "and 2 are finally broken; every answer must equal the one of the ordinary run. "
        " ROUND 6, READ-ONLY CALLS: observer-style calls found by introspection on the live objects (repr / str / len / bool / == / hash / copy / every attribute, debug(), get_* / is_* / has_* / match_* without auto-create, the log helpers, on every library object reachable) are interleaved into histories: the same history runs without and with them in fresh objects; each call must leave the deep picture of the objects, their class / module data and the stubs' counters unchanged, every answer, the final state and a final sweep through the whole catalogue (made, and itself checked, at the end of every such history) must be identical, and the model is driven with the history without the calls; reviewed exclusions (calls that advance by design) are listed in harness/ro_calls.py EXCLUDED. "
        "A case is one history under one observer configuration and one ambient condition; distinct = distinct of those."
    )
    ctx.trusted_base += [
        "Lean 4.33 kernel",
        "tools/extract_tracker.py (enum values, resolve() graphs, accepted lengths and the bit layout of every typed rate-x parse, read by calling the library)",
        "hand-written model of Transmission / Timeslot / Terminal / WithObservers (Model/Tracker.lean) tied to the code by this run's correspondence",
        "the abstraction `alpha` of a parsed Burst to the model's input symbol (harness/props/c08.py) — it reads only attributes of the library's own parse",
        "secrets.token_bytes is an entropy oracle: modelled as a counter and monkey-patched to one in the harness (freshness of real ids is probabilistic, 2^-32 per pair; "
        "the runs with the real source report a repeated id only if a second run repeats it)",
        "Burst parsing itself (C01) and the PDU codecs (C03) are not part of this property: bursts that do not parse are outside its domain",
    ]
    ctx.assumptions += [
        "every burst object is freshly parsed (the tracker mutates the burst it is given)",
        "time slot numbers are 1 or 2",
        "ambient: Python's own logging machinery is trusted to swallow what its handlers raise; it does so for OSError from sys.stderr only "
        "(Handler.handleError), so a sys.stderr that raises ValueError (closed file) is exercised with logging.raiseExceptions = False, "
        "the documented production setting; handlers / filters that raise by themselves are application errors outside the property",
        "single-threaded use (the property does not mention concurrency)",
    ]
    lib()  # import the library before any worker is forked
    rng = ctx.rng
    configs = [[True, False], [False, True], [True, True], [False, False]]
    jobs = []
    # ---- corpus: every history under all four observer configurations (group = same answers expected)
    corp = corpus(rng)
    for g, (desc, h) in enumerate(corp):
        for raises in configs:
            jobs.append({"kind": "explicit", "desc": desc, "raises": raises, "history": h, "group": ("corpus", g), "sample": raises == configs[0]})
    # ---- all (state class, symbol class) pairs
    variants = symbol_variants(rng)
    prefixes = state_prefixes(rng)
    other = [[2] + sym_voice_header(rng), [2] + sym_csbk(rng, preamble=True, btf=3)]
    n = 0
    pair_jobs = []
    for pname, pre in prefixes:
        for vname, sym in variants:
            for slot_mode in range(2):
                if slot_mode == 0:
                    h = [[1] + s for s in pre] + [[1] + sym]
                else:
                    # the same on slot 2 with slot 1 active in between
                    h = []
                    for i, s in enumerate(pre):
                        h.append([2] + s)
                        h.append([1] + other[i % 2][1:])
                    h += [[2] + sym, [1] + other[0][1:], [2] + sym_voice_emb(rng)]
                jobs.append({"kind": "explicit", "desc": f"pair {pname} x {vname}", "raises": configs[n % 4], "history": h,
                             "watcher": n % 5 == 4, "flavour": (n // 4) % len(FLAVOURS), "count": "pair",
                             "sample": (pname, vname, slot_mode) == ("voice:label2", "ve", 0)})
                pair_jobs.append(jobs[-1])
                if n % 9 == 0:
                    # the same with rejected calls in between, the first call on the new terminal being one
                    jobs[-1]["group"] = ("pair", n)
                    jobs.append(dict(jobs[-1], inject=rng.getrandbits(48), count="pair+rejected", sample=False))
                n += 1
    # ---- sequence wrap
    for raises in configs[:2]:
        jobs.append({"kind": "long", "desc": "sequence wrap", "raises": raises, "seed": rng.getrandbits(64), "n": ctx.budget(300, 700)})
    # ---- exact totals at wrap points (round 4): the end of a transmission on the 253rd … 259th, 509th … 515th, 1021st …
    # 1027th burst since the last restart, every kind of end at the multiples themselves; a fixed share, not boosted
    for i, total in enumerate(WRAP_TOTALS):
        exact = total % 256 == 0
        if ctx.thorough():
            hows = WRAP_KINDS
        elif exact:
            hows = WRAP_KINDS if total <= 512 else WRAP_KINDS[:5]
        else:
            # the neighbours of a multiple (ending burst numbered 255 / 1) get every basic kind of end, the others two / one in rotation
            j = rng.randrange(3)
            hows = WRAP_KINDS[:3] if total % 256 in (1, 255) else [WRAP_KINDS[(i + j) % 3], WRAP_KINDS[(i + j + 1) % 3]] if total < 600 else [WRAP_KINDS[(i + j) % 3]]
        for k, how in enumerate(hows):
            if how == "generated-256" and total < 256:
                continue
            jobs.append({"kind": "wrap", "desc": f"end on burst {total} since the last restart ({how})", "raises": configs[(i + k) % 4], "seed": rng.getrandbits(64),
                         "total": total, "how": how, "slot": 1 + (i + k) % 2, "flavour": (i + k) % len(FLAVOURS),
                         "counts": [f"class:wrap:{how}", f"class:wrap-total:{total}"], "sample": (total, how) == (256, "voice")})
    # ---- open transmissions of 250 … 300 / 510 … 520 blocks, ended from outside: every block is handed over
    shift = rng.randrange(len(OPEN_SHAPES))
    open_counts = OPEN_COUNTS if ctx.thorough() else OPEN_COUNTS_QUICK + [n for n in OPEN_COUNTS_QUICK if n < 300]
    for i, n in enumerate(open_counts):
        shape = OPEN_SHAPES[(i + shift) % len(OPEN_SHAPES)]
        ender = OPEN_ENDERS[i % len(OPEN_ENDERS)]
        jobs.append({"kind": "open", "desc": f"open data transmission of {n} blocks ({shape}) ended by {ender}", "raises": configs[i % 4], "seed": rng.getrandbits(64),
                     "n": n, "shape": shape, "ender": ender, "slot": 1 + i % 2, "watcher": ender == "end-all-transmissions", "flavour": i % len(FLAVOURS),
                     "counts": [f"class:open:{shape}", f"class:open-ended-by:{ender}", f"class:open-blocks:{n}"], "sample": n == 257})
    # ---- many notifications per observer; transmissions of about a hundred blocks
    for k, raises in enumerate(configs[:3]):
        jobs.append({"kind": "many", "desc": "many short transmissions", "raises": raises, "seed": rng.getrandbits(64), "n": ctx.budget(160, 3000),
                     "flavour": k, "count": "many-transmissions"})
    for k, (rate, n) in enumerate([("r12", 1150), ("r34", 1500), ("r1", 2000)][: 3 if ctx.thorough() else 1]):
        for confirmed in (False, True):
            jobs.append({"kind": "longdata", "desc": "data transmission of about a hundred blocks", "raises": configs[k % 4], "seed": rng.getrandbits(64),
                         "rate": rate, "confirmed": confirmed, "n": n, "slot": 1 + k % 2, "watcher": confirmed, "count": "long-data-transmission"})
    # ---- other numbers of observers (none, one, three, seven; an observer registered twice is kept once)
    for k, raises in enumerate([[], [True], [False], [True, False, True], [False, True, True, False, True, False, True]]):
        for g, (desc, h) in enumerate(corp[:5]):
            jobs.append({"kind": "explicit", "desc": desc, "raises": raises, "history": h, "flavour": k + g, "count": f"observers:{len(raises)}"})
        for g in range(6):
            jobs.append({"kind": "random", "desc": "random", "raises": raises, "seed": rng.getrandbits(64), "max_len": 25, "watcher": g % 3 == 2,
                         "flavour": k + g, "count": f"observers:{len(raises)}"})
    # ---- random histories (built in the workers from their seeds)
    max_len = 400 if ctx.thorough() else 25
    for i in range(ctx.budget(1200, 6000)):
        seed = rng.getrandbits(64)
        ml = max_len if i % 4 else max(5, max_len // 8)
        jobs.append({"kind": "random", "desc": "random", "raises": configs[i % 4], "seed": seed, "max_len": ml, "watcher": i % 4 == 3,
                     "flavour": (i // 4) % len(FLAVOURS), "count": "random", "sample": i == 0})
        if i % 10 == 0:
            # the same history under another observer configuration must answer the same
            jobs[-1]["group"] = ("random", i)
            jobs.append({"kind": "random", "desc": "random", "raises": configs[(i + 1) % 4], "seed": seed, "max_len": ml,
                         "watcher": i % 4 == 3, "flavour": (i // 4 + 3) % len(FLAVOURS), "group": ("random", i)})
        if i % 6 == 1:
            # the same history with rejected calls interleaved
            jobs[-1]["group"] = ("random", i)
            jobs.append(dict(jobs[-1], inject=rng.getrandbits(48), count="random+rejected", sample=False))
    # ---- ambient sample (fixed size: it does not grow with the budget)
    udp = udp_histories(rng)
    ambient_set = [(d, h, w) for d, h, w in udp] + [(d, h, False) for d, h in corp]
    amb_jobs = []  # reference jobs of the ambient sample, explicit histories (also given to the child interpreter)
    for k, (desc, h, w) in enumerate(ambient_set):
        ref = {"kind": "explicit", "desc": desc, "raises": configs[k % 4], "history": h, "watcher": w, "flavour": k % len(FLAVOURS),
               "group": ("ambient", k), "count": "ambient-reference", "sample": k == 0}
        jobs.append(ref)
        amb_jobs.append(ref)
        for a in AMBIENTS:
            jobs.append(dict(ref, ambient=a, count=None, sample=(k == 0 and a == "stdout:epipe")))
        jobs.append(dict(ref, inject=rng.getrandbits(48), count="ambient+rejected", sample=False))
        jobs.append(dict(ref, inject=rng.getrandbits(48), ambient=AMBIENTS[k % len(AMBIENTS)], count=None, sample=False))
    for k in range(24):
        ref = {"kind": "random", "desc": "random (ambient sample)", "raises": configs[k % 4], "seed": rng.getrandbits(64), "max_len": 25,
               "watcher": k % 3 == 2, "flavour": k % len(FLAVOURS), "group": ("ambient-random", k), "count": "ambient-reference"}
        jobs.append(ref)
        for j in range(4):
            jobs.append(dict(ref, ambient=AMBIENTS[(4 * k + j) % len(AMBIENTS)], count=None))
    # ---- round 6: read-only calls interleaved (harness/ro_calls.py): the same history once without and once with observer-style
    # calls between its elements, in fresh objects; both end with a sweep through the whole catalogue.  Own random stream (the
    # histories of the other sections stay what they were); a fixed share, not boosted.
    ro_rng = _random.Random(f"C08:ro:{ctx.seed}")
    ro_base = [dict(j) for j in jobs if j.get("group", ("", 0))[0] == "corpus" and j["raises"] == configs[0]]
    ro_base += [dict(j) for j in pair_jobs[ctx.seed % 7:: 7]]
    for k in range(150 if not ctx.thorough() else 1200):
        ro_base.append({"kind": "random", "desc": "random", "raises": configs[k % 4], "seed": ro_rng.getrandbits(64), "max_len": 25 if k % 5 else 80,
                        "watcher": k % 4 == 3, "flavour": (k // 4) % len(FLAVOURS)})
    for k in range(4):
        total = WRAP_TOTALS[(ctx.seed + 5 * k) % len(WRAP_TOTALS)]
        ro_base.append({"kind": "wrap", "desc": f"end on burst {total} since the last restart", "raises": configs[k % 4], "seed": ro_rng.getrandbits(64), "total": total,
                        "how": WRAP_KINDS[(ctx.seed + k) % 3], "slot": 1 + k % 2})
        n_open = OPEN_COUNTS_QUICK[(ctx.seed + 3 * k) % len(OPEN_COUNTS_QUICK)]
        ro_base.append({"kind": "open", "desc": f"open data transmission of {n_open} blocks", "raises": configs[k % 4], "seed": ro_rng.getrandbits(64), "n": n_open,
                        "shape": OPEN_SHAPES[(ctx.seed + k) % len(OPEN_SHAPES)], "ender": OPEN_ENDERS[k % 3], "slot": 1 + k % 2, "watcher": OPEN_ENDERS[k % 3] == "end-all-transmissions"})
    for k, base in enumerate(ro_base):
        for key in ("inject", "count", "counts", "sample", "ambient"):
            base.pop(key, None)
        ref = dict(base, group=("ro", k), rosweep=True, count="read-only:reference")
        jobs.append(ref)
        jobs.append(dict(ref, roinject=ro_rng.getrandbits(48), count="read-only:interleaved"))
        if k % 6 == 5:
            # read-only calls AND rejected calls in one history (reference: the same rejected calls alone - a rejected call may leave the time of the last packet)
            ref2 = dict(ref, inject=ro_rng.getrandbits(48), group=("ro+rejected", k), count="read-only:reference+rejected")
            jobs.append(ref2)
            jobs.append(dict(ref2, roinject=ro_rng.getrandbits(48), count="read-only:interleaved+rejected"))
    for what in ro_specs(False)[1] + ro_specs(True)[1]:
        ctx.count("read-only:not-called:" + what[:110])
    ctx.count("read-only:catalogue-size", len(ro_specs(True)[0]))
    if RO.no_exclusions():
        ctx.notes.append("VERIF_RO_NOEXCLUDE is set: the reviewed exclusions of harness/ro_calls.py are void in this run (review mode)")
    ro_state = {"shrunk": 0, "reported": 0, "final": {}}
    # ---- the child interpreter (python -O) runs while the pool works
    child_jobs = []
    for j in amb_jobs:
        child_jobs.append(dict(j))
        child_jobs.append(dict(j, inject=rng.getrandbits(48), noassert=True))
    n_broken = len(child_jobs)
    for j in pair_jobs[:: max(1, len(pair_jobs) // 300)]:
        child_jobs.append(dict(j))
    for k in range(30):
        child_jobs.append({"kind": "random", "desc": "random (child)", "raises": configs[k % 4], "seed": rng.getrandbits(64), "max_len": 25,
                           "watcher": k % 3 == 2, "flavour": k % len(FLAVOURS), "inject": rng.getrandbits(48) if k % 2 else None,
                           "noassert": True})
    for j in child_jobs:
        for key in ("group", "count", "sample"):
            j.pop(key, None)
        j["child"] = True
    spec = {"first_burst": sym_csbk(_random.Random(7), preamble=False), "jobs": child_jobs, "broken": list(range(0, n_broken, 2))}
    child = child_start(spec)
    n_main = len(jobs)
    jobs += child_jobs  # the parent's answers to the same jobs

    pairs = []
    groups = {}
    child_ref = []
    for idx, (job, res) in enumerate(zip(jobs, pmap(job_run, jobs, workers()))):
        history, lines, outs, fails, info = res["history"], res["lines"], res["outs"], res["fails"], res["info"]
        desc, raises, amb = job["desc"], job["raises"], job.get("ambient")
        inp = {"raises": list(raises), "watcher": bool(job.get("watcher")), "history": history}
        if job.get("flavour"):
            inp["flavour"] = job["flavour"]
        if amb:
            inp["ambient"] = amb
        if idx >= n_main:
            child_ref.append((job, res, inp))
        ctx.case((desc, tuple(raises), bool(job.get("watcher")), job.get("flavour", 0), amb, tuple(tuple(x) for x in history)), nontrivial=len(history) > 0,
                 sample={"case": desc, "raises": raises, "watcher": bool(job.get("watcher")), "ambient": amb, "history_len": len(history),
                         "first_lines": lines[1:4], "first_outputs": outs[1:4]} if job.get("sample") else None)
        ctx.count("bursts", len(history))
        ctx.count("via-watcher" if job.get("watcher") else "via-terminal")
        ctx.count(f"observer-exceptions:family{job.get('flavour', 0) % len(FLAVOURS)}")
        if job.get("count"):
            ctx.count(job["count"])
        for key in job.get("counts", ()):
            ctx.count(key)
        if amb:
            ctx.count("ambient:" + amb)
            if amb.startswith(("stdout:", "both:", "log:root-debug-stdout")) and info.get("write_attempts"):
                ctx.count("ambient:failing-stream-was-written-to")
        if info.get("printed"):
            ctx.count("udp-diagnostic-print-reached", info["printed"])
        for kind, answer, first in info.get("bad", []):
            ctx.count("rejected-call:" + kind)
            ctx.count("rejected-call-answer:" + answer)
            if first:
                ctx.count("rejected-call:first-call-on-the-terminal")
        for what, answer in info.get("ro", []):
            ctx.count("read-only-call:" + what)
            ctx.count("read-only-call-answer:" + answer)
        if res["tainted"]:
            ctx.count("rejected-call:corrupted-burst-accepted(run-dropped)")
        if job["kind"] == "random":
            ctx.count(f"history-len:{min(len(history) // 50 * 50, 400)}+")
        for o in outs[1:-1]:
            if o.startswith("ERR"):
                ctx.count("event:ERR")
                continue
            ev = o.split(" ", 4)[-1].split("|")[0]
            for e in ev.split(";"):
                ctx.count("event:" + (e.split(":")[0] + ":" + e.split(":")[1][:1] if e != "-" else "-"))
        ro_hits = [f for f in fails if f[0] == "read-only-call"]
        for kind, what, exp, act in fails:
            if kind != "read-only-call" and not ro_hits:  # (what else fails behind a read-only call that changed state follows from it: the shortened history is reported)
                ctx.fail(kind, inp, f"{what} [{desc}{' under ' + amb if amb else ''}]", expected=exp, actual=act)
        if job.get("rosweep") and not res["tainted"]:
            gk = job["group"]
            if job.get("roinject") is None:
                ro_state["final"][gk] = info.get("ro_final")
            elif gk in ro_state["final"] and info.get("ro_final") != ro_state["final"][gk]:
                a, b = ro_state["final"][gk], info.get("ro_final")
                where = RO.first_diff(a, b) if a is not None and b is not None else "no sweep"
                ro_hits.append(("read-only-call", "after read-only calls were made in between, the final state / what the observers answer at the end differs from the run without them",
                                "as without the calls", where))
        if info.get("ro_sweep_changed") and not res["tainted"]:
            # the sweep at the end of the history made every call of the catalogue: as explicit elements they are checked one by one
            changed, specs = info["ro_sweep_changed"]
            ro_hits.append(("read-only-call", "the final look through every observer-style call changed the state of the tracker", "nothing changes", changed))
            inp = dict(inp, history=list(history) + [["ro"] + sp for sp in specs])
        if ro_hits:
            report_read_only(ctx, job, inp, desc, ro_hits, ro_state)
        if "group" in job and not res["tainted"]:
            gk = job["group"]
            ref = groups.setdefault(gk, (outs, job))
            if ref[0] is not outs:
                a, b = ref[0][1:], outs[1:]
                if amb in REAL_ENTROPY:
                    a, b = normalise_streams(a), normalise_streams(b)
                if a != b:
                    d = next((i for i, (x, y) in enumerate(zip(a, b)) if x != y), min(len(a), len(b)))
                    if amb:
                        kind, what = "ambient-dependence", f"answers differ from the ordinary run under the ambient condition {amb}"
                    elif job.get("roinject") is not None:
                        kind, what = "read-only-call", "valid bursts are answered differently when read-only calls are made in between"
                    elif job.get("inject") is not None:
                        kind, what = "error-path-state", "valid bursts are answered differently when rejected calls are made in between"
                    else:
                        kind, what = "observer-isolation", "results depend on which observers raise (or on what they raise)"
                    if kind == "read-only-call":
                        report_read_only(ctx, job, inp, desc, [(kind, f"{what} (first difference at answer {d})", a[max(0, d - 1):d + 2], b[max(0, d - 1):d + 2])], ro_state)
                    else:
                        ctx.fail(kind, inp, f"{what} [{desc}] (first difference at answer {d})", expected=a[max(0, d - 1):d + 2], actual=b[max(0, d - 1):d + 2])
        if amb not in REAL_ENTROPY and not res["tainted"]:
            pairs += list(zip(lines, outs))
            for ln, got in info.get("diag_pairs", []):
                pairs.append((ln, got))
                ctx.count("udp-diagnostic:" + got)
        if len(pairs) > 40000:
            flush(ctx, pairs)
    flush(ctx, pairs)
    # ---- what the child interpreter answered
    cres, cerr = child_finish(child)
    if cres is None:
        ctx.notes.append("child interpreter: " + str(cerr))
        ctx.fail("child-interpreter", {"interpreter": "python -O"}, "the tracker could not be run in a child `python -O` process: " + str(cerr))
        return
    ctx.count("child:python -O optimize=%s" % cres.get("optimize"))
    if cres.get("first_error") or any(x not in ("I", "0", "U", "-") for x in cres.get("first_state", [])):
        ctx.fail("error-path-state", {"interpreter": "python -O", "first_calls": cres.get("first")},
                 "rejected calls as the first calls of a process leave state behind", expected="idle", actual=[cres.get("first_error"), cres.get("first_state")])
    ctx.count("child:first-calls-rejected", len(cres.get("first", [])))
    for phase, items in (("python -O", list(enumerate(cres.get("jobs", [])))), ("python -O, descriptors 1 and 2 broken", [(x["index"], x) for x in cres.get("broken", [])])):
        for i, c in items:
            job, res, inp = child_ref[i]
            inp = dict(inp, interpreter=phase)
            ctx.case(("child", phase, i), nontrivial=True)
            ctx.count("child:" + phase)
            if "error" in c:
                ctx.fail("child-interpreter", inp, f"the harness failed in the child interpreter: {c['error']} [{job['desc']}]")
                continue
            if c.get("tainted") or res["tainted"]:
                ctx.count("child:run-dropped")
                continue
            for kind, what, exp, act in c["fails"]:
                ctx.fail(kind, inp, f"{what} [{job['desc']} in {phase}]", expected=exp, actual=act)
            if c["outs"] != res["outs"] and not c["fails"]:
                a, b = res["outs"], c["outs"]
                d = next((k for k, (x, y) in enumerate(zip(a, b)) if x != y), min(len(a), len(b)))
                ctx.fail("ambient-dependence", inp, f"answers in {phase} differ from the ordinary run [{job['desc']}] (first difference at answer {d})",
                         expected=a[max(0, d - 1):d + 2], actual=b[max(0, d - 1):d + 2])
    if cres.get("broken_error"):
        ctx.notes.append("child interpreter: descriptors could not be broken: " + str(cres["broken_error"]))


def ro_verdicts(job, history, sweep=True):
    """what the read-only class finds in one history: the run with the calls (each checked where it is made) against the run without them"""
    base = {"kind": "explicit", "raises": job["raises"], "watcher": job.get("watcher", False), "flavour": job.get("flavour", 0), "rosweep": True}
    with_calls = job_run(dict(base, history=history))
    plain = job_run(dict(base, history=[el for el in history if el[0] != "ro"]))
    out = [f for f in with_calls["fails"] if f[0] == "read-only-call"]
    if with_calls["tainted"] or plain["tainted"]:
        return out
    if sweep and with_calls["info"].get("ro_sweep_changed"):
        out.append(("read-only-call", "the final look through every observer-style call changed the state of the tracker", "nothing changes", with_calls["info"]["ro_sweep_changed"][0]))
    a, b = plain["outs"], with_calls["outs"]
    if a != b:
        d = next((i for i, (x, y) in enumerate(zip(a, b)) if x != y), min(len(a), len(b)))
        out.append(("read-only-call", f"valid bursts are answered differently when read-only calls are made in between (first difference at answer {d})", a[max(0, d - 1):d + 2], b[max(0, d - 1):d + 2]))
    fa, fb = plain["info"].get("ro_final"), with_calls["info"].get("ro_final")
    if fa != fb:
        out.append(("read-only-call", "after read-only calls were made in between, the final state / what the observers answer at the end differs from the run without them",
                    "as without the calls", RO.first_diff(fa, fb) if fa is not None and fb is not None else "no sweep"))
    return out


def report_read_only(ctx, job, inp, desc, hits, state):
    """a failing history of the read-only class is shortened before it is reported (the first few; afterwards as found, then counted)"""
    ctx.count("read-only:failing-histories")
    history = inp["history"]
    if state["shrunk"] < 4 and len(history) <= 1500:
        state["shrunk"] += 1
        if ro_verdicts(job, history):
            # (while shortening, the verdict of the final sweep is left out: it holds for every candidate and names no call)
            small = RO.ddmin(history, lambda h: any(el[0] == "ro" for el in h) and bool(ro_verdicts(job, h, sweep=False)), max_runs=160)
            again = ro_verdicts(job, small, sweep=False)
            if again:
                history, hits = small, again
                ctx.count("read-only:failing-history-shortened")
    elif state["reported"] >= 24:
        return
    state["reported"] += 1
    inp = dict(inp, history=history)
    for kind, what, exp, act in hits[:2]:
        ctx.fail(kind, inp, f"{what} [{desc}; history of {len(history)} elements]", expected=exp, actual=act)


def flush(ctx, pairs):
    if pairs and not ctx.search_only and ctx.driver_ok:
        ctx.correspond("terminal", pairs)
    pairs.clear()


def replay(obj):
    f = obj.get("failure") or {}
    inp = f.get("input") or {}
    print(json.dumps(obj.get("type")), f.get("what"))
    if "history" not in inp:
        print(json.dumps(obj, indent=1)[:4000])
        return 1
    job = {"kind": "explicit", "history": inp["history"], "raises": inp.get("raises", [True, False]), "watcher": bool(inp.get("watcher")),
           "flavour": inp.get("flavour", 0), "ambient": inp.get("ambient"), "rosweep": any(el[0] == "ro" for el in inp["history"])}
    if inp.get("interpreter"):
        lib()
        broken = "broken" in inp["interpreter"]
        cres, cerr = child_finish(child_start({"first_burst": sym_csbk(_random.Random(7), preamble=False), "jobs": [job], "broken": [0] if broken else []}))
        if cres is None:
            print(cerr)
            return 1
        c = (cres["broken"] if broken else cres["jobs"])[0]
        print(f"in a child interpreter ({inp['interpreter']}):", json.dumps(c)[:3000])
        ref = job_run(job)
        print("ordinary run:", json.dumps(ref["outs"])[:3000])
        return 1 if (c.get("fails") or c.get("error") or c.get("outs") != ref["outs"]) else 0
    res = job_run(job)
    lines, outs, fails = res["lines"], res["outs"], res["fails"]
    refouts = None
    if job["ambient"] or any(el[0] in ("bad", "ro") for el in job["history"]):
        plain = dict(job, ambient=None, history=[el for el in job["history"] if el[0] not in ("bad", "ro")])
        pres = job_run(plain)
        refouts = pres["outs"]
        for el in job["history"]:
            if el[0] == "ro":
                print("read-only call in the history:", RO.spec_text(el[1:]))
        if job["rosweep"] and pres["info"].get("ro_final") != res["info"].get("ro_final") and not res["tainted"]:
            fails = fails + [("read-only-call", "the final state / the observers' final answers differ from the run without the read-only calls",
                              "as without the calls", RO.first_diff(pres["info"].get("ro_final"), res["info"].get("ro_final")))]
        if job["ambient"] in REAL_ENTROPY:
            differs = normalise_streams(refouts[1:]) != normalise_streams(outs[1:])
        else:
            differs = refouts != outs
        if differs and not res["tainted"]:
            fails = fails + [("differs-from-ordinary-run", "the answers differ from the run without the ambient condition / rejected calls / read-only calls", refouts[:6], outs[:6])]
    model = None
    try:
        import common

        ctx = common.Ctx(PROP, "quick", 0)
        model = ctx.drive(lines)
    except BaseException as e:  # noqa
        print("model driver not available:", e)
    for i, (ln, o) in enumerate(zip(lines, outs)):
        print(f"{ln[:100]}\n   implementation: {o[:300]}")
        if model:
            print(f"   model         : {model[i][:300]}")
    for kind, what, exp, act in fails:
        print(f"PROPERTY FAILS [{kind}] {what}: expected {exp} actual {act}")
    print("expected:", f.get("expected"), "actual:", f.get("actual"))
    return 1 if fails else 0
