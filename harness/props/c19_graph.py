"""
C19 - construction aliasing probe (round 5).  Runs inside children of the c19_worker fork server: the library is imported there.

Class of defect: a constructor / factory keeps a REFERENCE to a mutable default argument value, to another piece of library-held
state (class attribute, module global, cached table) or to a mutable argument the caller still holds, in an attribute of the
object it returns.  Nothing differs until somebody edits that attribute in place; then every object built with the same
arguments before (still held) or afterwards serialises / compares differently than in a fresh interpreter.

Generic over the whole library (no class is named here):
  targets()      every class of okdmr.dmrlib found by walking the package directory (also the namespace packages pkgutil does not
                 descend into), Enums excepted; per class a PLAN of keyword arguments: nothing but the required ones, synthesised
                 from the annotations (enum members, ints, buffers of many widths, nested library objects built the same way,
                 dates, literals) by trying candidates until the constructor accepts them; plus one variant per parameter that
                 takes a mutable value (a private copy of its mutable default, or a synthesised buffer / container): the caller
                 hands over an object it keeps; plus every public static / class method without required parameters that returns
                 a library object (zero(), …) as a factory
  examine()      builds two instances from two sets of equal, separately made arguments, records what a third, freshly built one
                 serialises to, walks the attribute graph of the first (vars() / slots, recursively through nested library
                 objects, lists, tuples, dicts, sets) and for every mutable node - bitarray, bytearray, list, dict, set, array,
                 numpy array, writable memoryview, nested library object -
                   identity : is it an object the library holds (parameter defaults of every function, class attributes, module
                              globals, enum member state, and whatever is reachable from them)?  the corresponding or any node of
                              the second instance?  an argument object of this call (or reachable from one)?
                   behaviour: the caller edits the node in place (invert / flip / pop / add / set a scalar field); the second
                              instance, a freshly built third one, the library-held objects and the caller's argument objects
                              must still be what they were; the edit is undone in place afterwards (and that is verified)
Everything is deterministic (no random choice): plans and the order of the nodes depend on the source tree only.
"""
import copy
import enum
import hashlib
import inspect
import os
import re
import sys
import types
import typing

ROOT = "okdmr.dmrlib"
EXCLUDE_DIRS = ("__pycache__", "tests", "tools")
# packages whose public no-argument static / class methods are called as factories (the protocol handlers / storage /
# transmission classes are constructed, their other methods are not called: they open sockets, write files, start timers)
FACTORY_PKGS = ("etsi", "hytera", "motorola", "utils")
BIT_WIDTHS = (0, 8, 2, 1, 4, 16, 24, 32, 38, 48, 64, 72, 77, 80, 96, 128, 144, 192, 196, 264, 288, 12, 20, 36, 68)
OCTET_LENGTHS = (0, 1, 2, 4, 12, 3, 5, 6, 8, 10, 16, 18, 24, 27, 33, 34, 40, 53, 72)
MAX_TRIES = 400


def W():
    """the worker module (canon / dec / _observe), under whichever name it runs"""
    m = sys.modules.get("__main__")
    if m is not None and hasattr(m, "canon") and hasattr(m, "auto_entries"):
        return m
    for nm in ("c19_worker", "props.c19_worker"):
        if nm in sys.modules:
            return sys.modules[nm]
    try:
        import c19_worker as m  # noqa
    except ImportError:
        from props import c19_worker as m  # noqa
    return m


# ------------------------------------------------------------------------------------------------
# the classes of the library
_MODS = None
_CLASSES = None


def library_modules(imported_only=False):
    """every module of the package by walking its directory (pkgutil stops at directories without __init__.py);
    imported_only: nothing is imported, the modules the interpreter already has (a server whose children stand for a fresh
    interpreter state must not import on their behalf)"""
    global _MODS
    if imported_only and _MODS is None:
        return ([m for n, m in sorted(sys.modules.items()) if m is not None and n.startswith(ROOT + ".") and ".tests" not in n and ".tools" not in n], [])
    if _MODS is not None:
        return _MODS
    import importlib

    root = importlib.import_module(ROOT)
    base = list(root.__path__)[0]
    names = []
    for d, dirs, files in os.walk(base):
        dirs[:] = sorted(x for x in dirs if x not in EXCLUDE_DIRS)
        for fn in sorted(files):
            if not fn.endswith(".py"):
                continue
            rel = os.path.relpath(os.path.join(d, fn), base)[:-3].replace(os.sep, ".")
            if rel == "__init__":
                continue
            if rel.endswith(".__init__"):
                rel = rel[: -len(".__init__")]
            names.append(f"{ROOT}.{rel}")
    mods, skipped = [], []
    for nm in sorted(set(names)):
        try:
            mods.append(importlib.import_module(nm))
        except BaseException as e:  # noqa
            if isinstance(e, (KeyboardInterrupt, SystemExit)):
                raise
            skipped.append(nm)
    _MODS = (mods, skipped)
    return _MODS


def library_classes():
    """{`module:Class`: class} for every class defined in a module of the package, Enums and exceptions excepted"""
    global _CLASSES
    if _CLASSES is not None:
        return _CLASSES
    out = {}
    for mod in library_modules()[0]:
        for cname, cls in sorted(vars(mod).items()):
            if isinstance(cls, type) and cls.__module__ == mod.__name__ and not issubclass(cls, (enum.Enum, BaseException)):
                out[f"{mod.__name__[len(ROOT) + 1:]}:{cname}"] = cls
    _CLASSES = out
    return out


_LIB_ENUMS = None


def library_enums():
    global _LIB_ENUMS
    if _LIB_ENUMS is None:
        _LIB_ENUMS = {}
        for mod in library_modules()[0]:
            for cname, cls in sorted(vars(mod).items()):
                if isinstance(cls, type) and cls.__module__ == mod.__name__ and issubclass(cls, enum.Enum):
                    _LIB_ENUMS[f"{mod.__name__}:{cname}"] = cls
    return _LIB_ENUMS


def key_of_class(cls):
    return f"{cls.__module__[len(ROOT) + 1:]}:{cls.__name__}"


def is_lib_object(o):
    mod = type(o).__module__ or ""
    return mod.startswith(ROOT + ".") and not isinstance(o, (enum.Enum, type, BaseException))


# ------------------------------------------------------------------------------------------------
# mutable nodes
def node_kind(o):
    """'buffer' | 'container' | 'object' | None (immutable, or a foreign object the probe does not look into)"""
    if W()._immutable(o):
        return None
    tn = type(o).__name__
    if tn == "bitarray" or isinstance(o, bytearray) or tn == "ndarray" or (tn == "array" and type(o).__module__ == "array"):
        return "buffer"
    if isinstance(o, memoryview):
        return "buffer"
    if isinstance(o, (list, dict, set, tuple)) or tn == "deque":
        return "container"
    if is_lib_object(o):
        dp = getattr(type(o), "__dataclass_params__", None)
        if dp is not None and dp.frozen and all(W()._immutable(v) for v in fields_of(o).values()):
            return None  # a frozen dataclass of immutable values (BitCrcConfiguration): nothing of it can be edited
        return "object"
    return None


def fields_of(o):
    d = getattr(o, "__dict__", None)
    if d is None:
        d = {}
        for k in type(o).__mro__:
            for s in getattr(k, "__slots__", ()) or ():
                if isinstance(s, str) and hasattr(o, s):
                    d[s] = getattr(o, s)
    return {k: v for k, v in d.items() if k not in W().SKIP_FIELDS}


def walk(o, path="", out=None, seen=None, depth=0, limit=64):
    """[(path, node, kind)] of every mutable node reachable from o (o itself first); a node is listed once; of a container the first
    `limit` elements are entered"""
    out = [] if out is None else out
    seen = {} if seen is None else seen
    k = node_kind(o)
    if k is None or depth > 8 or id(o) in seen:
        return out
    seen[id(o)] = path
    if not (isinstance(o, tuple)):
        out.append((path, o, k))
    if k == "object":
        for name, v in sorted(fields_of(o).items()):
            walk(v, f"{path}.{name}", out, seen, depth + 1, limit)
    elif isinstance(o, (list, tuple)) or type(o).__name__ == "deque":
        for i, v in enumerate(o):
            if i >= limit:
                break
            walk(v, f"{path}[{i}]", out, seen, depth + 1, limit)
    elif isinstance(o, dict):
        for n, (kk, v) in enumerate(sorted(o.items(), key=lambda kv: W().canon(kv[0]))):
            if n >= limit:
                break
            walk(v, f"{path}[{W().canon(kk)}]", out, seen, depth + 1, limit)
    elif isinstance(o, set):
        for n, v in enumerate(sorted(o, key=lambda x: W().canon(x))):
            if n >= limit:
                break
            walk(v, f"{path}{{{n}}}", out, seen, depth + 1, limit)
    return out


# ------------------------------------------------------------------------------------------------
# what the library itself holds: parameter defaults, class attributes, module globals, enum member state
_REG = None
_ROOTS = {}


def registry(imported_only=False):
    """{id(object): (label, object)} of every mutable object the library holds after import, and what is reachable from it"""
    global _REG
    if _REG is not None:
        return _REG
    reg = {}

    def add(label, v):
        nodes = walk(v, limit=1 << 20)  # (all of it: an object the library holds must be recognised wherever it turns up)
        if nodes:
            _ROOTS.setdefault(label, v)
        for path, node, _k in nodes:
            reg.setdefault(id(node), (label + path, node))

    def fn_defaults(qual, f):
        f = getattr(f, "__func__", f)
        if isinstance(f, property):
            for g in (f.fget, f.fset, f.fdel):
                if g is not None:
                    fn_defaults(qual, g)
            return
        f = inspect.unwrap(f) if callable(f) else f
        if not isinstance(f, types.FunctionType):
            return
        code = f.__code__
        names = code.co_varnames[: code.co_argcount]
        dfl = f.__defaults__ or ()
        for pn, v in zip(names[len(names) - len(dfl):], dfl):
            add(f"default:{qual}({pn})", v)
        for pn, v in sorted((f.__kwdefaults__ or {}).items()):
            add(f"default:{qual}({pn})", v)

    for mod in library_modules(imported_only)[0]:
        mname = mod.__name__[len(ROOT) + 1:]
        for k, v in sorted(vars(mod).items()):
            if k.startswith("__"):
                continue
            if isinstance(v, types.FunctionType):
                if v.__module__ == mod.__name__:
                    fn_defaults(f"{mname}.{k}", v)
            elif isinstance(v, type):
                if v.__module__ != mod.__name__:
                    continue
                for ak, av in sorted(vars(v).items()):
                    if ak.startswith("__") and ak not in ("__init__", "__new__", "__post_init__", "__call__"):
                        continue
                    if isinstance(av, (types.FunctionType, staticmethod, classmethod, property)):
                        fn_defaults(f"{v.__name__}.{ak}", av)
                    elif issubclass(v, enum.Enum) and isinstance(av, v):
                        add(f"enum:{v.__name__}.{ak}.value", av.value)
                        for x, y in sorted(vars(av).items()):
                            if x not in ("_value_", "_name_", "__objclass__", "_sort_order_"):
                                add(f"enum:{v.__name__}.{ak}.{x}", y)
                    elif not callable(av) and not ak.startswith("_abc") and not isinstance(av, (types.MemberDescriptorType, types.GetSetDescriptorType)):
                        add(f"class:{v.__name__}.{ak}", av)
            elif not isinstance(v, types.ModuleType) and not callable(v) and type(v).__module__ not in ("typing", "logging"):
                add(f"global:{mname}.{k}", v)
    _REG = reg
    return reg


def registry_snapshot():
    """{label: canonical value} of every object the library holds (the roots: what is reachable from them is inside)"""
    c = W().canon
    out = {}
    registry()
    for label, o in _ROOTS.items():
        try:
            s = c(o)
        except BaseException as e:  # noqa
            s = "ERR canon " + type(e).__name__
        out[label] = s if len(s) <= 200 else f"[{len(s)}] sha256:{hashlib.sha256(s.encode()).hexdigest()[:24]}"
    return out


# ------------------------------------------------------------------------------------------------
# argument synthesis
def B(width):
    return ["b", ("10" * width)[:width]]


def X(n):
    return ["x", bytes((17 * i + 1) & 0xFF for i in range(n)).hex()]


def gdec(e):
    """decode one encoded argument (c19_worker.dec + library objects)"""
    t = e[0]
    if t == "enum":
        return list(enum_by_key(e[1]))[e[2]]
    if t == "obj":
        tg = default_target(e[1])
        if tg is None:
            raise ValueError(f"no way to build {e[1]}")
        return build(tg)[0]
    if t == "date":
        import datetime

        return datetime.date.fromisoformat(e[1])
    if t == "time":
        import datetime

        return datetime.time.fromisoformat(e[1])
    if t == "defcopy":
        return copy.deepcopy(default_of(resolve_callable(e[1], e[2]), e[3]))
    if t in ("l", "t"):
        v = [gdec(x) for x in e[1]]
        return v if t == "l" else tuple(v)
    if t == "d":
        return {gdec(k): gdec(v) for k, v in e[1]}
    return W().dec(e)


_ENUMS = {}


def enum_by_key(key):
    if key not in _ENUMS:
        import importlib

        mod, cname = key.split(":")
        _ENUMS[key] = getattr(importlib.import_module(mod), cname)
    return _ENUMS[key]


def resolve_callable(ckey, via):
    cls = library_classes()[ckey]
    return cls if via == "ctor" else getattr(cls, via[len("factory:"):])


def default_of(fn, pname):
    return inspect.signature(fn).parameters[pname].default


def _class_by_name(name):
    hits = [c for k, c in library_classes().items() if k.endswith(":" + name)]
    return hits[0] if len(hits) == 1 else None


def candidates(ann, pname, owner, depth=0):
    """encoded candidate values for a parameter, best guess first"""
    out = []
    if isinstance(ann, str):
        c = _class_by_name(ann.strip("'\""))
        ann = c if c is not None else inspect.Parameter.empty
    if isinstance(ann, typing.ForwardRef):
        c = _class_by_name(ann.__forward_arg__)
        ann = c if c is not None else inspect.Parameter.empty
    origin, args = typing.get_origin(ann), typing.get_args(ann)
    if ann is inspect.Parameter.empty or ann is typing.Any:
        n = pname.lower()
        if "bit" in n:
            out += [B(w) for w in BIT_WIDTHS]
        if "byte" in n or n in ("data", "payload", "raw", "buffer", "buf", "value"):
            out += [X(n_) for n_ in OCTET_LENGTHS]
        out += [["n"], ["i", 0], ["i", 1], ["s", ""], X(0), B(0)]
    elif origin is typing.Union:
        # library classes / enums first (a `bytes` alternative wants an exact length), None last
        def rank(t):
            if t is type(None):
                return 3
            if isinstance(t, type) and (t.__module__ or "").startswith(ROOT):
                return 0
            if t in (bytes, bytearray) or getattr(t, "__name__", "") == "bitarray":
                return 2  # wants an exact length
            return 1

        order = sorted(range(len(args)), key=lambda i: (rank(args[i]), i))
        per = [candidates(args[i], pname, owner, depth) for i in order]
        # interleave, so that no alternative has to wait for all widths of another
        for i in range(max((len(p) for p in per), default=0)):
            out += [p[i] for p in per if i < len(p)]
    elif origin is typing.Literal:
        out += [["s", a] if isinstance(a, str) else ["B", a] if isinstance(a, bool) else ["i", a] if isinstance(a, int) else ["x", a.hex()] for a in args if isinstance(a, (str, bool, int, bytes))]
    elif origin in (list, typing.List) or ann is list:
        out += [["l", []]]
    elif origin in (dict, typing.Dict) or ann is dict:
        out += [["d", []]]
    elif origin in (tuple, typing.Tuple) or ann is tuple:
        out += [["t", []]]
    elif origin in (set, typing.Set) or ann is set:
        out += [["l", []]]
    elif ann is type(None):
        out += [["n"]]
    elif isinstance(ann, type):
        import datetime

        tn = ann.__name__
        if issubclass(ann, enum.Enum) and not len(list(ann)):
            # `Union[BitCrcConfiguration, enum.Enum]`: an Enum whose members carry a configuration object
            for k2, e2 in sorted(library_enums().items()):
                ms = [i for i, m in enumerate(e2) if is_lib_object(m.value)]
                out += [["enum", k2, i] for i in ms[:2]]
        elif issubclass(ann, enum.Enum):
            n = len(list(ann))
            key = f"{ann.__module__}:{ann.__name__}"
            out += [["enum", key, i] for i in dict.fromkeys([0, 1, n - 1, 2, 3] + list(range(n))) if 0 <= i < n]
        elif ann is bool:
            out += [["B", False], ["B", True]]
        elif ann is int:
            out += [["i", 0], ["i", 1], ["i", 2], ["i", 9], ["i", 2308155]]
        elif ann is float:
            out += [["f", 0.0], ["f", 1.5]]
        elif ann is str:
            out += [["s", ""], ["s", "A"], ["s", "0"]]
        elif ann is bytes:
            out += [X(n_) for n_ in OCTET_LENGTHS]
        elif ann is bytearray:
            out += [["xa", X(n_)[1]] for n_ in OCTET_LENGTHS]
        elif tn in ("bitarray", "frozenbitarray"):
            out += [B(w) for w in BIT_WIDTHS]
        elif tn == "ndarray":
            out += [["np", [1, 0] * (w // 2)] for w in (0, 8, 16, 32)]
        elif ann is datetime.date:
            out += [["date", "2024-02-29"]]
        elif ann is datetime.time:
            out += [["time", "12:34:56"]]
        elif ann is datetime.datetime:
            out += [["n"]]
        elif (ann.__module__ or "").startswith(ROOT) and depth < 3 and ann is not owner:
            out += [["obj", key_of_class(ann)]]
        else:
            out += [["n"]]
    else:
        out += [["n"]]
    return out


def _params(fn):
    try:
        return list(inspect.signature(fn).parameters.values())
    except (TypeError, ValueError):
        return None


def _is_mutable_value(v):
    return node_kind(v) is not None and not isinstance(v, tuple)


def _try(fn, plan):
    """(accepted, progress): progress = the line of the constructor / factory body at which it gave up (the later the better)"""
    try:
        kw = {k: gdec(v) for k, v in plan.items()}
    except BaseException as e:  # noqa
        if isinstance(e, (KeyboardInterrupt, SystemExit)):
            raise
        return False, -1
    try:
        fn(**kw)
        return True, 1 << 30
    except BaseException as e:  # noqa
        if isinstance(e, (KeyboardInterrupt, SystemExit)):
            raise
        code = getattr(getattr(fn, "__init__", fn) if isinstance(fn, type) else getattr(fn, "__func__", fn), "__code__", None)
        line, tb = 0, e.__traceback__
        while tb is not None:
            if code is not None and tb.tb_frame.f_code is code:
                line = tb.tb_lineno
            tb = tb.tb_next
        return False, line


_PLANS = {}


def find_plan(ckey, via="ctor", fixed=None):
    """keyword arguments (encoded) the constructor / factory accepts: the required parameters (+ `fixed`), and only if that is not
    enough optional ones; None if none found.  Deterministic search: candidates by annotation, best guess first; the parameters are
    settled one at a time, a candidate is kept when the callee gets further with it (line at which it raises)"""
    memo = (ckey, via, repr(sorted((fixed or {}).items())))
    if memo in _PLANS:
        return _PLANS[memo]
    _PLANS[memo] = None  # (recursion guard: a class that needs itself)
    cls = library_classes()[ckey]
    fn = resolve_callable(ckey, via)
    ps = _params(fn)
    if ps is None or (via == "ctor" and inspect.isabstract(cls)):
        return None
    if any(p.kind is p.POSITIONAL_ONLY and p.default is p.empty for p in ps):
        return None
    try:
        hints = typing.get_type_hints(fn.__init__ if via == "ctor" and isinstance(fn, type) else fn)
    except BaseException:  # noqa
        hints = {}
    named = [p for p in ps if p.kind in (p.POSITIONAL_OR_KEYWORD, p.KEYWORD_ONLY) and p.name not in (fixed or {})]
    req = [p for p in named if p.default is p.empty]
    opt = [p for p in named if p.default is not p.empty]
    cands = {p.name: candidates(hints.get(p.name, p.annotation), p.name, cls) or [["n"]] for p in named}
    tries = [0]

    def ok(pl):
        tries[0] += 1
        return _try(fn, pl)

    def settle(plan, params, rounds=2):
        """coordinate ascent over `params`; (plan, accepted)"""
        good, best = ok(plan)
        for _ in range(rounds):
            if good:
                break
            for p in params:
                if good or tries[0] >= MAX_TRIES:
                    break
                for c in cands[p.name]:
                    if c == plan.get(p.name):
                        continue
                    if tries[0] >= MAX_TRIES:
                        break
                    g2, pr = ok(dict(plan, **{p.name: c}))
                    if g2 or pr > best:
                        plan, best, good = dict(plan, **{p.name: c}), pr, g2
                        if good:
                            break
        return plan, good

    plan = dict(fixed or {})
    plan.update({p.name: cands[p.name][0] for p in req})
    plan, found = settle(plan, req)
    if not found:
        # an optional parameter whose default the callee itself does not accept (radio_ip=b""), one at a time
        for p in opt:
            for c in cands[p.name][:6]:
                if found or tries[0] >= MAX_TRIES:
                    break
                if c == ["n"]:
                    continue
                g2, _pr = ok(dict(plan, **{p.name: c}))
                if g2:
                    plan, found = dict(plan, **{p.name: c}), True
    if not found:
        # every optional parameter that defaults to None given (a PDU whose serialiser needs its optional elements)
        full = dict(plan)
        for p in opt:
            if p.default is None:
                c = next((c for c in cands[p.name] if c != ["n"]), None)
                if c is not None:
                    full[p.name] = c
        tries[0] = 0
        full, found = settle(full, req, rounds=1)
        if found:
            plan = full
    _PLANS[memo] = plan if found else None
    return _PLANS[memo]


def full_plan(ckey, via):
    """the plan with every optional parameter that defaults to None given as well (more of the object is populated); None if the
    callee does not accept it"""
    base = find_plan(ckey, via)
    if base is None:
        return None
    cls = library_classes()[ckey]
    fn = resolve_callable(ckey, via)
    try:
        hints = typing.get_type_hints(fn.__init__ if via == "ctor" and isinstance(fn, type) else fn)
    except BaseException:  # noqa
        hints = {}
    plan = dict(base)
    for p in _params(fn) or []:
        if p.kind in (p.POSITIONAL_OR_KEYWORD, p.KEYWORD_ONLY) and p.default is None and p.name not in plan:
            c = next((c for c in candidates(hints.get(p.name, p.annotation), p.name, cls) if c != ["n"]), None)
            if c is not None and (p.annotation is not p.empty or p.name in hints):
                plan[p.name] = c
        elif p.kind in (p.POSITIONAL_OR_KEYWORD, p.KEYWORD_ONLY) and p.default is not p.empty and _is_mutable_value(p.default) and p.name not in plan:
            plan[p.name] = ["defcopy", ckey, via, p.name]
    if plan == base:
        return None
    if _try(fn, plan)[0]:
        return plan
    # drop what the callee refuses, one parameter at a time
    for k in [k for k in plan if k not in base]:
        trial = {x: v for x, v in plan.items() if x != k}
        if _try(fn, trial)[0]:
            return trial if trial != base else None
    return None


def default_target(ckey):
    plan = find_plan(ckey)
    return None if plan is None else {"cls": ckey, "via": "ctor", "plan": plan, "variant": "required-arguments-only"}


def build(target):
    """(object, {parameter: argument object}) - the arguments are made anew by every call"""
    fn = resolve_callable(target["cls"], target["via"])
    kw = {k: gdec(v) for k, v in target["plan"].items()}
    return fn(**kw), kw


ENUM_SHARE = 8  # quick: members of an enum parameter tried per class and parameter (rotated by the seed); thorough: all


def targets(thorough=False, seed=0):
    """every (class, way to build it, arguments) the probe examines + the classes it cannot build"""
    out, unbuildable, static_only = [], [], []
    classes = library_classes()
    for ckey, cls in sorted(classes.items()):
        vias = ["ctor"]
        pkg = ckey.split(".")[0].split(":")[0]
        if pkg in FACTORY_PKGS:
            for n in sorted({n for k in cls.__mro__ if (k.__module__ or "").startswith(ROOT) for n in vars(k) if not n.startswith("_")}):
                raw = inspect.getattr_static(cls, n, None)
                if isinstance(raw, (staticmethod, classmethod)):
                    ps = _params(getattr(cls, n))
                    if ps is not None and not [p for p in ps if p.default is p.empty and p.kind in (p.POSITIONAL_ONLY, p.POSITIONAL_OR_KEYWORD, p.KEYWORD_ONLY)]:
                        vias.append(f"factory:{n}")
        for via in vias:
            if via == "ctor" and cls.__init__ is object.__init__ and cls.__new__ is object.__new__ and not fields_of_class(cls):
                static_only.append(ckey)
                continue  # nothing is constructed: a namespace of static methods
            plan = find_plan(ckey, via)
            if plan is None:
                if via == "ctor" and not inspect.isabstract(cls):
                    unbuildable.append(ckey)
                continue
            if via != "ctor":
                try:
                    o = resolve_callable(ckey, via)()
                except BaseException:  # noqa
                    continue
                if node_kind(o) is None:
                    continue  # a factory is something that hands out a mutable object
            out.append({"cls": ckey, "via": via, "plan": plan, "variant": "required-arguments-only"})
            fp = full_plan(ckey, via)
            if fp is not None:
                out.append({"cls": ckey, "via": via, "plan": fp, "variant": "every-optional-object-given"})
            # an optional flag the other way round (get_known_tokens(is_request=False) hands out other tables)
            for p in (_params(resolve_callable(ckey, via)) or []) if pkg in FACTORY_PKGS else []:  # (a handler's flags may start timers / connections)
                if p.kind in (p.POSITIONAL_OR_KEYWORD, p.KEYWORD_ONLY) and isinstance(p.default, bool) and p.name not in plan:
                    pl = dict(fp or plan, **{p.name: ["B", not p.default]})
                    if _try(resolve_callable(ckey, via), pl)[0]:
                        out.append({"cls": ckey, "via": via, "plan": pl, "variant": f"flag:{p.name}"})
            # an attribute that is only bound for SOME opcode / format / packet kind: every member of every enum parameter the
            # plan gives (one parameter at a time), on the fullest plan the callee accepts
            basep = fp or plan
            fnx = resolve_callable(ckey, via)
            for pn, e in sorted(basep.items()):
                if e[0] != "enum":
                    continue
                nmem = len(list(enum_by_key(e[1])))
                picks = range(nmem) if thorough or nmem <= ENUM_SHARE + 1 else sorted({(seed * ENUM_SHARE + k) % nmem for k in range(ENUM_SHARE)})
                for i in picks:
                    if i == e[2]:
                        continue
                    pl = dict(basep, **{pn: ["enum", e[1], i]})
                    if _try(fnx, pl)[0]:
                        out.append({"cls": ckey, "via": via, "plan": pl, "variant": f"enum-member:{pn}"})
            # one variant per parameter that takes a mutable value: the caller hands over an object of its own and keeps it
            fn = resolve_callable(ckey, via)
            try:
                hints = typing.get_type_hints(fn.__init__ if via == "ctor" else fn)
            except BaseException:  # noqa
                hints = {}
            for p in _params(fn) or []:
                if p.kind not in (p.POSITIONAL_OR_KEYWORD, p.KEYWORD_ONLY) or p.name in ("self", "cls"):
                    continue
                if p.annotation is p.empty and p.name not in hints and not (p.default is not p.empty and _is_mutable_value(p.default)):
                    continue  # nothing says what the parameter takes
                encs = []
                if p.default is not p.empty and _is_mutable_value(p.default):
                    encs.append(["defcopy", ckey, via, p.name])
                else:
                    cs = [c for c in candidates(hints.get(p.name, p.annotation), p.name, cls) if c[0] in ("b", "bl", "xa", "np", "l", "d", "obj")]
                    if p.name in plan and plan[p.name][0] in ("b", "bl", "xa", "np", "l", "d", "obj"):
                        cs = [plan[p.name]]
                    # a buffer the signature calls `bytes` is, for the callee's conversions, anything with the buffer protocol
                    if not cs and p.name in plan and plan[p.name][0] == "x":
                        cs = [["xa", plan[p.name][1]]]
                    encs += cs
                for e in encs[: (len(encs) if thorough else 12)]:
                    pl = find_plan(ckey, via, {p.name: e})
                    if pl is not None:
                        out.append({"cls": ckey, "via": via, "plan": pl, "variant": f"caller-keeps:{p.name}"})
                        break
    return {"targets": out, "unbuildable": unbuildable, "static_only": static_only, "skipped_modules": library_modules()[1], "classes": len(classes)}


def fields_of_class(cls):
    return [n for k in cls.__mro__ if k is not object for n in (getattr(k, "__slots__", ()) or ())]


# ------------------------------------------------------------------------------------------------
# the caller's edit of one node, in place
def scribble(node, kind):
    """(description, undo) or None when the node offers nothing to edit"""
    tn = type(node).__name__
    try:
        if tn == "bitarray":
            saved = node.copy()
            if len(node):
                node.invert()
                what = "every bit inverted in place (.invert())"
            else:
                node.extend([1, 0, 1])
                what = "three bits appended in place (.extend([1, 0, 1]))"

            def undo():
                node.clear()
                node.extend(saved)

            return what, undo
        if isinstance(node, bytearray):
            saved = bytes(node)
            if len(node):
                for i in range(len(node)):
                    node[i] ^= 0xFF
                what = "every octet inverted in place"
            else:
                node.append(0xA5)
                what = "one octet appended in place"

            def undo():
                node[:] = saved

            return what, undo
        if tn == "ndarray":
            if not node.flags.writeable or node.size == 0:
                return None
            saved = node.copy()
            node[...] = (node == 0)

            def undo():
                node[...] = saved

            return "every element flipped in place (a[...] = a == 0)", undo
        if tn == "array":
            saved = node[:]
            if len(node) and node.typecode not in "fdu":
                node[0] = node[0] ^ 1
                what = "first element changed in place"
            else:
                return None

            def undo():
                node[0] = saved[0]

            return what, undo
        if isinstance(node, memoryview):
            if node.readonly or not len(node) or node.format not in ("B", "b", "c"):
                return None
            saved = bytes(node)
            b = node.cast("B")
            for i in range(len(b)):
                b[i] ^= 0xFF

            def undo():
                for i in range(len(b)):
                    b[i] = saved[i]

            return "every octet inverted in place", undo
        if isinstance(node, list):
            saved = list(node)
            if node:
                node.pop()
                what = "last element removed in place (.pop())"
            else:
                node.append(0)
                what = "one element appended in place (.append(0))"

            def undo():
                node[:] = saved

            return what, undo
        if isinstance(node, dict):
            saved = dict(node)
            if node:
                node.popitem()
                what = "last item removed in place (.popitem())"
            else:
                node["c19-scribble"] = 0
                what = "one item added in place (d['c19-scribble'] = 0)"

            def undo():
                node.clear()
                node.update(saved)

            return what, undo
        if isinstance(node, set):
            saved = set(node)
            node.add("c19-scribble")

            def undo():
                node.clear()
                node.update(saved)

            return "one element added in place", undo
        if kind == "object":
            fs = fields_of(node)
            for name in sorted(fs):
                v = fs[name]
                if isinstance(v, enum.Enum):
                    continue
                if isinstance(v, bool):
                    new = not v
                elif isinstance(v, int):
                    new = v ^ 1
                elif isinstance(v, float):
                    new = v + 1.0
                elif isinstance(v, str):
                    new = ("S" if v[:1] != "S" else "N") + v[1:] if v else "x"
                elif isinstance(v, bytes):
                    new = bytes(x ^ 0xFF for x in v) if v else b"\xa5"
                else:
                    continue
                try:
                    setattr(node, name, new)
                except BaseException:  # noqa
                    continue

                def undo(name=name, v=v):
                    setattr(node, name, v)

                return f"field .{name} set to {W().canon(new)[:40]} (was {W().canon(v)[:40]})", undo
            for name in sorted(fs):
                v = fs[name]
                if isinstance(v, enum.Enum):
                    ms = list(type(v))
                    if len(ms) < 2:
                        continue
                    new = ms[(ms.index(v) + 1) % len(ms)]
                    try:
                        setattr(node, name, new)
                    except BaseException:  # noqa
                        continue

                    def undo(name=name, v=v):
                        setattr(node, name, v)

                    return f"field .{name} set to {type(v).__name__}.{new.name} (was {v.name})", undo
    except BaseException as e:  # noqa
        if isinstance(e, (KeyboardInterrupt, SystemExit)):
            raise
    return None


_ADDR = re.compile(r" at 0x[0-9a-fA-F]+")


def observe(o):
    """canonical form of the object and of everything its own public no-argument serialisers / accessors hand out (as_* / to_* /
    get_* / is_*, repr); what is not a value of the library (a logger, a socket, a lock) is named by its type only"""
    w = W()

    def val(v):
        if isinstance(v, (list, tuple)):
            return [val(x) for x in v]
        if node_kind(v) is None and not w._immutable(v):
            return f"<{type(v).__name__}>"
        return v

    try:
        out = [o]
        if is_lib_object(o):
            names = sorted({n for k in type(o).__mro__ if (k.__module__ or "").startswith(ROOT) for n in vars(k)
                            if n.startswith(("as_", "to_", "get_", "is_")) and n not in ("get_logger",)})
            for n in names:
                f = getattr(o, n, None)
                if not callable(f):
                    continue
                ps = _params(f)
                if ps is None or [p for p in ps if p.default is p.empty and p.kind in (p.POSITIONAL_ONLY, p.POSITIONAL_OR_KEYWORD, p.KEYWORD_ONLY)]:
                    continue
                try:
                    out.append(val(f()))
                except NotImplementedError:
                    pass
                except Exception as e:  # noqa
                    out.append("ERR " + type(e).__name__)
            if type(o).__repr__ is not object.__repr__:
                try:
                    out.append(repr(o))
                except Exception as e:  # noqa
                    out.append("ERR " + type(e).__name__)
        # (the default repr of a nested object carries its address: the identity of this process's object, not a value)
        return _ADDR.sub(" at 0x?", w.canon(out))
    except BaseException as e:  # noqa
        if isinstance(e, (KeyboardInterrupt, SystemExit)):
            raise
        return "ERR observe " + type(e).__name__


def _short(s, n=160):
    return s if len(s) <= n else s[: n - 30] + f"…[{len(s)} chars sha256:{hashlib.sha256(s.encode()).hexdigest()[:12]}]"


def _diff(a, b, width=90):
    i, n = 0, min(len(a), len(b))
    while i < n and a[i] == b[i]:
        i += 1
    lo = max(0, i - 40)
    pre = "…" if lo else ""
    return pre + a[lo: i + width] + ("…" if len(a) > i + width else ""), pre + b[lo: i + width] + ("…" if len(b) > i + width else "")


def call_text(target):
    ck = target["cls"].split(":")[1]
    fn = ck if target["via"] == "ctor" else f"{ck}.{target['via'][len('factory:'):]}"

    def txt(e):
        t = e[0]
        if t == "enum":
            return f"{e[1].split(':')[1]}.{list(enum_by_key(e[1]))[e[2]].name}"
        if t == "obj":
            tg = default_target(e[1])
            return call_text(tg) if tg else e[1]
        if t in ("b", "bl"):
            return f"bitarray('{e[1] if len(e[1]) <= 24 else e[1][:16] + '…'}')" + (f" [{len(e[1])} bits]" if len(e[1]) > 24 else "")
        if t in ("x", "xa"):
            h = e[1] if len(e[1]) <= 24 else e[1][:16] + "…"
            return (f"bytes.fromhex('{h}')" if t == "x" else f"bytearray.fromhex('{h}')") + (f" [{len(e[1]) // 2} octets]" if len(e[1]) > 24 else "")
        if t == "defcopy":
            return f"<a private copy of the default of {e[3]}>"
        if t in ("i", "s", "B", "f"):
            return repr(e[1])
        if t == "n":
            return "None"
        if t in ("date", "time"):
            return f"{t}.fromisoformat({e[1]!r})"
        if t in ("l", "t"):
            inner = ", ".join(txt(x) for x in e[1])
            return f"[{inner}]" if t == "l" else f"({inner}{',' if len(e[1]) == 1 else ''})"
        if t == "d":
            return "{" + ", ".join(f"{txt(k)}: {txt(v)}" for k, v in e[1]) + "}"
        if t == "np":
            return f"numpy.array({e[1]})"
        return str(e)

    return f"{fn}(" + ", ".join(f"{k}={txt(v)}" for k, v in target["plan"].items()) + ")"


def examine(target):
    """one target in this (forked, fresh) interpreter state: {"nodes": n, "findings": [...], ...}"""
    w = W()
    w.impl()
    reg = registry()
    res = {"cls": target["cls"], "via": target["via"], "variant": target["variant"], "call": call_text(target), "nodes": 0, "edited": 0, "findings": [], "notes": []}
    try:
        a, kwa = build(target)
        b, kwb = build(target)
    except BaseException as e:  # noqa
        if isinstance(e, (KeyboardInterrupt, SystemExit)):
            raise
        res["notes"].append("build-failed:" + type(e).__name__)
        return res
    if node_kind(a) is None:
        res["notes"].append("immutable-result")
        return res

    def fresh():
        try:
            return observe(build(target)[0])
        except BaseException as e:  # noqa
            if isinstance(e, (KeyboardInterrupt, SystemExit)):
                raise
            return "ERR " + type(e).__name__

    # an instance built only to be looked at (twice: is the constructor's answer stable at all?), the second instance (twice:
    # does looking at it change it?)
    fresh0, fresh0b = fresh(), fresh()
    held0, held0b = observe(b), observe(b)
    stable_fresh, stable_held = fresh0 == fresh0b, held0 == held0b
    if not stable_fresh:
        res["notes"].append("two-fresh-instances-differ")
    if not stable_held:
        res["notes"].append("second-look-at-an-instance-differs")
    arg_nodes = {}
    for pn, v in kwa.items():
        for path, node, _k in walk(v):
            arg_nodes.setdefault(id(node), (pn + path, node))
    nodes_a = walk(a)
    nodes_b = walk(b)
    ids_b = {id(n): p for p, n, _k in nodes_b}
    res["nodes"] = len(nodes_a) - (0 if is_container_root(a) else 1)
    ck = target["cls"].split(":")[1]
    args_mut = {pn: v for pn, v in kwa.items() if node_kind(v) is not None}

    def look(lib=True):
        """what an edit must not reach: the held second instance, a fresh instance, the library's objects, the caller's arguments"""
        return {"held": observe(b) if stable_held else None, "fresh": fresh() if stable_fresh else None, "library": registry_snapshot() if lib else None,
                "argument": {pn: w.canon(v) for pn, v in args_mut.items()}}

    # (the library's objects are looked at for the first time when a node calls for it, see `lib` below: nothing was edited before)
    base = {"held": held0 if stable_held else None, "fresh": fresh0 if stable_fresh else None, "library": None, "argument": {pn: w.canon(v) for pn, v in args_mut.items()}}
    covered = []  # (path of a node already reported, the kinds of sharing found there): what lies below is the same finding
    for path, node, kind in nodes_a:
        if path == "" and not is_container_root(a):
            continue  # the instance itself
        shared = []
        if id(node) in reg:
            shared.append({"with": "library", "label": reg[id(node)][0]})
        if id(node) in ids_b:
            shared.append({"with": "instances", "label": f"{ids_b[id(node)] or 'the result'} of a second call with equal arguments"})
        if id(node) in arg_nodes:
            shared.append({"with": "argument", "label": arg_nodes[id(node)][0]})
        kinds = {x["with"] for x in shared}
        above = [ks for p0, ks in covered if path.startswith(p0) and path[len(p0): len(p0) + 1] in (".", "[", "{")]
        if shared and any(kinds <= ks for ks in above):
            res["below-a-shared-node"] = res.get("below-a-shared-node", 0) + 1
            continue
        effects = []
        what = None
        before = w.canon(node)
        if base["library"] is None and (id(node) in reg or type(node).__name__ in ("ndarray", "memoryview", "array", "bytearray")):
            base["library"] = registry_snapshot()
        sc = scribble(node, kind)
        if sc is not None:
            what, undo = sc
            res["edited"] += 1
            # the library's own objects (390 of them, some large tables) are looked at while the edit is in place when the node IS one of
            # them (or lies inside one), when it is a buffer other objects can be views of, or when the edit showed anywhere else;
            # an edit of a private list / dict / bitarray cannot reach them
            lib = id(node) in reg or type(node).__name__ in ("ndarray", "memoryview", "array", "bytearray")
            try:
                after = look(lib and base["library"] is not None)
                if not lib and (after["held"] != base["held"] or after["fresh"] != base["fresh"]):
                    lib = True
                if lib and after["library"] is None:
                    after["library"] = registry_snapshot()
            finally:
                try:
                    undo()
                except BaseException:  # noqa
                    pass
            if w.canon(node) != before:
                res["notes"].append(f"edit-not-undone:{path}")
                break
            back = look(lib)
            if lib and base["library"] is None:
                base["library"] = back["library"]  # the edit is undone (verified above): what the library holds when nothing is edited
            if not lib:
                after["library"] = back["library"] = base["library"] = base["library"] or {}
            # an effect of the edit: differs while the edit is in place, is what it was once the edit is undone (anything else -
            # a clock, a counter - is not the edit's doing)
            for on in ("held", "fresh"):
                if base[on] is not None and after[on] != base[on] and back[on] == base[on]:
                    d = _diff(base[on], after[on])
                    txt = (f"a second {ck} object built BEFORE the edit with equal arguments (its own argument objects) and still held changed" if on == "held"
                           else f"{res['call']} called AFTER the edit answers differently than when called first")
                    effects.append({"on": on, "text": txt, "expected": d[0], "actual": d[1]})
            for lab in sorted(k for k in set(base["library"]) | set(after["library"]) if base["library"].get(k) != after["library"].get(k) and back["library"].get(k) == base["library"].get(k))[:3]:
                effects.append({"on": "library", "text": f"the object the library holds as {lab} changed", "expected": _short(base["library"].get(lab, "-")), "actual": _short(after["library"].get(lab, "-"))})
            for pn in sorted(args_mut):
                if after["argument"][pn] != base["argument"][pn] and back["argument"][pn] == base["argument"][pn]:
                    effects.append({"on": "argument", "text": f"the caller's own argument object `{pn}` changed (the object keeps the caller's buffer: re-using that buffer changes the object, editing the object changes the buffer)",
                                    "expected": _short(base["argument"][pn]), "actual": _short(after["argument"][pn])})
        if shared or effects:
            covered.append((path, kinds | {{"held": "instances", "fresh": "library", "library": "library", "argument": "argument"}[e["on"]] for e in effects}))
            res["findings"].append({"path": path, "type": type(node).__name__, "shared": shared, "edit": what, "effects": effects, "value": _short(before, 80)})
    return res


def is_container_root(o):
    return not is_lib_object(o)


# ------------------------------------------------------------------------------------------------
# inside a history (c19_worker run_seq, "hold"): what the calls returned is still held by the caller
_TOP = re.compile(r"^(\[\d+\])?$")


def deep_sharing(raws):
    """raws: what the calls of a history returned (None = not held).  The object graphs of all of them are walked:
    library : a node IS an object the library holds (a parameter default, a class attribute, …) -> [call, path, label, type]
    cross   : a node below the top level of one result is also a node of another call's result       -> [call i, path, call j, path, type]
              (two top-level results being one object is c19_worker's held_alias)"""
    reg = registry(imported_only=True)
    lib, cross, seen, labels = [], [], {}, {}
    for i, raw in enumerate(raws):
        if raw is None:
            continue
        try:
            nodes = walk(raw)
        except BaseException as e:  # noqa
            if isinstance(e, (KeyboardInterrupt, SystemExit)):
                raise
            continue
        for path, node, _k in nodes:
            nid = id(node)
            if nid in reg:
                lab = reg[nid][0]
                if labels.get(lab, 0) < 2:
                    labels[lab] = labels.get(lab, 0) + 1
                    lib.append([i, path, lab, type(node).__name__])
            elif nid in seen:
                j, p0 = seen[nid]
                if j != i and not (_TOP.match(path) and _TOP.match(p0)) and len(cross) < 6:
                    cross.append([j, p0, i, path, type(node).__name__])
            else:
                seen[nid] = (i, path)
    return {"library": lib, "cross": cross}
