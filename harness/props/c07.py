"""C07 — a generated data transmission is received back as the same payload, checks ok (DESIGN §5 C07).

End-to-end on the real code: `TransmissionGenerator.generate_full_data_transmission` -> every burst
`as_bytes()` -> `Burst.from_bytes` -> a real `Terminal` with recording observers.  The oracle is the property
as stated.  The correspondence compares the Lean model of the generator (`frag.full`: the abstract bursts it
generates vs. the abstraction of the parsed real bursts; `frag.count`: block / pad arithmetic) and the model of
the receiver (the C08 tracker, same driver) with the real code.
"""
import json
from math import ceil

from common import impl_error
from props import c08

PROP = "C07"
MODULES = ["C07"]
GEN = ["Tracker", "Fragment"]
MATCHERS = {}

RATES = ["r12", "r34", "r1"]
# independent restatement of ETSI TS 102 361-1 table 8.1 (octets per block, per last block)
TABLE = {("r12", True): (10, 6), ("r12", False): (12, 8), ("r34", True): (16, 12), ("r34", False): (18, 14),
         ("r1", True): (22, 18), ("r1", False): (24, 20)}


def L():
    return c08.L()


def rate_cls(rate):
    l = L()
    return {"r12": l.Rate12Data, "r34": l.Rate34Data, "r1": l.Rate1Data}[rate]


def int_blocks(per, last, n):
    """integer form of ceil(1 + (n - last) / per)"""
    return 1 if n <= last else 1 + (n - last + per - 1) // per


def make_header(confirmed, poc, nblocks, sap, dst, src):
    l = L()
    return l.DataHeader(
        dpf=l.DataPacketFormats.DataPacketConfirmed if confirmed else l.DataPacketFormats.DataPacketUnconfirmed,
        is_response_requested=confirmed, pad_octet_count=poc, sap_identifier=l.SAPIdentifier(sap),
        llid_destination=dst, llid_source=src, full_message_flag=l.FullMessageFlag(1), blocks_to_follow=nblocks,
        resynchronize_flag=l.ResynchronizeFlag(0), send_sequence_number=0, fragment_sequence_number=8)


def run_case(case):
    """case = dict(rate, confirmed, k, cc, payload hex, sap, dst, src, slot, raises).
    Returns (model lines, implementation outputs, oracle failures, info)."""
    l = L()
    rate, confirmed, k, cc = case["rate"], case["confirmed"], case["k"], case["cc"]
    payload = bytes.fromhex(case["payload"])
    cls = rate_cls(rate)
    per, last = TABLE[(rate, confirmed)]
    lines, outs, fails = [], [], []
    info = {"blocks": None, "overlong": False}

    def fail(kind, what, exp=None, act=None):
        fails.append((kind, what, exp, act))

    counter = c08.Counter()
    with c08.quiet(counter):
        # ---- the generator: pad count and number of blocks as the library computes them
        try:
            data_bursts, poc = l.TransmissionGenerator.generate_data_bursts(cls, payload, cc, confirmed)
        except BaseException as e:  # noqa
            fail("generator-raises", f"generate_data_bursts raised {impl_error(e)}: {str(e)[:100]}", "bursts", impl_error(e))
            return lines, outs, fails, info
        nblocks = len(data_bursts)
        info["blocks"] = nblocks
        lines.append(f"frag.count {rate} {int(confirmed)} {len(payload)}")
        outs.append(f"{nblocks} {poc}")
        # arithmetic of the property, independently: N blocks, pad, table
        exp_n = int_blocks(per, last, len(payload))
        if nblocks != exp_n or poc != (exp_n - 1) * per + last - len(payload):
            fail("fragment-arithmetic", "number of blocks / pad octets", [exp_n, (exp_n - 1) * per + last - len(payload)], [nblocks, poc])
        if not (0 <= poc < per + 0 or nblocks == 1):
            fail("fragment-arithmetic", "more pad octets than one block holds", f"< {per}", poc)
        # ---- the caller's header
        try:
            header = make_header(confirmed, poc, nblocks, case["sap"], case["dst"], case["src"])
        except OverflowError:
            info["overlong"] = True
            if nblocks <= 127:
                fail("header-raises", "DataHeader cannot be built although blocks-to-follow fits 7 bits", "header", "ERR OverflowError")
            return lines, outs, fails, info
        except BaseException as e:  # noqa
            fail("header-raises", f"DataHeader(...) raised {impl_error(e)} instead of a clean OverflowError", "OverflowError", impl_error(e))
            return lines, outs, fails, info
        if nblocks > 127:
            fail("overlong-accepted", "a header announcing more than 127 blocks was built", "OverflowError", "header")
            return lines, outs, fails, info
        try:
            bursts = l.TransmissionGenerator.generate_full_data_transmission(cls, payload, header, csbk_count=k, colour_code=cc)
            wire = [b.as_bytes() for b in bursts]
        except BaseException as e:  # noqa
            fail("generator-raises", f"generate_full_data_transmission / as_bytes raised {impl_error(e)}: {str(e)[:100]}", "bursts", impl_error(e))
            return lines, outs, fails, info
        if any(len(w) != 33 for w in wire):
            fail("burst-length", "a serialised burst is not 33 bytes", 33, [len(w) for w in wire if len(w) != 33][:3])
            return lines, outs, fails, info
        # ---- parse and abstract every burst (this is where parse(serialise b) = b enters)
        toks = []
        try:
            for w in wire:
                toks.append(c08.alpha(w.hex(), "DataAndControl")[0])
        except BaseException as e:  # noqa
            fail("generated-burst-unparseable", f"Burst.from_bytes raised {impl_error(e)} on a generated burst", "burst", impl_error(e))
            return lines, outs, fails, info
        # ---- model of the generator: same abstract bursts
        gen_blocks = [b.data for b in bursts[k + 1:]]
        crc32_field = gen_blocks[-1].crc32
        crc9tab = ",".join(f"{b.data.hex()}:{b.crc32}:{b.crc9}" for b in gen_blocks) if confirmed else "-"
        csbktab = ",".join(f"{b.data.blocks_to_follow}:{c08.pdu_hex(b.data)}" for b in bursts[:k]) or "-"
        lines.append(" ".join([
            "frag.full", rate, str(k), str(cc), payload.hex() or "-", str(crc32_field), crc9tab, str(nblocks), str(int(confirmed)),
            str(case["sap"]), c08.pdu_hex(header), str(poc), csbktab]))
        outs.append(";".join(toks))
        # ---- the receiver
        observers = [c08.make_observer(r) for r in case["raises"]]
        term = l.Terminal(1, observers)
        lines.append("t.init " + "".join("1" if r else "0" for r in case["raises"]))
        outs.append("ok")
        slot = case["slot"]
        for i, w in enumerate(wire):
            burst = l.Burst.from_bytes(w)
            before = [len(o.log) for o in observers]
            lines.append(f"t.burst {slot} {toks[i]}")
            try:
                out = term.process_incoming_burst(burst, slot)
            except BaseException as e:  # noqa
                outs.append(impl_error(e))
                fail("receiver-raises", f"process_incoming_burst raised {impl_error(e)} on generated burst {i}", "no exception", impl_error(e))
                return lines, outs, fails, info
            ts = term.timeslots[slot]
            news = [o.log[n:] for o, n in zip(observers, before)]
            outs.append(" ".join([str(out.sequence_no), c08.LABEL[out.voice_burst.name], str(int.from_bytes(out.stream_no, "big")),
                                  str(ts.colour_code), "|".join(";".join(n) if n else "-" for n in news) if observers else "-"]))
        lines.append("t.state")
        outs.append(c08.slot_state(term.timeslots[1]) + " / " + c08.slot_state(term.timeslots[2]) + " / " + str(counter.n))

        # ---- oracle: exactly the property
        for j, o in enumerate(observers):
            ev = o.raw
            kinds = [(e[0], e[1]) for e in ev]
            if kinds != [("S", "D"), ("E", "D")]:
                fail("events", f"observer {j} did not receive exactly one 'started data' and one 'data ended'", [["S", "D"], ["E", "D"]], kinds)
                continue
            _, _, hdr, blocks = ev[1]
            if not isinstance(hdr, l.DataHeader) or c08.pdu_hex(hdr) != c08.pdu_hex(header):
                fail("header", "the ended notification does not carry the generated header", c08.pdu_hex(header), c08.canon_hdr(hdr))
                continue
            rblocks = [b for b in blocks if isinstance(b, (l.Rate12Data, l.Rate34Data, l.Rate1Data))]
            if any(type(b) is not cls for b in rblocks) or len(rblocks) != nblocks or len(rblocks) != hdr.blocks_to_follow:
                fail("block-count", "number / class of received data blocks", nblocks, [type(b).__name__ for b in rblocks][:5] + [len(rblocks)])
            data = b"".join(b.data for b in rblocks)
            want = payload + b"\x00" * hdr.pad_octet_count
            if data != want:
                fail("payload", "received data blocks do not concatenate to payload + announced pad octets", want.hex()[:80], data.hex()[:80])
            if rblocks:
                lastb = rblocks[-1]
                calc = l.CRC32.calculate(data)
                if lastb.crc32.to_bytes(4, "big") != calc.to_bytes(4, "little") or not l.CRC32.check(data, int.from_bytes(lastb.crc32.to_bytes(4, "big"), "little")):
                    fail("crc32", "trailing CRC-32 does not match the received data", calc.to_bytes(4, "little").hex(), lastb.crc32.to_bytes(4, "big").hex())
                if not lastb.is_last_block() or any(b.is_last_block() for b in rblocks[:-1]):
                    fail("last-block", "last-block typing of the received blocks", "only the final block", [b.packet_type.name for b in rblocks][-3:])
            if confirmed:
                mask = {"r12": l.CrcMasks.Rate12DataContinuation, "r34": l.CrcMasks.Rate34DataContinuation, "r1": l.CrcMasks.Rate1DataContinuation}[rate]
                for i, b in enumerate(rblocks):
                    if not b.is_confirmed():
                        fail("crc9", f"block {i} of a confirmed transmission is not parsed as confirmed", "confirmed", b.packet_type.name)
                    elif b.crc9_ok is not True:
                        fail("crc9", f"confirmed block {i} of {len(rblocks)} reports an invalid CRC-9", True, b.crc9_ok)
                    else:
                        # independently: the transmitted field is the CRC-9 over (data, serial number[, CRC-32 of the last block])
                        tx = gen_blocks[i].crc9 if i < len(gen_blocks) else None
                        ref = l.CRC9.calculate_from_parts(data=b.data, serial_number=b.dbsn, mask=mask, crc32=b.crc32 if i == len(rblocks) - 1 else None)
                        if b.crc9 != ref or (tx not in (0, None) and tx != b.crc9):
                            fail("crc9", f"CRC-9 field of confirmed block {i} is not the CRC-9 of its data and serial number", ref, [b.crc9, tx])
            pre = blocks[: len(blocks) - len(rblocks) - 1]
            btfs = [b.blocks_to_follow for b in pre if isinstance(b, l.CSBK)]
            follow = len(wire) - k
            if len(pre) != k or btfs != list(range(k + follow - 1, follow - 1, -1)) or any(b.csbko != l.CsbkOpcodes.PreambleCSBK for b in pre):
                fail("preambles", "preamble CSBKs do not count down to the number of bursts that follow the last preamble", list(range(k + follow - 1, follow - 1, -1)), btfs)
            if follow != 1 + nblocks:
                fail("preambles", "bursts after the last preamble", 1 + nblocks, follow)
        if observers and len({tuple(o.log) for o in observers}) != 1:
            fail("observer-isolation", "observers received different events", observers[0].log[:2], observers[-1].log[:2])
        tx = term.timeslots[slot].transmission
        if (tx.type.name, tx.blocks_expected, tx.blocks_received, len(tx.blocks)) != ("Idle", 0, 0, 0):
            fail("not-idle", "tracker is not idle after the generated transmission", ["Idle", 0, 0, 0], [tx.type.name, tx.blocks_expected, tx.blocks_received, len(tx.blocks)])
    return lines, outs, fails, info


def job_run(case):
    return run_case(case)


def payload_of(rng, n, mode):
    if mode == 0:
        return bytes(rng.randrange(256) for _ in range(n))
    if mode == 1:
        return bytes(n)
    if mode == 2:
        return b"\xff" * n
    return bytes((i * 37 + 11) & 0xFF for i in range(n))


def make_case(rng, rate, confirmed, n, idx):
    return {
        "rate": rate, "confirmed": confirmed, "k": idx % 17 if rng.random() < 0.7 else rng.randrange(17),
        "cc": (idx // 3) % 16 if rng.random() < 0.7 else rng.randrange(16),
        "payload": payload_of(rng, n, 0 if rng.random() < 0.8 else rng.randrange(1, 4)).hex(),
        "sap": rng.choice([3, 4, 10, 4, 4]), "dst": rng.randrange(1, 1 << 24), "src": rng.randrange(1, 1 << 24),
        "slot": 1 + (idx % 2), "raises": [[True, False], [False], [False, True], []][idx % 4],
    }


CORPUS = [
    # 6db02eb: CRC-32 was handed to every block, every non-last confirmed block had an invalid CRC-9
    ("fixed:6db02eb confirmed 2 blocks r12", "r12", True, 11),
    ("fixed:6db02eb confirmed 3 blocks r34", "r34", True, 40),
    ("fixed:6db02eb confirmed 4 blocks r1", "r1", True, 70),
    ("fixed:6db02eb confirmed 5 blocks r12 zeros", "r12", True, 44),
    ("unconfirmed single block, empty payload", "r12", False, 0),
    ("test_construct_rate12 shape", "r12", False, 10),
]


def run(ctx):
    ctx.rule = (
        "corpus (confirmed transmissions of >= 2 blocks: regression of 6db02eb) first; then per (rate, mode) every payload length "
        "0..64 plus a seeded sample up to 1500 and the boundary lengths of the 7-bit block counter (quick) / every length 0..1500 "
        "(thorough); preamble count, colour code, time slot and observer configuration rotate through all values; payload bytes random "
        "(20 %: zeros / 0xFF / a ramp). A case is one generated transmission sent through serialise, parse and a real Terminal; "
        "distinct = distinct (rate, mode, k, colour code, payload). Over-long payloads (> 127 blocks) must fail cleanly when the "
        "header is built."
    )
    ctx.trusted_base += [
        "Lean 4.33 kernel",
        "tools/extract_tracker.py (table literals of generate_data_bursts located in its AST and evaluated; enum values, resolve() graphs and typed-parse layouts by calling the library)",
        "hand-written model of the generator arithmetic (Model/Fragment.lean) and of the receiver (Model/Tracker.lean), tied to the code by this run's correspondence",
        "per-burst channel: the abstraction of parse(serialise(b)) equals the abstraction of b — this is C01 (with C02/C10/C03); here it is checked on every generated burst by the frag.full comparison, not proved",
        "CRC-32 and CRC-9 are abstract functions in the theorem (C05); the oracle recomputes them with the library's CRC32 / CRC9",
        "IEEE-754: Python's ceil(1 + (len - last) / per) equals the integer ceiling for len < 2^50 (|q| < 2^47, each of the two roundings is off by < 2^-6, "
        "a non-integer quotient is >= 1/24 away from an integer); cross-checked on sampled lengths up to 2^50 in every run",
    ]
    ctx.assumptions += [
        "the caller supplies a header with pad_octet_count = the generator's pad count, blocks_to_follow = number of data blocks (<= 127), A bit = confirmed mode",
        "payload length < 2^50",
    ]
    c08.lib()  # import the library before any worker is forked
    rng = ctx.rng
    pairs = []
    idx = 0
    jobs = []

    def add(desc, case, sample=False):
        jobs.append((desc, case, sample))

    for desc, rate, confirmed, n in CORPUS:
        for k in (0, 1, 16):
            case = make_case(rng, rate, confirmed, n, idx)
            case["k"] = k
            if "zeros" in desc:
                case["payload"] = bytes(n).hex()
            add(desc, case, sample=k == 1)
            idx += 1
        ctx.count("corpus")
    for rate in RATES:
        for confirmed in (True, False):
            per, last = TABLE[(rate, confirmed)]
            edge = 126 * per + last
            if ctx.thorough():
                lens = list(range(0, 1501)) + [x for x in (edge - 1, edge, edge + 1, edge + per, edge + per + 1) if x > 1500]
            else:
                lens = set(range(0, 65))
                lens |= {rng.randrange(65, 1501) for _ in range(ctx.budget(30, 30))}
                # boundaries of the 7-bit block counter and of the block grid
                lens |= {edge - 1, edge, edge + 1, edge + per, edge + per + 1, 1500}
                lens |= {m * per + last + d for m in (1, 2, 5) for d in (-1, 0, 1)}
                lens = sorted(lens)
            for n in lens:
                add("sweep", make_case(rng, rate, confirmed, n, idx), sample=(n == 33 and rate == "r34"))
                idx += 1
    # extra random (k, cc, payload) combinations at small lengths
    for _ in range(ctx.budget(200, 2000)):
        rate, confirmed = rng.choice(RATES), bool(rng.randrange(2))
        add("random", make_case(rng, rate, confirmed, rng.choice([0, 1, 5, 6, 7, 12, 13, 30, rng.randrange(200)]), rng.randrange(10 ** 6)))
    for (desc, case, sample), res in zip(jobs, c08.pmap(job_run, [j[1] for j in jobs], c08.workers())):
        lines, outs, fails, info = res
        ctx.case((case["rate"], case["confirmed"], case["k"], case["cc"], case["payload"]), nontrivial=True,
                 sample={"case": desc, "rate": case["rate"], "confirmed": case["confirmed"], "k": case["k"], "len": len(case["payload"]) // 2,
                         "blocks": info["blocks"], "events": outs[-2].split(" ", 4)[-1][:160] if len(outs) > 3 else outs[-1:]} if sample else None)
        ctx.count(f"{case['rate']}:{'confirmed' if case['confirmed'] else 'unconfirmed'}")
        ctx.count("overlong" if info["overlong"] else f"k:{case['k']}")
        if info["blocks"]:
            ctx.count("blocks:" + ("1" if info["blocks"] == 1 else "2" if info["blocks"] == 2 else "3-9" if info["blocks"] < 10 else "10-127" if info["blocks"] <= 127 else ">127"))
        for kind, what, exp, act in fails:
            ctx.fail(kind, case, f"{what} [{desc}]", expected=exp, actual=act)
        pairs.extend(zip(lines, outs))
        if len(pairs) > 30000:
            flush(ctx, pairs)
    flush(ctx, pairs)
    # ---- arithmetic only: the model's block / pad count against Python's float formula, far beyond 1500
    arith = []
    for rate in RATES:
        for confirmed in (True, False):
            per, last = TABLE[(rate, confirmed)]
            ns = set(range(0, 200)) | {rng.randrange(1 << e) for e in range(8, 51) for _ in range(ctx.budget(3, 30))}
            ns |= {m * per + last + d for e in range(4, 47) for m in (1 << e, (1 << e) + 1, rng.randrange(1 << e, 2 << e)) for d in (-1, 0, 1)}
            for n in sorted(ns):
                py = ceil(1 + ((n - last) / per))  # the expression of generate_data_bursts
                it = int_blocks(per, last, n)
                ctx.case(("arith", rate, confirmed, n), nontrivial=n > 0)
                if py != it:
                    ctx.fail("float-ceiling", {"rate": rate, "confirmed": confirmed, "len": n}, "Python's float ceiling differs from the integer ceiling below 2^50", expected=it, actual=py)
                arith.append((f"frag.count {rate} {int(confirmed)} {n}", f"{py} {(py - 1) * per + last - n}"))
            ctx.count("arith", len(ns))
    if not ctx.search_only and ctx.driver_ok:
        ctx.correspond("numBlocks", arith)
    ctx.exhaustive = ctx.thorough()


def flush(ctx, pairs):
    if pairs and not ctx.search_only and ctx.driver_ok:
        # the tracker lines are stateful per case (every case starts with t.init), the frag.* lines are stateless
        ctx.correspond("generator+receiver", pairs)
    pairs.clear()


def replay(obj):
    f = obj.get("failure") or {}
    case = f.get("input") or {}
    print(json.dumps(obj.get("type")), f.get("what"))
    if "payload" not in case:
        print(json.dumps(obj, indent=1)[:4000])
        return 1
    lines, outs, fails, info = run_case(case)
    model = None
    try:
        import common

        model = common.Ctx(PROP, "quick", 0).drive(lines)
    except BaseException as e:  # noqa
        print("model driver not available:", e)
    for i, (ln, o) in enumerate(zip(lines, outs)):
        print(f"{ln[:120]}\n   implementation: {o[:300]}")
        if model:
            print(f"   model         : {model[i][:300]}")
    for kind, what, exp, act in fails:
        print(f"PROPERTY FAILS [{kind}] {what}: expected {exp} actual {act}")
    print("expected:", f.get("expected"), "actual:", f.get("actual"))
    return 1 if fails else 0
