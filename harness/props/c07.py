"""C07 — a generated data transmission is received back as the same payload, checks ok (DESIGN §5 C07).

End-to-end on the real code: `TransmissionGenerator.generate_full_data_transmission` -> every burst
`as_bytes()` -> `Burst.from_bytes` -> a real `Terminal` with recording observers.  The oracle is the property
as stated.  The correspondence compares the Lean model of the generator (`frag.full`: the abstract bursts it
generates vs. the abstraction of the parsed real bursts; `frag.count`: block / pad arithmetic) and the model of
the receiver (the C08 tracker, same driver) with the real code.

Hardening (rounds 2/3): besides lengths x rates x modes x preambles the payload CONTENT is structured:
* self-referential payloads — the octets before a block end / the payload end are a checksum of the octets
  before them (library CRC-32 as sent on air and an independent implementation, other octet orders, CRC-16,
  CRC-9-like fields), at one boundary, at all boundaries, shifted by one octet;
* payloads produced by the library itself — the data + CRC-32 a previous transmission DELIVERED, serialised
  headers / preambles / data blocks / whole bursts, re-sent in the same and in other rates / modes;
* payloads constructed so that a checksum hits a sentinel (CRC-32 = 0 / 0xFFFFFFFF / own first octets, CRC-9 = 0);
* error-path probes (failing generator / receiver calls first) and ambient variants (root logger at DEBUG,
  failing sys.stdout, reseeded `random`, a child `python -O`).

Round 4: payload content that is itself a valid PDU / burst of the protocol (`pdu_cases`): blocks that on air are
confirmed blocks with serial numbers k, k+1, … and a true CRC-9 (library-built and restated; every rate; runs of
1..5, wrap 127 -> 0, whole numbered transmissions incl. a last block whose CRC-9 is searched; sibling conventions
and near misses), the transmission's OWN data header (fixed point: the header depends on the payload length
only) and own preamble CSBKs at every block start / shifted / in the last block / as the last block on air (CRC-32
solved), foreign headers of every format, CSBKs, link control with true RS parity, whole 33-octet bursts, rate 1
blocks that on air are BPTC / trellis codewords of other PDUs, confirmed blocks whose image on air (serial number,
CRC-9, data) is a CRC-valid header / link control (searched); the payload handed over as an OBJECT the signature
accepts (BytesInterface wrapper, the own header object passed twice, parsed header / CSBK / link control / burst
objects); an earlier transmission on the same terminal and slot whose header / last block / payload is quoted.

Round 6: (a) the caller's header and the generator's arguments are crossed independently (`header_cross_cases`): data packet
format (every format the library serialises) x A bit x announced block count (right / 0 / one off / 1 / maximum) x preset pad
count (right / the other mode's / off by one / 0 / 31) x SAP, group and full-message flags, addresses x rate x preamble count
(0..16, 17, 33, 100, the largest the CSBK field holds, one more) x lengths on the block grid x constant / periodic / zero
content.  The mode is what the model says (the A bit); where neither the header nor a preamble tells the receiver the
number of blocks the reference is the model (tracker lines) plus what is on the wire.  (b) `wire_oracle`: every generated
burst is parsed back and every `*_ok` indicator of the parsed objects must be true, the CRC-CCITT of preambles and header
is recomputed independently, the blocks on the wire concatenate to payload + the pad the header on the wire announces.
(c) `Peek` / `run_observed`: a share of the cases runs twice, once with observer-style calls (repr, str, debug, getters,
flags, as_bits …) on every object involved between the steps; outcomes must be identical.
"""
import binascii
import contextlib
import errno
import io
import json
import logging
import os
import random as _random
import re
import subprocess
import sys
import tempfile
import zlib
from math import ceil

from common import impl_error
from props import c08

PROP = "C07"
MODULES = ["C07", "C07a"]
GEN = ["Tracker", "Fragment"]
MATCHERS = {}

RATES = ["r12", "r34", "r1"]
# independent restatement of ETSI TS 102 361-1 table 8.1 (octets per block, per last block)
TABLE = {("r12", True): (10, 6), ("r12", False): (12, 8), ("r34", True): (16, 12), ("r34", False): (18, 14),
         ("r1", True): (22, 18), ("r1", False): (24, 20)}


def L():
    return c08.L()


def rate_cls(rate):
    l = L()
    return {"r12": l.Rate12Data, "r34": l.Rate34Data, "r1": l.Rate1Data}[rate]


def int_blocks(per, last, n):
    """integer form of ceil(1 + (n - last) / per)"""
    return 1 if n <= last else 1 + (n - last + per - 1) // per


# ------------------------------------------------------------------------------------------------
# independent checksums (ETSI TS 102 361-1 B.3.9 / B.3.10 / B.3.8 restated; nothing of the library is used)
# ------------------------------------------------------------------------------------------------
CRC9_MASK = {"r12": 0x0F0, "r34": 0x1FF, "r1": 0x10F}  # table B.21: rate 1/2, 3/4, 1 data continuation
_T32 = []


def _table32():
    if not _T32:
        for i in range(256):
            reg = i << 24
            for _ in range(8):
                reg = ((reg << 1) ^ 0x04C11DB7) & 0xFFFFFFFF if reg & 0x80000000 else (reg << 1)
            _T32.append(reg)
    return _T32


def ref_crc32(data: bytes, swap: bool = True) -> int:
    """remainder of data(x)·x^32 by the CRC-32 polynomial, MSB first, register 0, no final xor; `swap`: over the
    pairwise swapped octets (a trailing odd octet stays) — the value of `CRC32.calculate`"""
    d = bytearray(data)
    if swap:
        m = len(d) & ~1
        d[0:m:2], d[1:m:2] = d[1:m:2], d[0:m:2]
    t = _table32()
    reg = 0
    for byte in d:
        reg = ((reg << 8) & 0xFFFFFFFF) ^ t[(reg >> 24) ^ byte]
    return reg


def ref_crc9(data: bytes, dbsn: int, mask: int, crc32=None) -> int:
    """inverted remainder by x^9+x^6+x^4+x^3+1 of (data | CRC-32 field if it is not 0 | 7-bit serial number), xor mask"""
    v, n = int.from_bytes(data, "big"), 8 * len(data)
    if crc32:
        v, n = (v << 32) | crc32, n + 32
    v, n = (v << 7) | dbsn, n + 7
    v <<= 9
    for i in range(n + 8, 8, -1):
        if (v >> i) & 1:
            v ^= 0x259 << (i - 9)
    return (v & 0x1FF) ^ 0x1FF ^ mask


def swap16(b: bytes) -> bytes:
    d = bytearray(b)
    m = len(d) & ~1
    d[0:m:2], d[1:m:2] = d[1:m:2], d[0:m:2]
    return bytes(d)


def bitrev32(v: int) -> int:
    return int(f"{v:032b}"[::-1], 2)


def rbytes(rng, n):
    return bytes(rng.getrandbits(8) for _ in range(n))


PRIMARY = ("lib32-onair", "ref32-onair")


def conventions(rate):
    """name -> (octets, fn(prefix, octets of the current block before the field) -> field): the checksum
    conventions a payload can carry about its own head.  `lib32-onair` is the library's CRC-32 in the octet order
    the generator puts into the last block; `ref32-onair` the same from the independent implementation."""
    l = L()
    lib32 = l.CRC32.calculate
    try:
        from okdmr.dmrlib.etsi.crc.crc16 import CRC16

        def lib16(p, m):
            return CRC16.calculate(p, m) & 0xFFFF
    except BaseException:  # noqa: the independent CRC-CCITT below stands in
        def lib16(p, m):
            return binascii.crc_hqx(p, 0) ^ 0xFFFF ^ m.value
    mask9 = CRC9_MASK[rate]

    def le(v):
        return (v & 0xFFFFFFFF).to_bytes(4, "little")

    def be(v):
        return (v & 0xFFFFFFFF).to_bytes(4, "big")

    def field9(data, dbsn):
        return ((dbsn << 9) | ref_crc9(data, dbsn, mask9)).to_bytes(2, "big")

    return {
        "lib32-onair": (4, lambda p, b: le(lib32(p))),
        "ref32-onair": (4, lambda p, b: le(ref_crc32(p))),
        "lib32-be": (4, lambda p, b: be(lib32(p))),
        "lib32-swap16": (4, lambda p, b: swap16(le(lib32(p)))),
        "lib32-wordswap": (4, lambda p, b: le(lib32(p))[2:] + le(lib32(p))[:2]),
        "lib32-inverted": (4, lambda p, b: le(lib32(p) ^ 0xFFFFFFFF)),
        "lib32-bitrev": (4, lambda p, b: be(bitrev32(lib32(p)))),
        "lib32-of-block": (4, lambda p, b: le(lib32(b))),
        "plain32-be": (4, lambda p, b: be(ref_crc32(p, swap=False))),  # codeword convention: CRC of the whole is 0
        "plain32-le": (4, lambda p, b: le(ref_crc32(p, swap=False))),
        "zlib32-le": (4, lambda p, b: le(zlib.crc32(p))),
        "zlib32-be": (4, lambda p, b: be(zlib.crc32(p))),
        "lib32-skip1": (4, lambda p, b: le(lib32(p[1:]))),  # near miss: CRC of the head without its first octet
        "lib32-bitflip": (4, lambda p, b: le(lib32(p) ^ 1)),  # near miss: one bit off
        "crc16-header-be": (2, lambda p, b: lib16(p, l.CrcMasks.DataHeader).to_bytes(2, "big")),
        "crc16-csbk-be": (2, lambda p, b: lib16(p, l.CrcMasks.CSBK).to_bytes(2, "big")),
        "crc16-plain-be": (2, lambda p, b: binascii.crc_hqx(p, 0).to_bytes(2, "big")),
        "crc16-plain-le": (2, lambda p, b: binascii.crc_hqx(p, 0).to_bytes(2, "little")),
        "crc16-of-block-be": (2, lambda p, b: lib16(b, l.CrcMasks.DataHeader).to_bytes(2, "big")),
        "crc9-of-block": (2, lambda p, b: field9(b, 0)),  # serial number 0 + CRC-9 of the block's octets, as a confirmed block starts
        "crc9-of-head": (2, lambda p, b: field9(p, len(p) & 0x7F)),
    }


def selfref_payload(rng, n, per, sites, fn, width, shift=0):
    """n random octets in which, for every b in `sites` (ascending), the octets [b + shift - width, b + shift)
    are fn(all octets before them, the octets of their block before them)"""
    buf = bytearray(rbytes(rng, n))
    done = []
    for b in sorted(sites):
        e = b + shift
        s = e - width
        if s < 0 or e > n:
            continue
        buf[s:e] = fn(bytes(buf[:s]), bytes(buf[(s // per) * per:s]))
        done.append(b)
    return bytes(buf), done


def ipv4_udp(rng, total, claimed=None, sport=4007, dport=4007):
    """`total` octets that start with a well-formed IPv4 + UDP header (header checksum correct) whose total-length /
    UDP-length fields announce `claimed` octets (default: the truth) — the usual content of a SAP 4 packet"""
    claimed = total if claimed is None else claimed
    hdr = bytearray([0x45, 0, (claimed >> 8) & 0xFF, claimed & 0xFF, rng.getrandbits(8), rng.getrandbits(8), 0, 0, 64, 17, 0, 0,
                     10, rng.getrandbits(8), rng.getrandbits(8), 1, 10, rng.getrandbits(8), rng.getrandbits(8), 2])
    acc = sum(int.from_bytes(hdr[i:i + 2], "big") for i in range(0, 20, 2))
    while acc >> 16:
        acc = (acc & 0xFFFF) + (acc >> 16)
    hdr[10:12] = (acc ^ 0xFFFF).to_bytes(2, "big")
    ulen = max(8, claimed - 20) & 0xFFFF
    udp = sport.to_bytes(2, "big") + dport.to_bytes(2, "big") + ulen.to_bytes(2, "big") + b"\x00\x00"
    pkt = bytes(hdr) + udp
    return (pkt + rbytes(rng, max(0, total - len(pkt))))[:total]


def solve_tail32(head: bytes, tail: bytes, target: int):
    """4 octets x with ref_crc32(head + x + tail) = target: the CRC is linear (register 0, no final xor), Gaussian
    elimination over GF(2) on the 32 unit vectors; None when the 32 positions are dependent (they are when the four
    octets start at an odd offset and something follows: the pairwise swap spreads them over three pairs)"""
    zero, ztail = bytes(len(head)), bytes(len(tail))
    want = target ^ ref_crc32(head + bytes(4) + tail)
    rows = []  # (image, x)
    for j in range(32):
        x = 1 << j
        rows.append([ref_crc32(zero + x.to_bytes(4, "big") + ztail), x])
    sol = 0
    for bit in range(31, -1, -1):
        piv = next((r for r in rows if (r[0] >> bit) & 1), None)
        if piv is None:
            return None
        rows.remove(piv)
        for r in rows:
            if (r[0] >> bit) & 1:
                r[0] ^= piv[0]
                r[1] ^= piv[1]
        if (want >> bit) & 1:
            want ^= piv[0]
            sol ^= piv[1]
    return sol.to_bytes(4, "big") if want == 0 else None


def crc9_target_payload(rng, rate, nblocks, which, target):
    """confirmed payload of `nblocks` blocks (no pad) whose block `which` gets the CRC-9 `target` from the
    generator (serial number 0; the last block's CRC-9 also covers the CRC-32 of the whole padded payload)"""
    per, last = TABLE[(rate, True)]
    n = (nblocks - 1) * per + last
    buf = bytearray(rbytes(rng, n))
    lo, hi = which * per, min(n, which * per + per)
    for v in range(1 << 16):
        buf[hi - 2:hi] = ((v * 40503 + 7) & 0xFFFF).to_bytes(2, "big")
        c32 = None
        if which == nblocks - 1:
            c32 = int.from_bytes(ref_crc32(bytes(buf)).to_bytes(4, "little"), "big")
        if ref_crc9(bytes(buf[lo:hi]), 0, CRC9_MASK[rate], c32) == target:
            return bytes(buf)
    return None


# ------------------------------------------------------------------------------------------------
# ambient interpreter state (round 3 (g)); the property's receiver path must not fail under any of them
# ------------------------------------------------------------------------------------------------
class FailingWriter:
    """a sys.stdout whose every operation fails (closed pipe / closed file)"""

    encoding = "utf-8"

    def __init__(self, exc):
        self.exc = exc

    def write(self, s):
        raise self.exc

    def flush(self):
        raise self.exc

    def isatty(self):
        return False


AMBIENTS = ("debug", "stdout-epipe", "stdout-closed", "reseed", "all")


@contextlib.contextmanager
def ambient(counter, mode):
    """`c08.quiet` (deterministic stream numbers, nothing on the real stdout / stderr) plus one disturbance:
    debug = nothing disabled, root logger at DEBUG with a handler that formats every record;
    stdout-* = sys.stdout raises on write; reseed = the global `random` is reseeded (by the caller, per burst)"""
    if not mode or mode == "python-O":
        with c08.quiet(counter):
            yield
        return
    l = L()
    old_tb = l.secrets.token_bytes
    l.secrets.token_bytes = counter
    root = logging.getLogger()
    prev_disable, prev_level, prev_handlers = root.manager.disable, root.level, root.handlers[:]
    old_stdout, rnd_state = sys.stdout, _random.getstate()
    try:
        if mode in ("debug", "all"):
            logging.disable(logging.NOTSET)
            root.setLevel(logging.DEBUG)
            h = logging.StreamHandler(io.StringIO())
            h.setLevel(logging.DEBUG)
            h.setFormatter(logging.Formatter("%(asctime)s %(name)s %(levelname)s %(message)s"))
            root.handlers[:] = [h]
        else:
            logging.disable(logging.CRITICAL)
        if mode == "stdout-closed":
            sys.stdout = FailingWriter(ValueError("I/O operation on closed file."))
        elif mode in ("stdout-epipe", "all"):
            sys.stdout = FailingWriter(BrokenPipeError(errno.EPIPE, "Broken pipe"))
        else:
            sys.stdout = io.StringIO()
        yield
    finally:
        sys.stdout = old_stdout
        root.handlers[:] = prev_handlers
        root.setLevel(prev_level)
        logging.disable(prev_disable)
        _random.setstate(rnd_state)
        l.secrets.token_bytes = old_tb


def provoke_generator(l, cls, payload, cc, confirmed, case):
    """error-path state: calls that fail (wrong class / type / header) before the valid one; whatever they do,
    the valid call afterwards must behave as always"""
    g = l.TransmissionGenerator
    bad_calls = [
        lambda: g.generate_data_bursts(int, payload, cc, confirmed),
        lambda: g.generate_data_bursts(cls, payload.hex(), cc, confirmed),
        lambda: g.generate_data_bursts(cls, None, cc, confirmed),
        lambda: make_header(confirmed, 0, 128, case["sap"], case["dst"], case["src"]),
        # a header that announces other pad octets / blocks than the generator computes: AssertionError (nothing under -O)
        lambda: g.generate_full_data_transmission(cls, payload + b"\x01" * 5, make_header(confirmed, 31, 1, 4, 1, 2), csbk_count=2, colour_code=cc),
        lambda: g.generate_full_data_transmission(cls, payload, None, csbk_count=1, colour_code=cc),
    ]
    n = 0
    for bad in bad_calls:
        try:
            bad()
        except BaseException:  # noqa
            n += 1
    return n


def make_header(confirmed, poc, nblocks, sap, dst, src):
    l = L()
    return l.DataHeader(
        dpf=l.DataPacketFormats.DataPacketConfirmed if confirmed else l.DataPacketFormats.DataPacketUnconfirmed,
        is_response_requested=confirmed, pad_octet_count=poc, sap_identifier=l.SAPIdentifier(sap),
        llid_destination=dst, llid_source=src, full_message_flag=l.FullMessageFlag(1), blocks_to_follow=nblocks,
        resynchronize_flag=l.ResynchronizeFlag(0), send_sequence_number=0, fragment_sequence_number=8)


def as_userdata(how, payload, header, info):
    """the `userdata` argument: the octets, or an object the signature accepts as well (`BytesInterface`: anything with
    `as_bytes()`) — a plain wrapper, or the library's own PDU object with exactly these octets (the transmission's own
    header OBJECT, a parsed header / CSBK / full link control), when there is one"""
    if not how:
        return payload
    l = L()
    from okdmr.dmrlib.utils.bytes_interface import BytesInterface

    class Octets(BytesInterface):
        def __init__(self, data):
            self.data = data

        def as_bytes(self, endian="big"):
            return self.data

    obj = None
    how, _, prefer = how.partition(":")
    try:
        if how == "pdu-object" and len(payload) == 12:
            if c08.pdu_hex(header) == payload.hex():
                obj = header  # the very object that is also passed as data_header
            else:
                classes = [l.DataHeader, l.CSBK, l.FullLinkControl]
                for cls in sorted(classes, key=lambda c: c.__name__ != prefer):
                    try:
                        cand = cls.from_bits(l.bytes_to_bits(payload))
                        if bytes(cand.as_bytes()) == payload:
                            obj = cand
                            break
                    except BaseException:  # noqa
                        continue
        elif how == "pdu-object" and len(payload) == 33:
            cand = l.Burst.from_bytes(payload)
            if bytes(cand.as_bytes()) == payload:
                obj = cand
    except BaseException:  # noqa: these octets are no PDU the library re-serialises identically
        obj = None
    info["userdata_as"] = type(obj).__name__ if obj is not None else "Octets"
    return obj if obj is not None else Octets(payload)


# ------------------------------------------------------------------------------------------------
# round 6: the caller's header and the generator's arguments, every field on its own.  The generator reads the
# response requested (A) bit (-> confirmed / unconfirmed blocks), the pad octet count (asserted), the two addresses;
# the receiver reads the blocks to follow of the format at hand (none for UDT, appended blocks for defined short data),
# the A bit and the SAP.  Nothing couples the data packet format, the A bit, the announced block count and the rest.
# ------------------------------------------------------------------------------------------------
HDR_FMTS = ("unconfirmed", "confirmed", "response", "sdd", "udt")
POC_ON_AIR = ("unconfirmed", "confirmed")  # formats whose pad octet count is a field on air
BTF_LIMIT = {"unconfirmed": 127, "confirmed": 127, "response": 127, "sdd": 63, "udt": 3}
BTF_MODES = ("right", "zero", "plus1", "minus1", "one", "max")
POC_MODES = ("right", "other-mode", "plus1", "zero", "max")
SAP_VALUES = (0, 2, 3, 4, 5, 9, 10, 15)
ADDRESSES = (0, 1, 0xFFFFFF, 0xFFFFFE, 0x800000, 5)


def hdr_poc(spec, right, other):
    """the pad octet count the caller presets: the generator's, the one of the OTHER mode (the blocks the data packet
    format would suggest), one more, 0, the largest"""
    m = spec.get("poc", "right")
    v = {"right": right, "other-mode": other, "plus1": right + 1, "zero": 0, "max": 31}.get(m, right)
    return v % 32 if spec["fmt"] in POC_ON_AIR else v


def hdr_btf(spec, right):
    """the number of blocks the caller announces: the generator's, 0 (left to the library), an estimate one off, 1, the
    largest the field of this format holds"""
    lim = BTF_LIMIT[spec["fmt"]]
    m = spec.get("btf", "right")
    v = {"right": right, "zero": 0, "plus1": right + 1, "minus1": max(0, right - 1), "one": 1, "max": lim}.get(m, right)
    return v if m == "right" else min(v, lim)


def build_header(spec, poc, btf):
    """a `DataHeader` of any format the library serialises, every field from `spec` (no field derived from another)"""
    l = L()
    from bitarray.util import int2ba

    fmt, x = spec["fmt"], spec.get("x", 0)
    a = int(bool(spec["a"])) if spec.get("a_as_int") else bool(spec["a"])
    sap = l.SAPIdentifier(spec["sap"])
    fmf = l.FullMessageFlag(spec["fmf"])
    dst, src = spec["dst"], spec["src"]
    if fmt in ("unconfirmed", "confirmed"):
        return l.DataHeader(
            dpf=l.DataPacketFormats.DataPacketConfirmed if fmt == "confirmed" else l.DataPacketFormats.DataPacketUnconfirmed,
            is_group=spec["group"], is_response_requested=a, pad_octet_count=poc, sap_identifier=sap, llid_destination=dst, llid_source=src,
            full_message_flag=fmf, blocks_to_follow=btf, resynchronize_flag=l.ResynchronizeFlag(spec.get("resync", 0)),
            send_sequence_number=spec.get("ns", 0), fragment_sequence_number=spec.get("fsn", 8))
    if fmt == "response":
        return l.DataHeader(dpf=l.DataPacketFormats.ResponsePacket, is_response_requested=a, pad_octet_count=poc, sap_identifier=sap,
                            llid_destination=dst, llid_source=src, full_message_flag=fmf, blocks_to_follow=btf,
                            response_class=x & 3, response_type=(x >> 2) & 7, response_status=(x >> 5) & 7)
    if fmt == "sdd":
        return l.DataHeader(dpf=l.DataPacketFormats.ShortDataDefined, is_group=spec["group"], is_response_requested=a, pad_octet_count=poc,
                            appended_blocks=btf, sap_identifier=sap, llid_destination=dst, llid_source=src,
                            defined_data_format=l.DefinedDataFormats.from_bits(int2ba(x & 63, length=6)), sarq=l.SARQ((x >> 6) & 1),
                            full_message_flag=fmf, bit_padding=int2ba((x >> 7) & 255, length=8))
    # UDT: built from its bits as the library parses them (the check field 0 = "please generate"), pad count as attribute
    bits = (l.bitarray([spec["group"], int(bool(spec["a"])), x & 1, (x >> 1) & 1]) + l.DataPacketFormats.UnifiedDataTransport.as_bits()
            + sap.as_bits() + int2ba((x >> 2) & 15, length=4) + int2ba(dst, length=24) + int2ba(src, length=24)
            + int2ba((x >> 6) & 31, length=5) + l.bitarray("0") + int2ba(btf & 3, length=2) + l.bitarray([(x >> 11) & 1, 0])
            + l.CsbkOpcodes.PreambleCSBK.as_bits() + l.bitarray("0" * 16))
    h = l.DataHeader.from_bits(bits)
    h.pad_octet_count = poc
    return h


def wire_oracle(l, fail, wire, cls, rate, confirmed, k, cc, payload, pad, nblocks, hdr_hex, pad_on_air=True):
    """what the generator put on the wire, burst by burst, without any receiver state: every integrity indicator of every
    parsed burst is true (slot type parity, header CRC, CRC-9 — whatever `*_ok` attribute the parsed objects have) and the
    CRC-CCITT of preambles and header verifies independently; k preambles counting down, the header (`hdr_hex`: as it was
    handed in, when it announced the right number of blocks), N blocks of the mode of the A bit that concatenate to the
    payload and `pad` zero octets, the CRC-32 of that in the last one"""
    from bitarray.util import ba2int
    from okdmr.dmrlib.etsi.crc.crc16 import CRC16

    types = getattr(sys.modules[cls.__module__], cls.__name__ + "Types")
    if len(wire) != k + 1 + nblocks:
        fail("burst-count", "number of generated bursts", k + 1 + nblocks, len(wire))
        return
    data, btfs = b"", []
    for i, w in enumerate(wire):
        role = "preamble" if i < k else "header" if i == k else "block"
        try:
            p = l.Burst.from_bytes(w)
            objs = [("slot type", p.slot_type), (type(p.data).__name__, p.data)]
            if role == "block":
                typed = cls.from_bits_typed(p.info_bits_deinterleaved, types.resolve(confirmed=confirmed, last=i == len(wire) - 1))
                objs.append((f"{cls.__name__} read as {typed.packet_type.name}", typed))
            bad = [f"{name}.{n}" for name, o in objs if o is not None for n, v in sorted(vars(o).items()) if n.endswith("_ok") and v is not True]
            if bad:
                fail("indicator", f"generated burst {i} ({role}) is parsed back with an integrity indicator that is not true", "all true", bad)
            if role != "block":
                want_cls = l.CSBK if role == "preamble" else l.DataHeader
                info_bits = l.BPTC19696.deinterleave_data_bits(p.full_bits[:98] + p.full_bits[166:])
                if not isinstance(p.data, want_cls):
                    fail("burst-count", f"generated burst {i} is not a {role}", want_cls.__name__, type(p.data).__name__)
                    continue
                mask = l.CrcMasks.CSBK if role == "preamble" else l.CrcMasks.DataHeader
                if not CRC16.check(l.bitarray(info_bits[:80], endian="big").tobytes(), ba2int(info_bits[80:96]), mask):
                    fail("indicator", f"the CRC-CCITT of generated burst {i} ({role}) does not verify", "valid", info_bits.tobytes().hex())
                elif binascii.crc_hqx(info_bits[:80].tobytes(), 0) ^ 0xFFFF ^ mask.value != ba2int(info_bits[80:96]):
                    fail("indicator", f"the CRC-CCITT of generated burst {i} ({role}) is not the (independently computed) one", "valid", info_bits.tobytes().hex())
                if role == "preamble":
                    btfs.append(p.data.blocks_to_follow)
                    if p.data.csbko != l.CsbkOpcodes.PreambleCSBK or p.colour_code != cc:
                        fail("preambles", f"generated burst {i} is not a preamble CSBK with the requested colour code", [cc], [p.data.csbko.name, p.colour_code])
                else:
                    if hdr_hex is not None and info_bits.tobytes().hex() != hdr_hex:
                        fail("header", "the header burst does not carry the header that was handed in", hdr_hex, info_bits.tobytes().hex())
                    if pad_on_air:
                        pad = p.data.pad_octet_count  # the pad octets announced in the header, as a receiver reads them
                continue
            if p.colour_code != cc or not isinstance(p.data, cls):
                fail("burst-count", f"generated burst {i} is not a {cls.__name__} burst with the requested colour code", [cls.__name__, cc], [type(p.data).__name__, p.colour_code])
            data += typed.data
            if i == len(wire) - 1:
                padded = payload + bytes(pad)
                if typed.crc32.to_bytes(4, "big") != ref_crc32(padded).to_bytes(4, "little"):
                    fail("crc32", "the CRC-32 in the last generated block is not the CRC-32 of payload + announced pad octets", ref_crc32(padded).to_bytes(4, "little").hex(), typed.crc32.to_bytes(4, "big").hex())
        except BaseException as e:  # noqa
            fail("generated-burst-unparseable", f"generated burst {i} ({role}) cannot be read back: {impl_error(e)}", "burst", impl_error(e))
            return
    if data != payload + bytes(pad):
        fail("payload", "the generated blocks (read in the mode of the header's A bit) do not concatenate to payload + announced pad octets", (payload + bytes(pad)).hex()[:80], data.hex()[:80])
    if btfs != list(range(k + nblocks, nblocks, -1)):
        fail("preambles", "generated preamble CSBKs do not count down to the number of bursts that follow the last preamble", list(range(k + nblocks, nblocks, -1))[:4], btfs[:4])


def crc9_lines(lines, outs, wire, cls, rate, k):
    """model vs code on the indicator the model has: `crc9_ok` of the first two and the last generated confirmed block"""
    l = L()
    types = getattr(sys.modules[cls.__module__], cls.__name__ + "Types")
    n = len(wire) - k - 1
    for j in sorted({0, 1, n - 1} & set(range(n))):
        try:
            p = l.Burst.from_bytes(wire[k + 1 + j])
            typed = cls.from_bits_typed(p.info_bits_deinterleaved, types.resolve(confirmed=True, last=j == n - 1))
            lines.append(f"frag.crc9ok {rate} {int(j == n - 1)} {p.info_bits_deinterleaved.tobytes().hex()} {typed.calculate_crc9()}")
            outs.append(str(int(typed.crc9_ok is True)))
        except BaseException as e:  # noqa
            lines.append(f"frag.crc9ok {rate} {int(j == n - 1)} - 0")
            outs.append(impl_error(e))


# ------------------------------------------------------------------------------------------------
# observer-style calls between the steps (round 6): asking an object for its text, its bits, a flag or a status
# report must not change what happens afterwards
# ------------------------------------------------------------------------------------------------
PEEK_NAMES = re.compile(r"^(__repr__|__str__|__len__|__hash__|__bool__|debug|is_.*|has_.*|get_.*|calculate_.*|as_bits|as_bytes)$")
# a parameter of one of these names switches a side effect on (Timeslot.get_rx_sequence(increment=True)): the
# observer-style form of the call passes False
SIDE_EFFECT_FLAGS = ("increment", "advance", "update", "consume", "reset")
_PEEKS = {}


def peek_calls(cls):
    """[(label, fn(obj))]: the observer-style members of `cls`, found by name"""
    if cls in _PEEKS:
        return _PEEKS[cls]
    import inspect

    calls = [("repr", repr), ("str", str), ("format", lambda o: f"{o}"), ("== itself", lambda o: o == o), ("!= None", lambda o: o != None),  # noqa: E711
             ("== other", lambda o: o == type(o)), ("len", len), ("hash", hash), ("bool", bool)]
    for n in dir(cls):
        try:
            a = inspect.getattr_static(cls, n)
        except AttributeError:
            continue
        if isinstance(a, property):
            calls.append((n, lambda o, n=n: getattr(o, n)))
            continue
        if not PEEK_NAMES.match(n) or n.startswith("__") or not callable(getattr(cls, n, None)):
            continue
        try:
            ps = list(inspect.signature(getattr(cls, n)).parameters.values())
        except (TypeError, ValueError):
            continue
        if isinstance(a, (staticmethod, classmethod)):
            req = [q for q in ps if q.default is q.empty and q.kind in (q.POSITIONAL_ONLY, q.POSITIONAL_OR_KEYWORD)]
        else:
            req = [q for q in ps[1:] if q.default is q.empty and q.kind in (q.POSITIONAL_ONLY, q.POSITIONAL_OR_KEYWORD)]
        if req:
            continue
        kw = {q.name: False for q in ps if q.name in SIDE_EFFECT_FLAGS}
        calls.append((n, lambda o, n=n, kw=kw: getattr(o, n)(**kw)))
        for q in ps:
            if q.name == "printout":
                calls.append((n + "(printout=False)", lambda o, n=n, kw=kw: getattr(o, n)(printout=False, **kw)))
            elif q.default is False and q.name not in SIDE_EFFECT_FLAGS:
                calls.append((f"{n}({q.name}=True)", lambda o, n=n, kw=kw, q=q: getattr(o, n)(**{q.name: True}, **kw)))
    _PEEKS[cls] = calls
    return calls


class Peek:
    """called between the steps of a case with the objects involved; without a seed it does nothing, with one it makes a
    seed-rotated half of their observer-style calls (whatever these raise is dropped)"""

    def __init__(self, seed):
        self.rng = None if seed is None else _random.Random(seed)
        self.n = 0

    def __call__(self, *objs):
        if self.rng is None:
            return
        for o in objs:
            if o is None or isinstance(o, (bytes, int, str, list)):
                for x in o if isinstance(o, list) else ():
                    self(x)
                continue
            for label, fn in peek_calls(type(o)):
                if self.rng.random() < 0.5:
                    try:
                        fn(o)
                    except BaseException:  # noqa: an observer call that fails is the caller's problem, not a step of the case
                        pass
                    self.n += 1


def run_observed(case):
    """run_case; for a case with `observe`: also without the observer-style calls, and the outcomes must be the same"""
    lines, outs, fails, info = run_case(case)
    if case.get("observe") is not None:
        plain = {k: v for k, v in case.items() if k != "observe"}
        _, outs0, fails0, _ = run_case(plain)
        if outs0 != outs or [f[:2] for f in fails0] != [f[:2] for f in fails]:
            j = next((i for i, (x, y) in enumerate(zip(outs0, outs)) if x != y), min(len(outs0), len(outs)))
            fails.append(("read-only-call", f"observer-style calls (repr / str / debug / getters / flags) between the steps change the outcome: first difference at step {j} ({lines[j][:60] if j < len(lines) else 'end'})",
                          (outs0[j][:200] if j < len(outs0) else [f[0] for f in fails0]), (outs[j][:200] if j < len(outs) else [f[0] for f in fails])))
    return lines, outs, fails, info


def run_case(case):
    """case = dict(rate, confirmed, k, cc, payload hex, sap, dst, src, slot, raises[, ambient, provoke, defaults, header_from_bits, want_rx]).
    Returns (model lines, implementation outputs, oracle failures, info)."""
    l = L()
    rate, confirmed, k, cc = case["rate"], case["confirmed"], case["k"], case["cc"]
    payload = bytes.fromhex(case["payload"])
    cls = rate_cls(rate)
    per, last = TABLE[(rate, confirmed)]
    lines, outs, fails = [], [], []
    info = {"blocks": None, "overlong": False}

    def fail(kind, what, exp=None, act=None):
        fails.append((kind, what, exp, act))

    counter = c08.Counter()
    amb = case.get("ambient")
    reseed = amb in ("reseed", "all")
    with ambient(counter, amb):
        if case.get("provoke"):
            info["provoked"] = provoke_generator(l, cls, payload, cc, confirmed, case)
        if reseed:
            _random.seed(0xC07)
        # ---- the generator: pad count and number of blocks as the library computes them
        try:
            data_bursts, poc = l.TransmissionGenerator.generate_data_bursts(cls, payload, cc, confirmed)
        except BaseException as e:  # noqa
            fail("generator-raises", f"generate_data_bursts raised {impl_error(e)}: {str(e)[:100]}", "bursts", impl_error(e))
            return lines, outs, fails, info
        nblocks = len(data_bursts)
        info["blocks"] = nblocks
        lines.append(f"frag.count {rate} {int(confirmed)} {len(payload)}")
        outs.append(f"{nblocks} {poc}")
        # arithmetic of the property, independently: N blocks, pad, table
        exp_n = int_blocks(per, last, len(payload))
        if nblocks != exp_n or poc != (exp_n - 1) * per + last - len(payload):
            fail("fragment-arithmetic", "number of blocks / pad octets", [exp_n, (exp_n - 1) * per + last - len(payload)], [nblocks, poc])
        if not (0 <= poc < per + 0 or nblocks == 1):
            fail("fragment-arithmetic", "more pad octets than one block holds", f"< {per}", poc)
        # ---- the caller's header
        spec = case.get("hdr")
        poc_given, btf_given = poc, nblocks
        if spec:
            # round 6: the header fields are chosen independently of each other and of the generator arguments
            oper, olast = TABLE[(rate, not confirmed)]
            on = int_blocks(oper, olast, len(payload))
            poc_given = hdr_poc(spec, poc, (on - 1) * oper + olast - len(payload))
            btf_given = hdr_btf(spec, nblocks)
            info["hdr"] = [spec["fmt"], int(spec["a"]), spec.get("poc", "right") if poc_given != poc else "right", spec.get("btf", "right") if btf_given != nblocks else "right"]
        try:
            header = build_header(spec, poc_given, btf_given) if spec else make_header(confirmed, poc, nblocks, case["sap"], case["dst"], case["src"])
        except OverflowError:
            info["overlong"] = True
            if nblocks <= 127:
                fail("header-raises", "DataHeader cannot be built although blocks-to-follow fits 7 bits", "header", "ERR OverflowError")
            return lines, outs, fails, info
        except BaseException as e:  # noqa
            fail("header-raises", f"DataHeader(...) raised {impl_error(e)} instead of a clean OverflowError", "OverflowError", impl_error(e))
            return lines, outs, fails, info
        if spec and bool(header.is_response_requested) != confirmed:
            fail("header", "the header does not carry the response requested (A) bit it was built with", confirmed, header.is_response_requested)
            return lines, outs, fails, info
        if nblocks > 127 and not spec:
            fail("overlong-accepted", "a header announcing more than 127 blocks was built", "OverflowError", "header")
            return lines, outs, fails, info
        if case.get("header_from_bits"):
            # argument provenance: the caller's header is one the library parsed (e.g. taken over from a received packet)
            try:
                header = l.DataHeader.from_bits(header.as_bits())
            except BaseException as e:  # noqa
                fail("header-raises", f"DataHeader.from_bits(header.as_bits()) raised {impl_error(e)}", "header", impl_error(e))
                return lines, outs, fails, info
        if spec:
            poc_given = header.pad_octet_count  # (a header without the field on air that went through from_bits says 0)
            info["hdr"][2] = "right" if poc_given == poc else spec.get("poc", "right") if spec.get("poc", "right") != "right" else "lost-in-from-bits"
        userdata = as_userdata(case.get("userdata_as"), payload, header, info)
        # what the caller handed in, as the model reads it (taken BEFORE the call: the generator gets the object itself)
        hdr_hex0 = c08.pdu_hex(header)
        hbtf0 = header.get_blocks_to_follow()
        habs = ["-" if hbtf0 is None else str(hbtf0), str(int(bool(header.is_response_requested))), str(header.sap_identifier.value), hdr_hex0, str(header.pad_octet_count)]
        peek = Peek(case.get("observe"))
        peek(header, userdata)
        if poc_given != poc and sys.flags.optimize:
            # the refusal of a header with another pad octet count is an `assert`: nothing to expect under python -O
            info["skipped"] = "wrong pad count under -O"
            return lines, outs, fails, info
        if k + nblocks > 255:
            # the blocks-to-follow field of a preamble CSBK has 8 bits: the first preamble would announce k + N
            try:
                bursts = l.TransmissionGenerator.generate_full_data_transmission(cls, userdata, header, csbk_count=k, colour_code=cc)
                [b.as_bytes() for b in bursts]
                fail("preamble-overflow-accepted", "a transmission whose first preamble would announce more than 255 bursts was generated", "OverflowError", f"{len(bursts)} bursts")
            except OverflowError:
                info["overlong"] = True
            except AssertionError as e:
                if poc_given == poc:
                    fail("generator-raises", f"generate_full_data_transmission raised {impl_error(e)}: {str(e)[:100]}", "OverflowError", impl_error(e))
            except BaseException as e:  # noqa
                fail("generator-raises", f"generate_full_data_transmission raised {impl_error(e)} instead of a clean OverflowError", "OverflowError", impl_error(e))
            return lines, outs, fails, info
        if poc_given != poc:
            # `assert data_header.pad_octet_count == pad_octet_count`: a header announcing other pad octets than are generated is refused
            lines.append(" ".join(["frag.full", rate, str(k), str(cc), payload.hex() or "-", "0", "-"] + habs + ["-"]))
            try:
                bursts = l.TransmissionGenerator.generate_full_data_transmission(cls, userdata, header, csbk_count=k, colour_code=cc)
                wire = [b.as_bytes() for b in bursts]
                outs.append(f"{len(bursts)} bursts")
            except BaseException as e:  # noqa
                outs.append(impl_error(e))
                if not isinstance(e, AssertionError):
                    fail("generator-raises", f"generate_full_data_transmission raised {impl_error(e)} for a header with a wrong pad octet count", "AssertionError", impl_error(e))
                return lines, outs, fails, info
            # accepted (the model refuses: that difference is the correspondence's to report): what comes out must still be as the
            # property says — blocks = payload + the pad octets that the header ON THE WIRE announces, indicators true
            info["wrong_pad_accepted"] = True
        try:
            if reseed:
                _random.seed(0xC07)
            if case.get("defaults") and k == 3 and cc == 1:
                # the documented defaults (3 preambles, colour code 1) left to the callee
                bursts = l.TransmissionGenerator.generate_full_data_transmission(packet_type=cls, userdata=userdata, data_header=header)
            else:
                bursts = l.TransmissionGenerator.generate_full_data_transmission(cls, userdata, header, csbk_count=k, colour_code=cc)
            wire = [b.as_bytes() for b in bursts]
        except BaseException as e:  # noqa
            fail("generator-raises", f"generate_full_data_transmission / as_bytes raised {impl_error(e)}: {str(e)[:100]}", "bursts", impl_error(e))
            return lines, outs, fails, info
        if any(len(w) != 33 for w in wire):
            fail("burst-length", "a serialised burst is not 33 bytes", 33, [len(w) for w in wire if len(w) != 33][:3])
            return lines, outs, fails, info
        # ---- parse and abstract every burst (this is where parse(serialise b) = b enters)
        toks = []
        try:
            for w in wire:
                toks.append(c08.alpha(w.hex(), "DataAndControl")[0])
        except BaseException as e:  # noqa
            fail("generated-burst-unparseable", f"Burst.from_bytes raised {impl_error(e)} on a generated burst", "burst", impl_error(e))
            return lines, outs, fails, info
        peek(header, bursts, *[b.data for b in bursts], *[b.slot_type for b in bursts[:k + 2]])
        # ---- every burst the generator emits satisfies the integrity indicators; on the wire the blocks are the padded payload
        count_known = k >= 1 or hbtf0 == nblocks  # the receiver learns the number of bursts from a preamble or from the header (a UDT header announces none)
        if spec or len(wire) <= 24 or case.get("wire_oracle"):
            wire_oracle(l, fail, wire, cls, rate, confirmed, k, cc, payload, header.pad_octet_count, nblocks, hdr_hex0 if btf_given == nblocks and poc_given == poc else None,
                        pad_on_air=not spec or spec["fmt"] in POC_ON_AIR)
            info["wire_oracle"] = True
        # ---- model of the generator: same abstract bursts
        gen_blocks = [b.data for b in bursts[k + 1:]]
        if not gen_blocks or any(not isinstance(b, cls) for b in gen_blocks):
            fail("burst-count", "the bursts behind the header are not the data blocks of the requested rate", f"{nblocks} x {cls.__name__}", [type(b).__name__ for b in gen_blocks][:4])
            return lines, outs, fails, info
        crc32_field = gen_blocks[-1].crc32
        crc9tab = ",".join(f"{b.data.hex()}:{b.crc32}:{b.crc9}" for b in gen_blocks) if confirmed else "-"
        csbktab = ",".join(f"{b.data.blocks_to_follow}:{c08.pdu_hex(b.data)}" for b in bursts[:k] if isinstance(b.data, l.CSBK)) or "-"
        lines.append(" ".join(["frag.full", rate, str(k), str(cc), payload.hex() or "-", str(crc32_field), crc9tab] + habs + [csbktab]))
        outs.append(";".join(toks))
        if confirmed:
            crc9_lines(lines, outs, wire, cls, rate, k)
        # ---- the receiver
        observers = [c08.make_observer(r) for r in case["raises"]]
        term = l.Terminal(1, observers)
        lines.append("t.init " + "".join("1" if r else "0" for r in case["raises"]))
        outs.append("ok")
        slot = case["slot"]
        if case.get("provoke"):
            # failing receiver calls first (no burst, no such time slot): they must leave nothing behind
            for bad in ((None, slot), (l.Burst.from_bytes(wire[-1]), 3), (wire[0], slot)):
                try:
                    term.process_incoming_burst(*bad)
                except BaseException:  # noqa
                    info["provoked"] = info.get("provoked", 0) + 1
        n_before = [0 for _ in observers]
        if case.get("prelude"):
            # an earlier complete transmission on the same terminal and time slot (whose header / blocks the payload of
            # this one may quote): whatever it leaves behind must not matter
            pre = case["prelude"]
            try:
                pp = bytes.fromhex(pre["payload"])
                pcls = rate_cls(pre["rate"])
                _, ppoc = l.TransmissionGenerator.generate_data_bursts(pcls, pp, cc, pre["confirmed"])
                pper, plast = TABLE[(pre["rate"], pre["confirmed"])]
                phdr = make_header(pre["confirmed"], ppoc, int_blocks(pper, plast, len(pp)), pre.get("sap", case["sap"]), pre.get("dst", case["dst"]), pre.get("src", case["src"]))
                pwire = [b.as_bytes() for b in l.TransmissionGenerator.generate_full_data_transmission(pcls, pp, phdr, csbk_count=pre["k"], colour_code=cc)]
                for w in pwire:
                    tok = c08.alpha(w.hex(), "DataAndControl")[0]
                    before = [len(o.log) for o in observers]
                    lines.append(f"t.burst {slot} {tok}")
                    out = term.process_incoming_burst(l.Burst.from_bytes(w), slot)
                    news = [o.log[n:] for o, n in zip(observers, before)]
                    outs.append(" ".join([str(out.sequence_no), c08.LABEL[out.voice_burst.name], str(int.from_bytes(out.stream_no, "big")),
                                          str(term.timeslots[slot].colour_code), "|".join(";".join(n) if n else "-" for n in news) if observers else "-"]))
            except BaseException as e:  # noqa
                if len(outs) < len(lines):
                    outs.append(impl_error(e))
                fail("receiver-raises", f"the earlier transmission on the same slot raised {impl_error(e)}", "no exception", impl_error(e))
                return lines, outs, fails, info
            n_before = [len(o.raw) for o in observers]
            info["prelude_events"] = [[(e[0], e[1]) for e in o.raw] for o in observers][:1]
        for i, w in enumerate(wire):
            if reseed:
                _random.seed(i)
            burst = l.Burst.from_bytes(w)
            before = [len(o.log) for o in observers]
            lines.append(f"t.burst {slot} {toks[i]}")
            peek(term, term.timeslots[slot], term.timeslots[slot].transmission, burst, burst.data, header)
            try:
                out = term.process_incoming_burst(burst, slot)
            except BaseException as e:  # noqa
                outs.append(impl_error(e))
                fail("receiver-raises", f"process_incoming_burst raised {impl_error(e)} on generated burst {i}", "no exception", impl_error(e))
                return lines, outs, fails, info
            peek(out, term.timeslots[slot], term.timeslots[3 - slot], term.timeslots[slot].transmission)
            ts = term.timeslots[slot]
            news = [o.log[n:] for o, n in zip(observers, before)]
            outs.append(" ".join([str(out.sequence_no), c08.LABEL[out.voice_burst.name], str(int.from_bytes(out.stream_no, "big")),
                                  str(ts.colour_code), "|".join(";".join(n) if n else "-" for n in news) if observers else "-"]))
        lines.append("t.state")
        outs.append(c08.slot_state(term.timeslots[1]) + " / " + c08.slot_state(term.timeslots[2]) + " / " + str(counter.n))

        peek(term, term.timeslots[1], term.timeslots[2], header, *[b for o in observers for e in o.raw if e[0] == "E" for b in e[3][-2:]])
        if not count_known:
            # a header that announces another number of blocks than are generated (or none: UDT) and no preamble: the text of
            # the property does not say what is received; the reference is the model (the tracker lines above) and what is
            # on the wire (wire_oracle)
            info["by_model_only"] = True
            return lines, outs, fails, info
        # ---- oracle: exactly the property
        for j, o in enumerate(observers):
            if case.get("prelude") and [(e[0], e[1]) for e in o.raw[:n_before[j]]] != [("S", "D"), ("E", "D")]:
                fail("events", f"observer {j}: the earlier transmission on the same slot was not received as one 'started data' and one 'data ended'",
                     [["S", "D"], ["E", "D"]], [(e[0], e[1]) for e in o.raw[:n_before[j]]])
            ev = o.raw[n_before[j]:]
            kinds = [(e[0], e[1]) for e in ev]
            if kinds != [("S", "D"), ("E", "D")]:
                fail("events", f"observer {j} did not receive exactly one 'started data' and one 'data ended'", [["S", "D"], ["E", "D"]], kinds)
                continue
            _, _, hdr, blocks = ev[1]
            if not isinstance(hdr, l.DataHeader) or (c08.pdu_hex(hdr) != hdr_hex0 and btf_given == nblocks and poc_given == poc):
                fail("header", "the ended notification does not carry the generated header", hdr_hex0, c08.canon_hdr(hdr))
                continue
            rblocks = [b for b in blocks if isinstance(b, (l.Rate12Data, l.Rate34Data, l.Rate1Data))]
            announced = hdr.get_blocks_to_follow()
            if any(type(b) is not cls for b in rblocks) or len(rblocks) != nblocks or (btf_given == nblocks and announced is not None and len(rblocks) != announced):
                fail("block-count", "number / class of received data blocks", nblocks, [type(b).__name__ for b in rblocks][:5] + [len(rblocks)])
            data = b"".join(b.data for b in rblocks)
            # the pad octets announced in the header: the pad octet count field where the format has one on air, else
            # (response / defined short data / UDT headers) the attribute of the header that was handed in
            pad_announced = hdr.pad_octet_count if not spec or spec["fmt"] in POC_ON_AIR else poc
            want = payload + b"\x00" * pad_announced
            if data != want:
                fail("payload", "received data blocks do not concatenate to payload + announced pad octets", want.hex()[:80], data.hex()[:80])
            sizes = [len(b.data) for b in rblocks]
            if sizes != [per] * (len(sizes) - 1) + [last] * min(1, len(sizes)):
                fail("block-size", "data octets per received block are not the table's (per block, last block)", [per, last], sizes[:3] + sizes[-2:])
            if rblocks:
                lastb = rblocks[-1]
                calc = l.CRC32.calculate(data)
                if lastb.crc32.to_bytes(4, "big") != calc.to_bytes(4, "little") or not l.CRC32.check(data, int.from_bytes(lastb.crc32.to_bytes(4, "big"), "little")):
                    fail("crc32", "trailing CRC-32 does not match the received data", calc.to_bytes(4, "little").hex(), lastb.crc32.to_bytes(4, "big").hex())
                # the same against the payload that was handed in, with the independent CRC-32
                indep = ref_crc32(want).to_bytes(4, "little")
                if lastb.crc32.to_bytes(4, "big") != indep:
                    fail("crc32", "trailing CRC-32 is not the (independently computed) CRC-32 of payload + announced pad octets", indep.hex(), lastb.crc32.to_bytes(4, "big").hex())
                if not lastb.is_last_block() or any(b.is_last_block() for b in rblocks[:-1]):
                    fail("last-block", "last-block typing of the received blocks", "only the final block", [b.packet_type.name for b in rblocks][-3:])
            if confirmed:
                mask = {"r12": l.CrcMasks.Rate12DataContinuation, "r34": l.CrcMasks.Rate34DataContinuation, "r1": l.CrcMasks.Rate1DataContinuation}[rate]
                for i, b in enumerate(rblocks):
                    if not b.is_confirmed():
                        fail("crc9", f"block {i} of a confirmed transmission is not parsed as confirmed", "confirmed", b.packet_type.name)
                    elif b.crc9_ok is not True:
                        fail("crc9", f"confirmed block {i} of {len(rblocks)} reports an invalid CRC-9", True, b.crc9_ok)
                    else:
                        # independently: the transmitted field is the CRC-9 over (data, serial number[, CRC-32 of the last block])
                        tx = gen_blocks[i].crc9 if i < len(gen_blocks) else None
                        ref = l.CRC9.calculate_from_parts(data=b.data, serial_number=b.dbsn, mask=mask, crc32=b.crc32 if i == len(rblocks) - 1 else None)
                        indep9 = ref_crc9(b.data, b.dbsn, CRC9_MASK[rate], b.crc32 if i == len(rblocks) - 1 else None)
                        if b.crc9 != ref or (tx not in (0, None) and tx != b.crc9) or b.crc9 != indep9:
                            fail("crc9", f"CRC-9 field of confirmed block {i} is not the CRC-9 of its data and serial number", [ref, indep9], [b.crc9, tx])
            pre = blocks[: len(blocks) - len(rblocks) - 1]
            btfs = [b.blocks_to_follow for b in pre if isinstance(b, l.CSBK)]
            follow = len(wire) - k
            if len(pre) != k or btfs != list(range(k + follow - 1, follow - 1, -1)) or any(b.csbko != l.CsbkOpcodes.PreambleCSBK for b in pre):
                fail("preambles", "preamble CSBKs do not count down to the number of bursts that follow the last preamble", list(range(k + follow - 1, follow - 1, -1)), btfs)
            if follow != 1 + nblocks:
                fail("preambles", "bursts after the last preamble", 1 + nblocks, follow)
        if observers and len({tuple(o.log) for o in observers}) != 1:
            fail("observer-isolation", "observers received different events", observers[0].log[:2], observers[-1].log[:2])
        if case.get("want_rx"):
            # what the library itself produced / delivered: raw material for payloads of further transmissions
            info["wire"] = [w.hex() for w in wire]
            info["header"] = c08.pdu_hex(header)
            info["csbk"] = [c08.pdu_hex(b.data) for b in bursts[:k]]
            info["blocks_ser"] = [c08.pdu_hex(b) for b in gen_blocks]
            ended = [e for o in observers for e in o.raw if e[0] == "E"]
            if ended:
                rb = [b for b in ended[0][3] if isinstance(b, (l.Rate12Data, l.Rate34Data, l.Rate1Data))]
                info["rx_data"] = b"".join(b.data for b in rb).hex()
                info["rx_crc"] = rb[-1].crc32.to_bytes(4, "big").hex() if rb else ""
        tx = term.timeslots[slot].transmission
        if (tx.type.name, tx.blocks_expected, tx.blocks_received, len(tx.blocks)) != ("Idle", 0, 0, 0):
            fail("not-idle", "tracker is not idle after the generated transmission", ["Idle", 0, 0, 0], [tx.type.name, tx.blocks_expected, tx.blocks_received, len(tx.blocks)])
    return lines, outs, fails, info


BIG_INFO = ("wire", "header", "csbk", "blocks_ser", "rx_data", "rx_crc")


def slim(info):
    return {k: v for k, v in info.items() if k not in BIG_INFO}


def derived_cases(rng, base, info, depth=0):
    """payloads made of what the library itself produced for / delivered from the transmission `base`:
    argument provenance + correlation of the payload with checksums, headers and blocks (round 3 (a), (c))"""
    rate, confirmed = base["rate"], base["confirmed"]
    per, last = TABLE[(rate, confirmed)]
    out = []

    def add(kind, payload, rate2=rate, conf2=confirmed, k=None):
        c = dict(base, payload=payload.hex(), rate=rate2, confirmed=conf2, k=rng.choice((0, 1, 2, 3)) if k is None else k,
                 slot=1 + rng.randrange(2), sap=rng.choice((3, 4, 10)))
        c.pop("want_rx", None)
        out.append((f"derived:{kind}" + ("" if (rate2, conf2) == (rate, confirmed) else ":other-rate-mode"), c))

    others = [(r, c) for r in RATES for c in (True, False) if (r, c) != (rate, confirmed)]
    if info.get("rx_data") is not None and info.get("rx_crc"):
        data, crc = bytes.fromhex(info["rx_data"]), bytes.fromhex(info["rx_crc"])
        rx = data + crc  # exactly N blocks of `per` octets: the delivered data and the CRC-32 as it was sent
        add("received-data+crc", rx, k=0)
        add("received-data+crc", rx, k=rng.choice((1, 1, 2, 2, 3, 3, 3, 16)))
        for t in sorted({1, per, rng.choice((4, last, per + 1, rng.randrange(1, 3 * per)))}):
            add("received-data+crc+tail", rx + rbytes(rng, t))
        if depth:
            return out
        add("received-data+crc twice", rx + rx)
        add("received-data+crc+zeros", rx + bytes(rng.randrange(1, per + 1)))
        for r2, c2 in rng.sample(others, 2):
            add("received-data+crc", rx, r2, c2)
        add("received-data (payload + pad zeros)", data)
        add("received-crc only", crc)
        add("head+received-crc (pad octets dropped)", bytes.fromhex(base["payload"]) + crc)
        add("crc first, then data", crc + data)
        if depth == 0:
            # nested twice: what is delivered for `rx` as payload, again with its CRC-32, is a payload
            out.append(("derive-again", dict(base, payload=rx.hex(), k=rng.choice((0, 2)))))
    hdr = bytes.fromhex(info["header"]) if info.get("header") else b""
    if hdr:
        add("own header (12 octets, ends in its CRC-CCITT)", hdr)
        add("own header + random", hdr + rbytes(rng, rng.randrange(1, 2 * per)))
        add("random + own header at the end", rbytes(rng, rng.randrange(0, per)) + hdr)
        add("own header", hdr, *rng.choice(others))
        add("own header x3", hdr * 3, "r12", False)  # 12 octets: exactly one non-last unconfirmed rate 1/2 block each
    for cs in (info.get("csbk") or [])[:1]:
        add("own preamble CSBK + header + random", bytes.fromhex(cs) + hdr + rbytes(rng, per), "r12", False)
    ser = [bytes.fromhex(x) for x in info.get("blocks_ser") or []]
    if ser:
        # a serialised block is 12 / 18 / 24 octets = exactly one unconfirmed block of the same rate: confirmed blocks
        # (serial number, CRC-9, data[, CRC-32]) as the data of unconfirmed ones, and the other way round
        add("own serialised blocks", b"".join(ser), rate, False)
        add("own serialised blocks", b"".join(ser), rate, True)
        add("own last serialised block (ends in the CRC-32) + random", ser[-1] + rbytes(rng, rng.randrange(0, per)), rate, not confirmed)
    wire = [bytes.fromhex(x) for x in info.get("wire") or []]
    if wire:
        add("own header burst + first data burst (2 x 33 octets)", b"".join(wire[base["k"]:base["k"] + 2]), *rng.choice(others + [(rate, confirmed)]))
        if len(wire) <= 5:
            add("own whole transmission on the wire", b"".join(wire))
    return out


def job_run(job):
    """one job in a worker: a plain case, or a base case plus the cases derived from what it delivered.
    Returns [(desc, case, lines, outs, fails, info)]"""
    if not job.get("derive"):
        lines, outs, fails, info = run_observed(job["case"])
        return [(job["desc"], job["case"], lines, outs, fails, slim(info))]
    rng = _random.Random(job["seed"])
    res = []
    todo = [(job["desc"], dict(job["case"], want_rx=True), 0)]
    while todo:
        desc, base, depth = todo.pop(0)
        lines, outs, fails, info = run_case(base)
        res.append((desc, base, lines, outs, fails, slim(info)))
        for d, c in derived_cases(rng, base, info, depth):
            if d == "derive-again":
                todo.append(("derived:received-data+crc (base of the second level)", dict(c, want_rx=True), depth + 1))
                continue
            lines, outs, fails, info2 = run_case(c)
            res.append((d + (":level2" if depth else ""), c, lines, outs, fails, slim(info2)))
    return res


def payload_of(rng, n, mode):
    if mode == 0:
        return bytes(rng.randrange(256) for _ in range(n))
    if mode == 1:
        return bytes(n)
    if mode == 2:
        return b"\xff" * n
    return bytes((i * 37 + 11) & 0xFF for i in range(n))


def make_case(rng, rate, confirmed, n, idx):
    return {
        "rate": rate, "confirmed": confirmed, "k": idx % 17 if rng.random() < 0.7 else rng.randrange(17),
        "cc": (idx // 3) % 16 if rng.random() < 0.7 else rng.randrange(16),
        "payload": payload_of(rng, n, 0 if rng.random() < 0.8 else rng.randrange(1, 4)).hex(),
        "sap": rng.choice([3, 4, 10, 4, 4]), "dst": rng.randrange(1, 1 << 24), "src": rng.randrange(1, 1 << 24),
        "slot": 1 + (idx % 2), "raises": [[True, False], [False], [False, True], []][idx % 4],
    }


def small_case(rng, rate, confirmed, payload, idx, k=None):
    """a case around a constructed payload: few preambles (cheap), at least one observer"""
    c = make_case(rng, rate, confirmed, 0, idx)
    c["payload"] = payload.hex()
    c["k"] = (0, 1, 2, 3, 0, 1, 3, 2, 0, 1, 2, 3, 0, 16, 1, 2)[idx % 16] if k is None else k
    c["raises"] = [[True, False], [False], [False, True]][idx % 3]
    return c


def structured_cases(ctx, rng):
    """the payload-content classes: [(desc, case, count key)]"""
    out = []
    idx = 0
    thorough = ctx.thorough()
    blocks = (1, 2, 3, 4, 5, 6, 8, 12) if thorough else (1, 2, 3, 5)
    turn = {}  # per kind of site: every sibling convention reaches every kind of site, in rotation over rates / modes / sizes
    # sibling conventions per site next to the on-air one, taken in rotation; a fixed share, barely boosted
    nsec = 6 if thorough else 1 if ctx.boost == 1 else 2
    for rate in RATES:
        for confirmed in (True, False):
            per, last = TABLE[(rate, confirmed)]
            convs = conventions(rate)
            others = [n for n in convs if n != "lib32-onair"]  # the independent CRC-32 first, then the sibling conventions

            def chosen(kind, m):
                """the on-air convention always, and the next `m` of the others in this kind's rotation"""
                t = turn.get(kind, 0)
                turn[kind] = t + m
                return ["lib32-onair"] + [others[(t + i) % len(others)] for i in range(min(m, len(others)))]

            def add(kind, name, payload, sites, k=None):
                nonlocal idx
                if not sites:
                    return
                out.append((f"selfref:{kind}:{name}", small_case(rng, rate, confirmed, payload, idx, k), f"class:selfref:{kind}:{name}"))
                idx += 1

            def site_cases(kind, n, sites, m):
                for name in chosen(kind, m):
                    w, fn = convs[name]
                    payload, done = selfref_payload(rng, n, per, sites, fn, w)
                    if name == "lib32-onair":
                        # the receiver learns the block count from the header (k = 0) or from a preamble (k >= 1)
                        add(kind, name, payload, done, k=0)
                        payload, done = selfref_payload(rng, n, per, sites, fn, w)
                        add(kind, name, payload, done, k=rng.choice((1, 1, 2, 2, 3, 3, 3, 16)))
                    else:
                        add(kind, name, payload, done)

            for nb in blocks:
                total = (nb - 1) * per + last
                inner = [(i + 1) * per for i in range(nb - 1)]
                # pad classes: none, fewer than / exactly / more than the four octets of a CRC-32, the maximum
                pads = [p for p in sorted({0, 1, 3, 4, 5, per - 1} if thorough or nb < 3 else {0, 1, 4, per - 1}) if total - p >= 0 and (nb == 1 or p < per)]
                # --- the payload ends with a checksum of its head; with / without pad octets after it
                for pad in pads:
                    site_cases("payload-end", total - pad, [total - pad], nsec)
                # --- a non-last block ends with a checksum of everything before it
                for b in inner:
                    site_cases("block-end", total - rng.choice(pads), [b], 2 * nsec)
                # --- every block end and the payload end at once (each checksum covers the earlier ones)
                n = total - rng.choice(pads)
                site_cases("every-boundary", n, inner + [n], nsec)
                # --- near misses: the field one octet early / late
                for shift in (-1, 1):
                    for name in chosen("shifted", 0 if shift == 1 else nsec):
                        w, fn = convs[name]
                        n = total - rng.choice(pads)
                        payload, done = selfref_payload(rng, n, per, [rng.choice(inner + [n])], fn, w, shift=shift)
                        add("shifted", name, payload, done)
            # --- the checksum first, then what it covers (a header in front of its data)
            for nb in (1, 3):
                total = (nb - 1) * per + last
                for name in chosen("checksum-first", 2 * nsec):
                    w, fn = convs[name]
                    rest = rbytes(rng, max(0, total - w - rng.choice((0, 1, 5))))
                    add("checksum-first", name, fn(rest, rest[:per]) + rest, [w])
            # --- payloads that describe themselves: length / block count / pad count octets, IPv4 + UDP headers whose
            # length fields are true, point at a block end, or stop short of the pad octets
            for nb in (2, 4):
                total = (nb - 1) * per + last
                pad = rng.choice((0, 1, 5, per - 1))
                n = total - pad
                body = bytearray(rbytes(rng, n))
                variants = {
                    "length-be16-first": n.to_bytes(2, "big") + bytes(body[2:]),
                    "length-le16-first": n.to_bytes(2, "little") + bytes(body[2:]),
                    "length-of-rest-first": bytes([(n - 1) & 0xFF]) + bytes(body[1:]),
                    "blocks-first": bytes([nb]) + bytes(body[1:]),
                    "pad-count-last": bytes(body[:-1]) + bytes([pad]),
                    "pad-count-repeated-last (PKCS-like)": bytes(body[:-max(1, pad)]) + bytes([pad]) * max(1, pad),
                    "length-last": bytes(body[:-1]) + bytes([n & 0xFF]),
                    "length-to-first-block-end-first": per.to_bytes(2, "big") + bytes(body[2:]),
                }
                if n >= 28:
                    variants["ipv4-udp:true-length"] = ipv4_udp(rng, n)
                    variants["ipv4-udp:length-at-block-end"] = ipv4_udp(rng, n, claimed=(nb - 1) * per)
                    variants["ipv4-udp:length-short"] = ipv4_udp(rng, n, claimed=n - rng.randrange(1, 8))
                    variants["ipv4-udp:length-with-pad"] = ipv4_udp(rng, n, claimed=total)
                for label, payload in variants.items():
                    c = small_case(rng, rate, confirmed, payload[:n], idx)
                    c["sap"] = 4 if label.startswith("ipv4") or idx % 2 else 3
                    out.append((f"self-describing:{label}", c, f"class:self-describing:{label.split(' (')[0]}"))
                    idx += 1
            # --- one block of the payload is all zero / all ones / a copy of its predecessor (first, middle, last position)
            nb = 4
            total = (nb - 1) * per + last
            for which in (0, 2, 3):
                lo, hi = which * per, min(total, which * per + per)
                for label, fill in (("zero", 0), ("ones", 0xFF), ("repeat", None)):
                    if fill is None and which == 0:
                        continue
                    body = bytearray(rbytes(rng, total - (rng.choice((0, 1, 3)) if which < 3 else 0)))
                    if fill is None:
                        body[lo:hi] = body[lo - per:lo - per + (hi - lo)]
                    else:
                        body[lo:hi] = bytes([fill]) * (len(body[lo:hi]))
                    out.append((f"block-content:{label}:block{which}of4", small_case(rng, rate, confirmed, bytes(body), idx), f"class:block-content:{label}"))
                    idx += 1
            # --- head ends in zero octets (indistinguishable from pad) / payload is only a checksum
            for name in PRIMARY:
                w, fn = convs[name]
                for z in (1, per) if name == "lib32-onair" else (4, last):
                    head = rbytes(rng, rng.randrange(0, 2 * per)) + bytes(z)
                    add("zero-tail-then-crc", name, head + fn(head, b""), [len(head) + w])
                    tail = rbytes(rng, rng.randrange(1, per))
                    add("zero-tail-then-crc-then-more", name, head + fn(head, b"") + tail, [len(head) + w])
            # --- sentinel values of the transmission's own CRC-32 (over payload + pad octets)
            for nb in (1, 2, 4) if thorough else (1, 3):
                total = (nb - 1) * per + last
                for pad, target in ((0, 0), (0, 0xFFFFFFFF), (1, 0), (3, 1), (per - 1 if nb > 1 else 2, 0), (0, None), (2, None)):
                    n = total - pad
                    if n < 8:
                        continue
                    p = (n - 4) & ~1  # the four solved octets start at an even offset (see solve_tail32)
                    head, tail = rbytes(rng, p), rbytes(rng, n - p - 4)
                    tgt = int.from_bytes(head[:4], "little") if target is None else target
                    x = solve_tail32(head, tail + bytes(pad), tgt)
                    if x is None:
                        ctx.count("class:crc32-target:unsolvable")
                        continue
                    label = "own-first-octets" if target is None else f"{target:#x}"
                    out.append((f"crc32-target:{label}", small_case(rng, rate, confirmed, head + x + tail, idx), f"class:crc32-target:{label}"))
                    idx += 1
            # --- sentinel values of a block's CRC-9 (0 = "not given" in the block constructors)
            if confirmed:
                for target in (0, 0x1FF):
                    for nb, which in ((1, 0), (3, 0), (3, 2)):
                        payload = crc9_target_payload(rng, rate, nb, which, target)
                        if payload is not None:
                            out.append((f"crc9-target:{target:#x}:block{which}of{nb}", small_case(rng, rate, confirmed, payload, idx), f"class:crc9-target:{target:#x}"))
                            idx += 1
    return out


# ------------------------------------------------------------------------------------------------
# round 4: payload content that is itself a valid PDU / burst of the protocol.  A payload block that reads as a
# confirmed block with the next serial number and a true CRC-9, as the transmission's own header or preamble, as
# a foreign header / CSBK / link control, as the FEC codeword of another burst … is still payload.
# ------------------------------------------------------------------------------------------------
SER = {"r12": 12, "r34": 18, "r1": 24}  # octets of the information field of one burst = one serialised block


def rev9(v: int) -> int:
    return int(f"{v & 0x1FF:09b}"[::-1], 2)


def onair_block(rate, kind, data, dbsn=0, crc32=b"", how="lib", mask=None, msb=False, crc9_xor=0):
    """the octets a block of `kind` (conf / conf-last / unconf / unconf-last) occupies in the information field of
    its burst.  how = lib: the library's own constructor and `as_bits`; ref: restated here — 7-bit serial number,
    CRC-9 field (least significant bit first as the library stores it, `msb`: most significant bit first as ETSI
    draws it; `mask`: the CRC mask of that rate; `crc9_xor`: near miss), data[, CRC-32 as sent]"""
    conf, lastk = kind.startswith("conf"), kind.endswith("last")
    assert len(data) == TABLE[(rate, conf)][1 if lastk else 0]
    if how == "lib":
        b = rate_cls(rate)(data=data, dbsn=dbsn, crc32=crc32 if lastk else 0)  # the type follows from the data length
        assert b.is_confirmed() == conf and b.is_last_block() == lastk
        return b.as_bits().tobytes()
    out = b""
    if conf:
        c9 = ref_crc9(data, dbsn, CRC9_MASK[mask or rate], int.from_bytes(crc32, "big") if lastk else None) ^ crc9_xor
        out = ((dbsn << 9) | (c9 if msb else rev9(c9))).to_bytes(2, "big")
    return out + data + (crc32 if lastk else b"")


def confirmed_image(rate, inner, start=0, step=1, whole=True, **variant):
    """the information fields of the bursts of a confirmed transmission of `inner` at `rate`, serial numbers
    start, start+step, … (mod 128) as ETSI numbers them (the library's generator leaves them 0); `whole`: the final
    block is a last block (6 / 12 / 18 octets and the CRC-32 of the padded inner payload), else `inner` is cut into
    full non-last blocks only"""
    per, last = TABLE[(rate, True)]
    if not whole:
        inner = inner[: len(inner) // per * per]
        return [onair_block(rate, "conf", inner[i:i + per], (start + step * (i // per)) % 128, **variant) for i in range(0, len(inner), per)]
    nb = int_blocks(per, last, len(inner))
    padded = inner + bytes((nb - 1) * per + last - len(inner))
    crc = ref_crc32(padded).to_bytes(4, "little")
    return [onair_block(rate, "conf-last" if i == nb - 1 else "conf", padded[i * per:(i + 1) * per], (start + step * i) % 128,
                        crc if i == nb - 1 else b"", **variant) for i in range(nb)]


def unconfirmed_image(rate, inner):
    per, last = TABLE[(rate, False)]
    nb = int_blocks(per, last, len(inner))
    padded = inner + bytes((nb - 1) * per + last - len(inner))
    return [padded[i * per:(i + 1) * per] for i in range(nb - 1)] + [padded[(nb - 1) * per:] + ref_crc32(padded).to_bytes(4, "little")]


def header_octets(case, n):
    """the 12 octets of the data header the transmission of an n-octet payload under `case` gets: the header depends
    on the payload through its length only (pad count, blocks to follow), so a payload can quote it"""
    per, last = TABLE[(case["rate"], case["confirmed"])]
    nb = int_blocks(per, last, n)
    return bytes.fromhex(c08.pdu_hex(make_header(case["confirmed"], (nb - 1) * per + last - n, nb, case["sap"], case["dst"], case["src"])))


def preamble_octets(case, btf, individual=True):
    l = L()
    return bytes.fromhex(c08.pdu_hex(l.CSBK(source_address=case["src"], target_address=case["dst"], blocks_to_follow=btf & 0xFF,
                                            csbko=l.CsbkOpcodes.PreambleCSBK, target_address_is_individual=individual, last_block=True)))


def lc_octets(rng, terminator=False, valid=True, body=None):
    """a full link control (voice LC header / terminator with LC): 9 octets and their RS(12,9) parity under the mask"""
    from okdmr.dmrlib.etsi.fec.reed_solomon_12_9_4 import ReedSolomon1294

    body = body or bytes([rng.choice((0, 3)), rng.choice((0, 0x10)), rng.getrandbits(8)]) + rbytes(rng, 6)
    out = ReedSolomon1294.generate(body, b"\x99\x99\x99" if terminator else b"\x96\x96\x96")
    full = out if len(out) == 12 else body + out[-3:]
    return full if valid else full[:9] + bytes(x ^ 0x5A for x in full[9:])


def foreign_pdus(rng, nb):
    """12-octet PDUs and 33-octet bursts of other transmissions, built by the library: [(name, octets)]"""
    out = []
    for fmt in ("unconfirmed", "confirmed", "response", "sdd", "udt"):
        for btf in (0, 1, nb, 127):
            if fmt == "udt" and btf:
                continue
            burst = c08.sym_data_header(rng, fmt=fmt, btf=btf, a=rng.randrange(2), sap=rng.choice((3, 4, 10)))
            out.append((f"header:{fmt}:btf{'N' if btf == nb and btf > 1 else btf}", bytes.fromhex(c08.alpha(burst[0], burst[1])[1]["id"])))
    for btf in (0, 1, nb, nb + 1, 255):
        burst = c08.sym_csbk(rng, preamble=True, btf=btf)
        out.append((f"csbk:preamble:{'N' if btf == nb else 'N+1' if btf == nb + 1 else btf}", bytes.fromhex(c08.alpha(burst[0], burst[1])[1]["id"])))
    for _ in range(2):
        burst = c08.sym_csbk(rng, preamble=False)
        out.append(("csbk:other", bytes.fromhex(c08.alpha(burst[0], burst[1])[1]["id"])))
    out.append(("lc:voice-header", lc_octets(rng)))
    out.append(("lc:terminator", lc_octets(rng, terminator=True)))
    out.append(("lc:voice-header:bad-parity", lc_octets(rng, valid=False)))
    out.append(("burst:voice-header", bytes.fromhex(c08.sym_voice_header(rng, kind="group")[0])))
    out.append(("burst:terminator", bytes.fromhex(c08.sym_terminator(rng)[0])))
    out.append(("burst:data-header", bytes.fromhex(c08.sym_data_header(rng, fmt="unconfirmed", btf=1, a=0)[0])))
    out.append(("burst:csbk-preamble", bytes.fromhex(c08.sym_csbk(rng, preamble=True, btf=1)[0])))
    out.append(("burst:rate12", bytes.fromhex(c08.sym_rate(rng, rate="r12")[0])))
    out.append(("burst:voice-sync", bytes.fromhex(c08.sym_voice_sync(rng)[0])))
    return out


def fec_image_r1(rng, make12=None, make18=None, tries=400):
    """24 octets = a rate 1 block whose 196 bits on air (96 + 0000 + 96) are the BPTC(196,96) codeword of the 12
    octets make12() / the rate 3/4 trellis codeword of the 18 octets make18(); None if the four filler bits of no
    candidate are zero (one in sixteen is)"""
    l = L()
    for _ in range(tries):
        cw = l.BPTC19696.encode(l.bytes_to_bits(make12())) if make12 else l.Trellis34.encode(l.bytes_to_bits(make18()))
        if len(cw) == 196 and not cw[96:100].any():
            return (cw[:96] + cw[100:]).tobytes()
    return None


def header_crc(h10: bytes) -> bytes:
    l = L()
    from okdmr.dmrlib.etsi.crc.crc16 import CRC16

    return (CRC16.calculate(h10, l.CrcMasks.DataHeader) & 0xFFFF).to_bytes(2, "big")


def confirmed_onair_pdu(rng, rate, target, tries=6000):
    """data octets of one non-last CONFIRMED block (serial number 0 as the generator numbers them) whose image on
    air — serial number, CRC-9, data — begins with a well-formed 12-octet PDU: `header` (CRC-CCITT ok, parses),
    `lc` / `terminator` (RS(12,9) parity ok).  The CRC-9 the generator will compute has to be the PDU's own bits
    7..15: one candidate in 512 fits."""
    l = L()
    per = TABLE[(rate, True)][0]
    for _ in range(tries):
        if target == "header":
            first2 = rng.getrandbits(9).to_bytes(2, "big")  # serial number 0, then any nine bits
            h10 = first2 + rbytes(rng, 8)
            pdu = h10 + header_crc(h10)
        else:
            pdu = lc_octets(rng, terminator=target == "terminator", body=bytes([rng.choice((0, 1)), rng.getrandbits(8)]) + rbytes(rng, 7))
        data = pdu[2:] + rbytes(rng, per - 10)
        if rev9(ref_crc9(data, 0, CRC9_MASK[rate])) != int.from_bytes(pdu[:2], "big"):
            continue
        if target == "header":
            try:
                if l.DataHeader.from_bits(l.bytes_to_bits(pdu)).crc_ok is not True:
                    continue
            except BaseException:  # noqa: a reserved format the library does not parse
                continue
        return data
    return None


def numbered_last_image(rng, rate, nb, start, tries=8000):
    """payload of an UNCONFIRMED transmission of nb >= 2 blocks (no pad) that on air is block by block an ETSI-numbered
    confirmed transmission: every non-last block = serial number, true CRC-9, data; the last block (its octets and
    the CRC-32 the generator appends) = serial number, true CRC-9 over (data, that CRC-32), data, CRC-32.  The
    CRC-9 field is part of what the CRC-32 covers: random search, one candidate in 512 fits."""
    perc, lastc = TABLE[(rate, True)]
    head = b"".join(confirmed_image(rate, rbytes(rng, (nb - 1) * perc), start, whole=False, how="ref"))
    dbsn = (start + nb - 1) % 128
    for _ in range(tries):
        d = rbytes(rng, lastc)
        f = rng.getrandbits(9)
        payload = head + ((dbsn << 9) | f).to_bytes(2, "big") + d
        crc = ref_crc32(payload).to_bytes(4, "little")
        if rev9(ref_crc9(d, dbsn, CRC9_MASK[rate], int.from_bytes(crc, "big"))) == f:
            return payload
    return None


def pdu_cases(ctx, rng):
    """[(desc, case, count key)] of the class `payload content that is itself a valid PDU of the protocol`"""
    out = []
    thorough = ctx.thorough()
    idx = [0]
    CONFIGS = [(r, c) for r in RATES for c in (False, True)]

    def emit(fam, variant, rate, confirmed, payload, k=None, fix=None):
        c = small_case(rng, rate, confirmed, payload, idx[0], k)
        if fix:
            c.update(fix)
        idx[0] += 1
        out.append((f"pdu:{fam}:{variant}", c, f"class:pdu:{fam}:{variant.split(' ')[0]}"))
        return c

    def embed(n, off, blob):
        buf = bytearray(rbytes(rng, n))
        if off < 0:
            blob, off = blob[-off:], 0
        buf[off:off + len(blob)] = blob[:max(0, n - off)]
        return bytes(buf[:n])

    def length_for(rate, confirmed, nb, pad):
        per, last = TABLE[(rate, confirmed)]
        return max(0, (nb - 1) * per + last - (pad if nb > 1 else min(pad, last)))

    starts = (0, 1, 5, 63, 126, 127, rng.randrange(2, 126)) if thorough else (0, 1, 126, 127, rng.randrange(2, 126))
    # ---- F1: runs of blocks that on air are confirmed blocks with serial numbers k, k+1, … and true CRC-9
    for ri, rate in enumerate(RATES):
        perc = TABLE[(rate, True)][0]
        ser = SER[rate]
        # (a) the same rate, unconfirmed: every image is exactly one block of the transmission
        for si, start in enumerate(starts):
            for m in (1, 2, 3, 5) if thorough else (2, 3):
                for j in (0, 1, 3) if thorough else ((0, 1, 2)[(si + m) % 3],):
                    how = ("lib", "ref")[(si + m + j) % 2]
                    imgs = confirmed_image(rate, rbytes(rng, m * perc), start, whole=False, how=how)
                    nb = j + m + rng.choice((1, 1, 2, 3))  # at least the last block follows
                    n = length_for(rate, False, nb, rng.choice((0, 1, 5)))
                    emit("numbered-run", f"same-rate:{how} (start {start}, {m} blocks from block {j} of {nb}, {rate})", rate, False,
                         embed(n, j * ser, b"".join(imgs)), k=(0, 1, 2, 3)[(si + j) % 4])
        # (b) siblings: other CRC-9 conventions, serial numbers that do not follow on, near misses
        variants = [
            ("msb-first-field", dict(how="ref", msb=True), 1), ("mask-of-other-rate", dict(how="ref", mask=RATES[(ri + 1) % 3]), 1),
            ("mask-of-other-rate-msb", dict(how="ref", mask=RATES[(ri + 2) % 3], msb=True), 1), ("crc9-one-bit-off", dict(how="ref", crc9_xor=1), 1),
            ("crc9-inverted", dict(how="ref", crc9_xor=0x1FF), 1), ("same-number-twice", dict(how="lib"), 0), ("descending", dict(how="lib"), -1),
            ("step-two", dict(how="lib"), 2), ("numbered-by-position", dict(how="lib"), 1),
        ]
        for vi, (name, kw, step) in enumerate(variants):
            for m in (2, 3) if thorough else (2 + vi % 2,):
                j = vi % 2
                start = j if name == "numbered-by-position" else rng.choice(starts)
                imgs = confirmed_image(rate, rbytes(rng, m * perc), start, step=step, whole=False, **kw)
                n = length_for(rate, False, j + m + 1 + vi % 2, rng.choice((0, 1)))
                emit("numbered-run", f"{name} ({rate}, start {start})", rate, False, embed(n, j * ser, b"".join(imgs)))
        # (c) the images of a whole numbered confirmed transmission (last block with the CRC-32 of its own payload)
        for N in (1, 2, 3, 4) if thorough else (1, 3):
            for start in (0, 1, rng.randrange(2, 128)):
                lastc = TABLE[(rate, True)][1]
                imgs = confirmed_image(rate, rbytes(rng, (N - 1) * perc + lastc - rng.choice((0, 0, 1, 4))), start, how=("lib", "ref")[N % 2])
                blob = b"".join(imgs)
                emit("numbered-run", f"whole-confirmed-transmission ({rate}, {N} blocks from {start})", rate, False, blob + rbytes(rng, rng.choice((0, 0, 3))))
                emit("numbered-run", f"whole-confirmed-transmission:as-confirmed-data ({rate})", rate, True, blob)
        # (d) the same images as the payload of the other rates / modes (not block aligned there), shifted by octets
        for (r2, c2) in CONFIGS:
            if (r2, c2) == (rate, False):
                shifts = (1, 2, ser - 1)
            else:
                shifts = (0, rng.choice((1, 2)))
            for sh in shifts if thorough else shifts[:2]:
                m = rng.choice((2, 3))
                blob = b"".join(confirmed_image(rate, rbytes(rng, m * perc), rng.choice(starts), whole=False, how="lib"))
                per2, last2 = TABLE[(r2, c2)]
                nb = (len(blob) + sh) // per2 + 2
                emit("numbered-run", f"{'shifted' if (r2, c2) == (rate, False) else 'other-rate-mode'} ({rate} images in {r2} {'confirmed' if c2 else 'unconfirmed'}, +{sh})",
                     r2, c2, embed(length_for(r2, c2, nb, rng.choice((0, 1))), sh, blob))
        # (e) on air the WHOLE unconfirmed transmission is a numbered confirmed one, last block included (searched)
        for nb, start in ((2, 0), (3, 5), (2, 127)) if thorough else ((2, (0, 5, 127)[ri]), (3, 1)):
            payload = numbered_last_image(rng, rate, nb, start)
            if payload is None:
                ctx.count("class:pdu:numbered-run:last-block-too:unsolved")
                continue
            emit("numbered-run", f"last-block-too ({rate}, {nb} blocks from {start})", rate, False, payload, k=nb % 2)
        # (f) blocks of an unconfirmed transmission (last one with its CRC-32) inside a confirmed / an unconfirmed one
        for N in (1, 2, 3):
            blob = b"".join(unconfirmed_image(rate, rbytes(rng, (N - 1) * ser + ser - 4 - rng.choice((0, 1)))))
            for c2 in (True, False):
                emit("unconfirmed-image", f"in-{'confirmed' if c2 else 'unconfirmed'} ({rate}, {N} blocks)", rate, c2, blob + rbytes(rng, rng.choice((0, 2))))
    # ---- F3: the transmission's own data header (fixed point through the payload length), own addresses
    for rate, confirmed in CONFIGS:
        per, last = TABLE[(rate, confirmed)]
        for nb in (2, 3, 5, 9) if thorough else (2, 3, 5):
            for pad in (0, 1, 5) if thorough else ((0, 1, 5)[nb % 3],):
                n = length_for(rate, confirmed, nb, pad)
                offs = [(f"block{j}", j * per) for j in range(nb - 1)]
                if not thorough and len(offs) > 2:
                    offs = [offs[0], offs[-1], offs[len(offs) // 2]]
                if per > 12:
                    offs.append(("block-end-aligned", (nb - 2) * per + per - 12))
                offs += [("shifted+1", per * ((nb - 1) // 2) + 1), ("shifted-1", per - 1),
                         ("shifted+2", 2), ("last-block", (nb - 1) * per), ("payload-end", n - 12)]
                for oi, (where, off) in enumerate(offs):
                    if off < 0 or off >= n:
                        continue
                    k = (0, 1, 3, 2)[(oi + nb) % 4]
                    c = emit("own-header", f"{where} ({rate} {'confirmed' if confirmed else 'unconfirmed'}, {nb} blocks)", rate, confirmed, bytes(n), k=k)
                    c["payload"] = embed(n, off, header_octets(c, n)).hex()
                    if oi % 5 == 4:
                        c["header_from_bits"] = True
        # several copies; the header next to the own preamble; the addresses alone
        for nb, what in ((4, "twice-adjacent"), (5, "in-every-block"), (4, "preamble+header"), (3, "addresses-first"), (3, "header-without-crc")):
            n = length_for(rate, confirmed, nb, rng.choice((0, 1)))
            c = emit("own-header", f"{what} ({rate} {'confirmed' if confirmed else 'unconfirmed'})", rate, confirmed, bytes(n), k=rng.choice((1, 2, 3)))
            h = header_octets(c, n)
            if what == "twice-adjacent":
                p = embed(n, per, h + bytes(max(0, per - 12)) + h)
            elif what == "in-every-block":
                p = b"".join((h + rbytes(rng, per))[:per] for _ in range(nb))[:n]
            elif what == "preamble+header":
                p = embed(n, per, (preamble_octets(c, nb + 1) + rbytes(rng, per))[:max(per, 12)] + h)
            elif what == "addresses-first":
                p = embed(n, per, c["dst"].to_bytes(3, "big") + c["src"].to_bytes(3, "big") + c["src"].to_bytes(3, "big") + c["dst"].to_bytes(3, "big"))
            else:
                p = embed(n, per, h[:10] + bytes(2))
            c["payload"] = p.hex()
    # ---- F4: the last block AS SENT (its octets + the CRC-32) ends with the own header / an own preamble / a foreign header
    for rate, confirmed in CONFIGS:
        per, last = TABLE[(rate, confirmed)]
        if last < 8:
            continue  # rate 1/2 confirmed: the 12 octets on air start with serial number and CRC-9
        for nb, target in ((2, "own-header"), (3, "own-header"), (2, "own-preamble"), (3, "foreign-header")) if thorough or not confirmed else ((2, "own-header"),):
            n = length_for(rate, confirmed, nb, 0)
            c = emit("last-block-on-air", f"{target} ({rate} {'confirmed' if confirmed else 'unconfirmed'}, {nb} blocks)", rate, confirmed, bytes(n), k=rng.choice((0, 1, 2)))
            pdu = header_octets(c, n) if target == "own-header" else preamble_octets(c, nb + 1) if target == "own-preamble" else \
                bytes.fromhex(c08.pdu_hex(make_header(False, 3, 7, 4, 77, 88)))
            p = (n - 8 - 4) & ~1  # four solved octets at an even offset in front of the quoted 8
            if p < 0:
                out.pop()
                continue
            head = rbytes(rng, p)
            tail = rbytes(rng, n - 8 - 4 - p) + pdu[:8]
            x = solve_tail32(head, tail, int.from_bytes(pdu[8:12], "little"))
            if x is None:
                out.pop()
                ctx.count("class:pdu:last-block-on-air:unsolvable")
                continue
            c["payload"] = (head + x + tail).hex()
    # ---- F5: the transmission's own preamble CSBKs (every count that is sent, and counts that are not)
    for rate, confirmed in CONFIGS:
        per, last = TABLE[(rate, confirmed)]
        for k in (1, 2, 3, 16) if thorough else (1, 3):
            nb = rng.choice((2, 3, 4))
            n = length_for(rate, confirmed, nb, rng.choice((0, 1, 5)))
            for name, btf in (("first-sent", k + nb), ("last-sent", nb + 1), ("next-count", nb), ("zero", 0), ("255", 255)):
                c = emit("own-preamble", f"{name} ({rate} {'confirmed' if confirmed else 'unconfirmed'}, k={k})", rate, confirmed, bytes(n), k=k)
                j = rng.randrange(nb - 1)
                c["payload"] = embed(n, j * per + (per - 12 if per > 12 and btf % 2 else 0), preamble_octets(c, btf)).hex()
            c = emit("own-preamble", f"whole-countdown-and-header ({rate} {'confirmed' if confirmed else 'unconfirmed'}, k={k})", rate, confirmed, bytes(12 * (k + 1) + 5), k=k)
            n = 12 * (k + 1) + 5
            nbo = int_blocks(per, last, n)
            c["payload"] = (b"".join(preamble_octets(c, nbo + 1 + i) for i in reversed(range(k))) + header_octets(c, n) + rbytes(rng, 5)).hex()
    # ---- F6: PDUs and bursts of other transmissions at block starts, shifted, adjacent
    for ci, (rate, confirmed) in enumerate(CONFIGS):
        per, last = TABLE[(rate, confirmed)]
        nb = 4
        pdus = foreign_pdus(rng, nb)
        for pi, (name, blob) in enumerate(pdus):
            if not thorough and (pi + ci) % 2 and not name.startswith(("header:unconfirmed", "header:confirmed", "lc:")):
                continue
            n = length_for(rate, confirmed, nb if len(blob) <= 12 else nb + 33 // per, rng.choice((0, 1, 5)))
            where = (pi + ci) % 4
            off = (0, per, 2 * per, per + rng.choice((1, 2, per - 1)))[where]
            emit("foreign", f"{name} ({rate} {'confirmed' if confirmed else 'unconfirmed'}, {'shifted' if where == 3 else 'block ' + str(where)})", rate, confirmed, embed(n, off, blob))
        # a whole foreign transmission / call, PDU after PDU
        d = dict(pdus)
        for name, seq in (("preamble+header+block", d["csbk:preamble:1"] + d["header:unconfirmed:btf1"] + rbytes(rng, 12)),
                          ("voice-header+terminator", d["lc:voice-header"] + d["lc:terminator"]),
                          ("header-twice", d["header:confirmed:btfN"] * 2)):
            emit("foreign", f"adjacent:{name} ({rate} {'confirmed' if confirmed else 'unconfirmed'})", rate, confirmed,
                 embed(length_for(rate, confirmed, len(seq) // per + 2 + ci % 2, ci % 3), per * (ci % 2), seq))
    # ---- F7: a rate 1 block that on air is the FEC codeword of another burst (BPTC of a header / preamble / link
    # control / rate 1/2 confirmed block, trellis of a rate 3/4 block)
    for confirmed in (False, True):
        per, last = TABLE[("r1", confirmed)]
        for name in ("bptc:own-header", "bptc:foreign-header", "bptc:csbk-preamble", "bptc:terminator", "bptc:r12-confirmed-block", "trellis:r34-confirmed-block"):
            nb = 3
            n = length_for("r1", confirmed, nb, rng.choice((0, 1)))
            c = emit("fec-image", f"{name} (r1 {'confirmed' if confirmed else 'unconfirmed'})", "r1", confirmed, bytes(n), k=rng.choice((0, 1, 2)))

            def own():
                c["dst"] = rng.randrange(1, 1 << 24)
                return header_octets(c, n)

            img = fec_image_r1(rng, make12={
                "bptc:own-header": own,
                "bptc:foreign-header": lambda: bytes.fromhex(c08.pdu_hex(make_header(bool(rng.randrange(2)), rng.randrange(16), rng.randrange(1, 9), 4, rng.randrange(1, 1 << 24), 9))),
                "bptc:csbk-preamble": lambda: preamble_octets(dict(c, src=rng.randrange(1, 1 << 24)), nb + 1),
                "bptc:terminator": lambda: lc_octets(rng, terminator=True),
                "bptc:r12-confirmed-block": lambda: onair_block("r12", "conf", rbytes(rng, 10), rng.randrange(128)),
            }.get(name), make18=(lambda: onair_block("r34", "conf", rbytes(rng, 16), rng.randrange(128))) if name.startswith("trellis") else None)
            if img is None:
                out.pop()
                ctx.count("class:pdu:fec-image:unsolved")
                continue
            # unconfirmed: the 24 octets are one block; confirmed: they cannot be (the first 16 bits on air are serial number and CRC-9), near miss
            c["payload"] = embed(n, per * (idx[0] % 2), img).hex()
    # ---- F9: the payload handed over as an OBJECT the signature accepts (BytesInterface): a wrapper around the octets, the
    # library's own PDU object with these octets — the transmission's own header object passed twice (as userdata and as
    # data_header), a foreign header / CSBK / link control / whole burst object
    for ci, (rate, confirmed) in enumerate(CONFIGS):
        c = emit("as-object", f"own-header-object ({rate} {'confirmed' if confirmed else 'unconfirmed'})", rate, confirmed, bytes(12), k=ci % 3, fix={"userdata_as": "pdu-object"})
        c["payload"] = header_octets(c, 12).hex()
        pdus = [p for p in foreign_pdus(rng, 2) if p[0].startswith(("header:unconfirmed", "header:response", "csbk:preamble:1", "csbk:other", "lc:voice-header", "lc:terminator", "burst:"))]
        for pi, (name, blob) in enumerate(pdus):
            if thorough or (pi + ci) % 3 == 0:
                emit("as-object", f"{name.split(':btf')[0]} ({rate} {'confirmed' if confirmed else 'unconfirmed'})", rate, confirmed, blob,
                     fix={"userdata_as": "pdu-object:" + {"header": "DataHeader", "csbk": "CSBK", "lc": "FullLinkControl", "burst": "Burst"}[name.split(":")[0]]})
        for n in (0, 1, TABLE[(rate, confirmed)][1], 3 * TABLE[(rate, confirmed)][0]):
            emit("as-object", f"wrapper ({n} octets, {rate} {'confirmed' if confirmed else 'unconfirmed'})", rate, confirmed, rbytes(rng, n), fix={"userdata_as": "wrapper"})
    # ---- F10: an earlier transmission on the same terminal and slot whose header / blocks / data this payload quotes
    for ci, (rate, confirmed) in enumerate(CONFIGS):
        per, last = TABLE[(rate, confirmed)]
        for vi, what in enumerate(("its-header", "its-last-block-on-air", "its-payload-again", "other-mode-before", "its-preamble")):
            if not thorough and (vi + ci) % 2:
                continue
            pconf = (not confirmed) if what == "other-mode-before" else confirmed
            pper, plast = TABLE[(rate, pconf)]
            pn = 2 * pper + plast - rng.choice((0, 1))
            pre = {"rate": rate, "confirmed": pconf, "payload": rbytes(rng, pn).hex(), "k": rng.choice((0, 1, 2))}
            nb = 3
            n = length_for(rate, confirmed, nb, rng.choice((0, 1)))
            c = emit("after-earlier-transmission", f"{what} ({rate} {'confirmed' if confirmed else 'unconfirmed'})", rate, confirmed, bytes(n), k=rng.choice((0, 1, 2)), fix={"prelude": pre})
            pcase = dict(c, rate=rate, confirmed=pconf)
            if what == "its-header":
                blob = header_octets(pcase, pn)
            elif what == "its-preamble":
                pre["k"] = 2
                blob = preamble_octets(pcase, 4)
            elif what == "its-last-block-on-air":
                pp = bytes.fromhex(pre["payload"])
                padded = pp + bytes(2 * pper + plast - pn)
                blob = padded[2 * pper:] + ref_crc32(padded).to_bytes(4, "little")
            elif what == "its-payload-again":
                blob = bytes.fromhex(pre["payload"])
            else:
                blob = b"".join(confirmed_image(rate, rbytes(rng, 2 * TABLE[(rate, True)][0]), 0, whole=False))
            c["payload"] = embed(n, per * (vi % 2), blob).hex()
    # ---- F8: a CONFIRMED block whose image on air (serial number 0, its CRC-9, data) starts with a well-formed PDU
    for rate in RATES:
        per, last = TABLE[(rate, True)]
        for target in ("header", "lc", "terminator") if thorough else (("header", "lc", "terminator")[RATES.index(rate)], "header"):
            data = confirmed_onair_pdu(rng, rate, target)
            if data is None:
                ctx.count("class:pdu:confirmed-on-air:unsolved")
                continue
            nb = rng.choice((2, 3))
            j = rng.randrange(nb - 1)
            emit("confirmed-on-air", f"{target} ({rate}, block {j} of {nb})", rate, True, embed(length_for(rate, True, nb, rng.choice((0, 1))), j * per, data))
    return out


# ------------------------------------------------------------------------------------------------
# round 6 generators: header fields x generator arguments x payload lengths on the block grid x payload content
# ------------------------------------------------------------------------------------------------
CONTENT_KINDS = ("random", "zeros", "ones", "constant", "period-block", "period-other-block", "period-2", "period-3", "ramp", "zero-blocks-then-random")
K_CROSS = (0, 1, 2, 3, 16, 17, 33, 100, "max", "max+1")


def content_payload(rng, kind, n, per, per_other):
    """n payload octets: constant / repeating with the block size (of this mode, of the other mode) / zero stretches —
    on air neighbouring blocks then carry the same octets"""
    if kind == "zeros":
        return bytes(n)
    if kind == "ones":
        return b"\xff" * n
    if kind == "constant":
        return bytes([rng.randrange(1, 255)]) * n
    if kind.startswith("period"):
        q = {"period-block": per, "period-other-block": per_other, "period-2": 2, "period-3": 3}[kind]
        unit = rbytes(rng, q)
        return (unit * (n // q + 1))[:n]
    if kind == "ramp":
        return bytes((i * 37 + 11) & 0xFF for i in range(n))
    if kind == "zero-blocks-then-random":
        z = min(n, 2 * per)
        return bytes(z) + rbytes(rng, n - z)
    return rbytes(rng, n)


def grid_lengths(rng, per, last, ms):
    """payload lengths one below / at / one above every place where the number of blocks or the pad count turns over:
    m full blocks + the last block (pad 0 -> per - 1) and m full blocks exactly"""
    out = set()
    for m in ms:
        for d in (-1, 0, 1):
            out |= {m * per + last + d, m * per + d}
    return sorted(x for x in out if 0 <= x <= 126 * per + last)


def spec_of(rng, fmt, a, btf="right", poc="right"):
    return {"fmt": fmt, "a": int(a), "btf": btf, "poc": poc, "group": rng.randrange(2), "sap": rng.choice(SAP_VALUES), "fmf": rng.randrange(2),
            "dst": rng.choice(ADDRESSES) if rng.random() < 0.3 else rng.randrange(1 << 24), "src": rng.choice(ADDRESSES) if rng.random() < 0.3 else rng.randrange(1 << 24),
            "fsn": rng.randrange(16), "resync": rng.randrange(2), "ns": rng.randrange(8), "a_as_int": rng.randrange(2), "x": rng.getrandbits(12)}


def cross_case(rng, idx, rate, spec, n, k, content="random", cc=None):
    a = bool(spec["a"])
    per, last = TABLE[(rate, a)]
    nb = int_blocks(per, last, n)
    if k == "max":
        k = 255 - nb
    elif k == "max+1":
        k = 256 - nb
    c = {"rate": rate, "confirmed": a, "k": k, "cc": rng.randrange(16) if cc is None else cc,
         "payload": content_payload(rng, content, n, per, TABLE[(rate, not a)][0]).hex(),
         "sap": spec["sap"], "dst": spec["dst"], "src": spec["src"], "slot": 1 + idx % 2,
         "raises": [[True, False], [False], [False, True]][idx % 3], "hdr": spec}
    if spec.get("sap") == 3 and idx % 4 == 0:
        c["header_from_bits"] = True
    return c


def header_cross_cases(ctx, rng):
    """[(desc, case, count key)]: the data packet format, the A bit, the announced number of blocks, the preset pad count,
    SAP, flags and addresses of the caller's header and the generator's own arguments, each on its own"""
    out = []
    idx = [0]
    thorough = ctx.thorough()

    def emit(fam, rate, spec, n, k, content="random"):
        lim = BTF_LIMIT[spec["fmt"]] if spec["fmt"] != "udt" else 127
        per, last = TABLE[(rate, bool(spec["a"]))]
        while int_blocks(per, last, n) + 1 > lim and n > 0:  # the format's block count field must hold N (and the estimate N + 1)
            n = max(0, n - per * (int_blocks(per, last, n) + 1 - lim))
        c = cross_case(rng, idx[0], rate, spec, n, k, content)
        idx[0] += 1
        out.append((f"hdr:{fam} ({spec['fmt']} A={spec['a']} btf={spec['btf']} poc={spec['poc']} {rate} k={c['k']} len={n} {content})", c,
                    f"class:hdr:{fam}:{spec['fmt']}:A{spec['a']}"))
        return c

    def length(rate, a, nb, pad):
        per, last = TABLE[(rate, a)]
        return max(0, (nb - 1) * per + last - (pad if nb > 1 else min(pad, last)))

    # ---- (1) format x A bit x rate x announced block count x who tells the receiver the count (header alone / a preamble)
    btfs = BTF_MODES if thorough else ("right",) + tuple(rng.sample(BTF_MODES[1:], 3))
    turn = 0
    for fmt in HDR_FMTS:
        for a in (0, 1):
            for rate in RATES:
                for btf in btfs:
                    for kc in ((0, 1, 3, 16) if thorough else (0, rng.choice((1, 2, 3, 16)))):
                        for nb in ((1, 2, 3, 5) if thorough else ((1, 2, 3, 5, 2, 4)[turn % 6],)):
                            turn += 1
                            pad = (0, 1, 4, 0, 7)[turn % 5]
                            if fmt not in POC_ON_AIR and turn % 2:
                                pad = 0  # these headers have no pad octet count on air: payloads that fill the blocks, and some that do not
                            emit("format-x-A-x-count", rate, spec_of(rng, fmt, a, btf=btf), length(rate, bool(a), nb, pad), kc,
                                 CONTENT_KINDS[turn % len(CONTENT_KINDS)] if turn % 3 == 0 else "random")
    # ---- (2) the preset pad octet count: the generator's, the other mode's, off by one, 0, 31 — and lengths at which both
    # modes need the SAME pad count (there a generator that takes the mode from elsewhere is refused by nothing)
    for rate in RATES:
        same = [n for n in range(0, 6 * TABLE[(rate, False)][0])
                if (int_blocks(*TABLE[(rate, True)], n) - 1) * TABLE[(rate, True)][0] + TABLE[(rate, True)][1]
                == (int_blocks(*TABLE[(rate, False)], n) - 1) * TABLE[(rate, False)][0] + TABLE[(rate, False)][1]]
        for fmt in HDR_FMTS:
            for a in (0, 1):
                for n in (same if thorough else rng.sample(same, min(3, len(same)))):
                    emit("same-pad-in-both-modes", rate, spec_of(rng, fmt, a), n, rng.choice((0, 1, 2)))
                for pm in POC_MODES[1:]:
                    for nb in ((1, 2, 4) if thorough else (rng.choice((1, 2, 4)),)):
                        emit("pad-preset", rate, spec_of(rng, fmt, a, poc=pm, btf=rng.choice(("right", "right", "zero"))),
                             length(rate, bool(a), nb, rng.choice((0, 1, 3, 5))), rng.choice((0, 1, 3)))
    # ---- (3) preamble counts beyond the usual ones (the CSBK field has 8 bits), colour codes, with every format
    for ki, k in enumerate(K_CROSS):
        for rate in RATES:
            for a in (0, 1):
                fmt = HDR_FMTS[(ki + a + RATES.index(rate)) % len(HDR_FMTS)]
                if not thorough and k in (33, 100, "max", "max+1") and (ki + a + RATES.index(rate)) % 3:
                    continue
                emit("preamble-count", rate, spec_of(rng, fmt, a, btf=rng.choice(("right", "right", "plus1"))), length(rate, bool(a), rng.choice((1, 2, 3)), rng.choice((0, 2))), k)
    # ---- (4) every factor drawn on its own
    for _ in range(ctx.budget(260, 5000)):
        rate, a = rng.choice(RATES), rng.randrange(2)
        spec = spec_of(rng, rng.choice(HDR_FMTS), a, btf=rng.choice(BTF_MODES + ("right",) * 4), poc=rng.choice(POC_MODES + ("right",) * 8))
        per, last = TABLE[(rate, bool(a))]
        n = rng.choice(grid_lengths(rng, per, last, (0, 1, 2, rng.randrange(3, 9))))
        emit("all-factors", rate, spec, n, rng.choice((0, 0, 1, 1, 2, 3, 5, 16, 17, 40)), rng.choice(CONTENT_KINDS + ("random",) * 6))
    return out


def grid_content_cases(ctx, rng):
    """[(desc, case, count key)] with the usual (coupled) header: payload lengths around every multiple of the block size up
    to the 127-block limit (seed-rotated share in quick), and constant / periodic / zero payload content at grid lengths"""
    out = []
    idx = 0
    thorough = ctx.thorough()
    for rate in RATES:
        for confirmed in (True, False):
            per, last = TABLE[(rate, confirmed)]
            ms = range(0, 127) if thorough else sorted({3, 4, 6, 7, 125, 126} | set(rng.sample(range(8, 125), 3)))
            for n in grid_lengths(rng, per, last, ms):
                c = make_case(rng, rate, confirmed, n, idx)
                if n > 20 * per:
                    c["k"] = (0, 1, 2, 16)[idx % 4]
                    c["wire_oracle"] = idx % 3 == 0
                out.append((f"grid (len {n} = {n // per} x {per} + {n % per}, {rate})", c, "class:length-grid"))
                idx += 1
            for kind in CONTENT_KINDS[1:]:
                for nb in ((2, 3, 5, 9) if thorough else (2 + idx % 2, 5)):
                    pad = (0, 1, per - 1)[idx % 3]
                    n = max(0, (nb - 1) * per + last - pad)
                    c = small_case(rng, rate, confirmed, content_payload(rng, kind, n, per, TABLE[(rate, not confirmed)][0]), idx)
                    out.append((f"content:{kind} ({nb} blocks, {rate})", c, f"class:content:{kind}"))
                    idx += 1
    return out


# ------------------------------------------------------------------------------------------------
# child interpreter with assert statements stripped (python -O)
# ------------------------------------------------------------------------------------------------
CHILD ="import sys; sys.path.insert(0, sys.argv[1]); from props import c07; c07.child_main()"


def child_main():
    real = sys.stdout
    cases = json.load(sys.stdin)
    try:
        assert False, "assert statements are executed"
        stripped = True
    except AssertionError:
        stripped = False
    res = {"optimize": sys.flags.optimize, "asserts_stripped": stripped, "results": []}
    for case in cases:
        c = dict(case)
        c["ambient"] = None if c.get("ambient") == "python-O" else c.get("ambient")
        try:
            lines, outs, fails, info = run_case(c)
        except BaseException as e:  # noqa
            fails, info = [("harness", f"run_case raised {impl_error(e)}: {str(e)[:200]}", None, None)], {"blocks": None}
        res["results"].append({"fails": fails, "blocks": info.get("blocks")})
    sys.stdout = real
    json.dump(res, real)
    real.flush()


class Child:
    """`python -O` running the oracle over a fixed sample, concurrently with the main run"""

    def __init__(self, cases):
        self.cases = cases
        self.out = tempfile.TemporaryFile("w+")
        self.err = tempfile.TemporaryFile("w+")
        harness = os.path.dirname(os.path.dirname(os.path.abspath(__file__)))
        self.proc = subprocess.Popen([sys.executable, "-O", "-c", CHILD, harness], stdin=subprocess.PIPE, stdout=self.out, stderr=self.err, text=True)
        try:
            self.proc.stdin.write(json.dumps(cases))
            self.proc.stdin.close()
        except BaseException:  # noqa: the child died early; collect() reports it
            pass

    def collect(self, timeout=600):
        """(result dict or None, problem text or None)"""
        try:
            rc = self.proc.wait(timeout=timeout)
        except subprocess.TimeoutExpired:
            self.proc.kill()
            return None, "timeout"
        if rc < 0:
            return None, "timeout"  # killed by a signal (memory pressure, operator): not evaluated, like a timeout
        self.out.seek(0)
        self.err.seek(0)
        text, err = self.out.read(), self.err.read()
        try:
            res = json.loads(text)
            if len(res["results"]) != len(self.cases):
                raise ValueError("result count")
            return res, None
        except BaseException:  # noqa
            return None, f"rc={rc} " + err[-600:]


CORPUS = [
    # 6db02eb: CRC-32 was handed to every block, every non-last confirmed block had an invalid CRC-9
    ("fixed:6db02eb confirmed 2 blocks r12", "r12", True, 11),
    ("fixed:6db02eb confirmed 3 blocks r34", "r34", True, 40),
    ("fixed:6db02eb confirmed 4 blocks r1", "r1", True, 70),
    ("fixed:6db02eb confirmed 5 blocks r12 zeros", "r12", True, 44),
    ("unconfirmed single block, empty payload", "r12", False, 0),
    ("test_construct_rate12 shape", "r12", False, 10),
]


def run(ctx):
    ctx.rule = (
        "corpus (confirmed transmissions of >= 2 blocks: regression of 6db02eb) first; then per (rate, mode) every payload length "
        "0..64 plus a seeded sample up to 1500 and the boundary lengths of the 7-bit block counter, the 127-block length with 0 / 1 / 16 "
        "preambles (quick) / every length 0..1500 (thorough); preamble count, colour code, time slot and observer configuration rotate "
        "through all values; payload bytes random (20 %: zeros / 0xFF / a ramp). Structured payload content, per (rate, mode) and block "
        "count: the octets before the payload end (every pad count class) / before every non-last block end / before all of them at once "
        "are a checksum of the octets before them in 21 conventions (library CRC-32 as sent on air, the same from an independent "
        "implementation, other octet / bit orders, zlib, CRC-CCITT, CRC-9 fields, near misses: one octet early / late, one bit off); "
        "payloads whose own CRC-32 / a block's CRC-9 is a sentinel (0, all ones, the payload's first octets; solved over GF(2)); "
        "payloads made of what the library delivered for an earlier transmission (data + CRC-32 alone, followed by more, twice, nested, "
        "in other rates / modes) or serialised (own header, preamble, blocks, bursts). Payload content that is itself a valid PDU of the "
        "protocol, for every rate / mode: runs of blocks that on air are confirmed blocks numbered k, k+1, … with a true CRC-9 (library-built "
        "and independently restated, wrap 127 -> 0, whole numbered transmissions whose last block is searched, other field orders / masks / "
        "near misses), the transmission's own header (solved through the payload length) and own preamble CSBKs at every block start, shifted, "
        "in the last block, as the image of the last block on air (CRC-32 solved), foreign headers / CSBKs / link control / whole bursts, rate 1 "
        "blocks that are FEC codewords of other PDUs, confirmed blocks whose image on air is a CRC-valid header / link control; the payload "
        "handed over as a BytesInterface object (wrapper, the own header object passed as userdata and as data_header, parsed PDU / burst objects); "
        "an earlier transmission on the same terminal and slot whose header / last block / payload this one quotes. Error-path probes (failing generator and receiver "
        "calls before the valid ones) and ambient variants (root logger at DEBUG with a formatting handler, sys.stdout that raises, "
        "global random reseeded before every call, a child python -O over a fixed sample) on a fixed share. A case is one generated "
        "transmission sent through serialise, parse and a real Terminal; distinct = distinct (rate, mode, k, colour code, payload, "
        "ambient, header specification). Over-long payloads (> 127 blocks) must fail cleanly when the header is built. Round 6: the caller's header built field by "
        "field — format (unconfirmed / confirmed / response / defined short data / UDT) x A bit x announced blocks (right, 0, +1, -1, 1, maximum) x "
        "preset pad count (right, the other mode's, +1, 0, 31) x SAP x group / full-message flag x addresses (incl. 0, 0xFFFFFF) — crossed with rate, "
        "preamble count (0..16, 17, 33, 100, 255 - N, 256 - N), colour code, lengths one below / at / above every multiple of the block size (+ last block) "
        "and constant / periodic (block size of this and of the other mode, 2, 3) / zero payloads; lengths at which both modes need the same pad count; "
        "every generated burst parsed back and all its integrity indicators required; a share of the small cases repeated with observer-style calls "
        "between the steps (seed-rotated half of repr / str / debug / getters / flags / as_bits of every object involved)."
    )
    ctx.trusted_base += [
        "Lean 4.33 kernel",
        "tools/extract_tracker.py (table literals of generate_data_bursts located in its AST and evaluated; enum values, resolve() graphs and typed-parse layouts by calling the library)",
        "hand-written model of the generator arithmetic (Model/Fragment.lean) and of the receiver (Model/Tracker.lean), tied to the code by this run's correspondence",
        "per-burst channel: the abstraction of parse(serialise(b)) equals the abstraction of b — this is C01 (with C02/C10/C03); here it is checked on every generated burst by the frag.full comparison, not proved",
        "CRC-32 and CRC-9 are abstract functions in the theorem (C05); the oracle recomputes them with the library's CRC32 / CRC9 and with an independent bitwise implementation in harness/props/c07.py",
        "IEEE-754: Python's ceil(1 + (len - last) / per) equals the integer ceiling for len < 2^50 (|q| < 2^47, each of the two roundings is off by < 2^-6, "
        "a non-integer quotient is >= 1/24 away from an integer); cross-checked on sampled lengths up to 2^50 in every run",
    ]
    ctx.assumptions += [
        "the caller supplies a header with pad_octet_count = the generator's pad count, blocks_to_follow = number of data blocks (<= 127), A bit = confirmed mode "
        "(the receiver side of the property is judged in full when the header or a preamble announces the right number of blocks; for other headers the unchanged "
        "generator accepts — announced blocks 0 / an estimate / none (UDT) without preamble — the reference is the model and the bursts on the wire)",
        "confirmed / unconfirmed is the header's A bit (generator and receiver of the unchanged tree, and the model), whatever the data packet format says; for "
        "header formats without a pad octet count on air the announced pad is the attribute of the header object handed in",
        "payload length < 2^50",
        "payload is a bytes object or an object with as_bytes() (the generator rejects bytearray / memoryview on the unchanged tree); single-threaded use",
    ]
    c08.lib()  # import the library before any worker is forked
    rng = ctx.rng
    pairs = []
    idx = 0
    jobs = []

    def add(desc, case, sample=False, key=None):
        jobs.append({"desc": desc, "case": case, "sample": sample, "key": key})

    for desc, rate, confirmed, n in CORPUS:
        for k in (0, 1, 16):
            case = make_case(rng, rate, confirmed, n, idx)
            case["k"] = k
            if "zeros" in desc:
                case["payload"] = bytes(n).hex()
            add(desc, case, sample=k == 1)
            idx += 1
        ctx.count("corpus")
    # ---- structured payload content (fixed share; not multiplied by the boost beyond the sampled conventions)
    structured = structured_cases(ctx, rng)
    for desc, case, key in structured:
        add(desc, case, sample=desc == "selfref:block-end:lib32-onair" and case["rate"] == "r34" and case["k"] == 0, key=key)
    # ---- payload content that is itself a valid PDU / burst of the protocol (fixed share, not boosted)
    sampled = set()
    for desc, case, key in pdu_cases(ctx, rng):
        fam = desc.split(":")[1]
        add(desc, case, sample=fam in ("numbered-run", "own-header") and fam not in sampled, key=key)
        sampled.add(fam)
    # ---- round 6: header fields and generator arguments crossed; lengths on the block grid; constant / periodic content
    for desc, case, key in header_cross_cases(ctx, rng):
        add(desc, case, sample=desc.startswith("hdr:format-x-A-x-count (confirmed A=0 btf=right") and case["k"] == 0 and "hdr-sample" not in sampled, key=key)
        if jobs[-1]["sample"]:
            sampled.add("hdr-sample")
    for desc, case, key in grid_content_cases(ctx, rng):
        add(desc, case, key=key)
    # ---- payloads derived from what the library delivered / serialised (built in the workers)
    dsizes = (1, 2, 3, 4, 6, 9) if ctx.thorough() else (1, 2, 4)
    for rate in RATES:
        for confirmed in (True, False):
            per, last = TABLE[(rate, confirmed)]
            for nb in dsizes:
                n = (nb - 1) * per + last - rng.choice((0, 0, 1, 5, per - 1))
                base = small_case(rng, rate, confirmed, rbytes(rng, max(0, n)), idx, k=rng.choice((1, 2, 3)))
                jobs.append({"desc": "derived:base", "case": base, "sample": False, "key": "class:derived:base", "derive": True, "seed": rng.getrandbits(48)})
                idx += 1
    # ---- lengths
    for rate in RATES:
        for confirmed in (True, False):
            per, last = TABLE[(rate, confirmed)]
            edge = 126 * per + last
            if ctx.thorough():
                lens = list(range(0, 1501)) + [x for x in (edge - 1, edge, edge + 1, edge + per, edge + per + 1) if x > 1500]
            else:
                lens = set(range(0, 65))
                lens |= {rng.randrange(65, 1501) for _ in range(ctx.budget(30, 30))}
                # boundaries of the 7-bit block counter and of the block grid
                lens |= {edge - 1, edge, edge + 1, edge + per, edge + per + 1, 1500}
                lens |= {m * per + last + d for m in (1, 2, 5) for d in (-1, 0, 1)}
                lens = sorted(lens)
            for n in lens:
                add("sweep", make_case(rng, rate, confirmed, n, idx), sample=(n == 33 and rate == "r34"))
                idx += 1
            # the largest packet a header can announce (127 blocks), opened by the header itself / by one / by 16 preambles
            for n, k in ((edge, 0), (edge, 1), (edge - per + 1, 16), (edge - per + 1, 0)) if edge <= 1500 else ((edge, (idx // 2) % 2),):
                case = make_case(rng, rate, confirmed, n, idx)
                case["k"] = k
                add("127 blocks", case, key="class:127-blocks")
                idx += 1
    # extra random (k, cc, payload) combinations at small lengths
    for _ in range(ctx.budget(200, 2000)):
        rate, confirmed = rng.choice(RATES), bool(rng.randrange(2))
        add("random", make_case(rng, rate, confirmed, rng.choice([0, 1, 5, 6, 7, 12, 13, 30, rng.randrange(200)]), rng.randrange(10 ** 6)))
    # ---- error-path probes, the callee's defaults, ambient variants: copies of a fixed share of the small cases
    small = [j for j in jobs if not j.get("derive") and len(j["case"]["payload"]) <= 2 * 160]
    step = 5 if ctx.thorough() else 16
    extra = []
    for i, j in enumerate(small[::step]):
        mode = AMBIENTS[i % len(AMBIENTS)]
        c = dict(j["case"], ambient=mode)
        if mode.startswith("stdout") or mode == "all":
            c["sap"] = 3  # the receiver prints its UDP/IPv4 diagnostic for SAP 3 and >= 5 octets
        extra.append({"desc": j["desc"] + f" [ambient {mode}]", "case": c, "sample": i == 4, "key": f"class:ambient:{mode}"})
    for i, j in enumerate(small[4::step + 7]):
        c = dict(j["case"], provoke=True)
        extra.append({"desc": j["desc"] + " [after failing calls]", "case": c, "sample": i == 0, "key": "class:error-path-first"})
    for i, j in enumerate(small[2::3 * step]):
        if i % 2:
            c = dict(j["case"], k=3, cc=1, defaults=True)
            extra.append({"desc": j["desc"] + " [defaults]", "case": c, "sample": False, "key": "class:callee-defaults"})
        else:
            c = dict(j["case"], header_from_bits=True)
            extra.append({"desc": j["desc"] + " [parsed header]", "case": c, "sample": False, "key": "class:header-parsed-by-library"})
    # observer-style calls between the steps (repr / str / debug / getters / flags of every object involved): the outcome must
    # be the one without them; a fixed share of the small cases, the subset of calls rotates with the seed
    for i, j in enumerate(small[1::(4 if ctx.thorough() else 9)]):
        c = dict(j["case"], observe=rng.getrandbits(32))
        extra.append({"desc": j["desc"] + " [observer-style calls between the steps]", "case": c, "sample": i == 0, "key": "class:read-only-calls"})
    jobs += extra
    # ---- one child python -O over a fixed sample (first case: a failing call is the first call in that process)
    # (a header with a wrong pad octet count is refused by an assert: not under -O)
    pick = [j for j in jobs if not j.get("derive") and len(j["case"]["payload"]) <= 2 * 120 and (j["case"].get("hdr") or {}).get("poc", "right") == "right"
            and j["case"].get("observe") is None]
    per_child = 800 if ctx.thorough() else 240
    sel = [j for j in pick if j["desc"].startswith(("fixed:", "selfref:block-end:lib32", "selfref:payload-end:lib32", "selfref:every"))][:per_child // 2]
    chosen_ids = {id(j) for j in sel}
    rest = [j for j in pick if id(j) not in chosen_ids]
    sel += rest[:: max(1, len(rest) // (per_child - len(sel)))][: per_child - len(sel)]
    child_cases = [dict(j["case"], ambient="python-O") for j in sel]
    if child_cases:
        child_cases[0]["provoke"] = True
    child = None
    try:
        child = Child(child_cases)
    except BaseException as e:  # noqa
        ctx.notes.append(f"python -O child could not be started: {impl_error(e)}")

    for job, results in zip(jobs, c08.pmap(job_run, jobs, c08.workers())):
        for n_res, (desc, case, lines, outs, fails, info) in enumerate(results):
            sample = job["sample"] and n_res == 0
            ctx.case((case["rate"], case["confirmed"], case["k"], case["cc"], case["payload"], case.get("ambient"), bool(case.get("provoke")), bool(case.get("defaults")), bool(case.get("header_from_bits")),
                      case.get("userdata_as"), json.dumps(case.get("prelude"), sort_keys=True) if case.get("prelude") else None,
                      json.dumps(case.get("hdr"), sort_keys=True) if case.get("hdr") else None, case.get("observe")),
                     nontrivial=True,
                     sample={"case": desc, "rate": case["rate"], "confirmed": case["confirmed"], "k": case["k"], "len": len(case["payload"]) // 2,
                             "blocks": info["blocks"], "events": outs[-2].split(" ", 4)[-1][:160] if len(outs) > 3 else outs[-1:]} if sample else None)
            ctx.count(f"{case['rate']}:{'confirmed' if case['confirmed'] else 'unconfirmed'}")
            ctx.count("overlong" if info["overlong"] else f"k:{case['k']}")
            if job.get("derive"):
                ctx.count("class:" + desc.split(" (")[0])
            elif job.get("key"):
                ctx.count(job["key"])
            if info.get("hdr"):
                h = info["hdr"]
                ctx.count(f"hdr:{h[0]}:A{h[1]}")
                ctx.count(f"hdr:poc:{h[2]}")
                ctx.count(f"hdr:btf:{h[3]}" + (":by-model-only" if info.get("by_model_only") else ""))
            if info.get("wire_oracle"):
                ctx.count("class:wire-indicators")
            if info["blocks"]:
                ctx.count("blocks:" + ("1" if info["blocks"] == 1 else "2" if info["blocks"] == 2 else "3-9" if info["blocks"] < 10 else "10-127" if info["blocks"] <= 127 else ">127"))
            for kind, what, exp, act in fails:
                ctx.fail(kind, case, f"{what} [{desc}]", expected=exp, actual=act)
            pairs.extend(zip(lines, outs))
        if len(pairs) > 30000:
            flush(ctx, pairs)
    flush(ctx, pairs)
    # ---- the child's verdicts
    if child is not None:
        res, problem = child.collect()
        if res is None:
            if problem == "timeout":
                ctx.notes.append("python -O child did not finish in time or was killed (not evaluated)")
                ctx.count("class:python-O:timeout")
            else:
                # the interpreter with asserts stripped cannot even run the sample: the receiver path fails there
                ctx.fail("python-O", {"ambient": "python-O", "cases": len(child_cases)}, "the child `python -O` running the oracle on a sample did not produce results", expected="results", actual=problem)
        else:
            ctx.count("class:ambient:python-O" + ("" if res.get("asserts_stripped") else ":asserts-not-stripped"), len(child_cases))
            for case, r in zip(child_cases, res["results"]):
                ctx.case((case["rate"], case["confirmed"], case["k"], case["cc"], case["payload"], "python-O"), nontrivial=True)
                for kind, what, exp, act in r["fails"]:
                    ctx.fail(kind, case, f"{what} [python -O]", expected=exp, actual=act)
    # ---- arithmetic only: the model's block / pad count against Python's float formula, far beyond 1500
    arith = []
    for rate in RATES:
        for confirmed in (True, False):
            per, last = TABLE[(rate, confirmed)]
            ns = set(range(0, 200)) | {rng.randrange(1 << e) for e in range(8, 51) for _ in range(ctx.budget(3, 30))}
            ns |= {m * per + last + d for e in range(4, 47) for m in (1 << e, (1 << e) + 1, rng.randrange(1 << e, 2 << e)) for d in (-1, 0, 1)}
            for n in sorted(ns):
                py = ceil(1 + ((n - last) / per))  # the expression of generate_data_bursts
                it = int_blocks(per, last, n)
                ctx.case(("arith", rate, confirmed, n), nontrivial=n > 0)
                if py != it:
                    ctx.fail("float-ceiling", {"rate": rate, "confirmed": confirmed, "len": n}, "Python's float ceiling differs from the integer ceiling below 2^50", expected=it, actual=py)
                arith.append((f"frag.count {rate} {int(confirmed)} {n}", f"{py} {(py - 1) * per + last - n}"))
            ctx.count("arith", len(ns))
    if not ctx.search_only and ctx.driver_ok:
        ctx.correspond("numBlocks", arith)
    ctx.exhaustive = ctx.thorough()


def flush(ctx, pairs):
    if pairs and not ctx.search_only and ctx.driver_ok:
        # the tracker lines are stateful per case (every case starts with t.init), the frag.* lines are stateless
        ctx.correspond("generator+receiver", pairs)
    pairs.clear()


def replay(obj):
    f = obj.get("failure") or {}
    case = f.get("input") or {}
    print(json.dumps(obj.get("type")), f.get("what"))
    if "payload" not in case:
        print(json.dumps(obj, indent=1)[:4000])
        return 1
    if case.get("ambient") == "python-O":
        res, problem = Child([case]).collect()
        print("child python -O:", problem or json.dumps(res)[:3000])
        if res is not None:
            for kind, what, exp, act in res["results"][0]["fails"]:
                print(f"PROPERTY FAILS under python -O [{kind}] {what}: expected {exp} actual {act}")
            return 1 if res["results"][0]["fails"] else 0
        return 1
    lines, outs, fails, info = run_observed(case)
    model = None
    try:
        import common

        model = common.Ctx(PROP, "quick", 0).drive(lines)
    except BaseException as e:  # noqa
        print("model driver not available:", e)
    for i, (ln, o) in enumerate(zip(lines, outs)):
        print(f"{ln[:120]}\n   implementation: {o[:300]}")
        if model:
            print(f"   model         : {model[i][:300]}")
    for kind, what, exp, act in fails:
        print(f"PROPERTY FAILS [{kind}] {what}: expected {exp} actual {act}")
    print("expected:", f.get("expected"), "actual:", f.get("actual"))
    return 1 if fails else 0
