"""C14 — MBXML variable-length integers and floats decode to what was encoded (DESIGN §5 C14).

Correspondence: every writer / reader / XML-view formula of okdmr.dmrlib.motorola.mbxml against the Lean
model (Model/Mbxml.lean) through drv_c14.  Oracle (property as stated, on the real code only): read(write(v))
returns v and consumes exactly the written octets with arbitrary octets before and after; the written
octets satisfy an independently coded canonical-shortest-form predicate; float writers round-trip every
grid value i + f/128^p; latitude / longitude / info-time go through the real `as_xml`.
"""
import datetime
import json
import logging
import math
import re
from decimal import Decimal

from common import impl_error

PROP = "C14"
MODULES = ["C14"]
GEN = ["Mbxml"]
MATCHERS = {}

U_MAX = 2**32 - 1
S_MAX = 2**31 - 1


def _mbxml():
    from okdmr.dmrlib.motorola.mbxml import MBXML

    return MBXML


def call(fn, *a, **kw):
    try:
        return fn(*a, **kw)
    except BaseException as e:  # noqa
        return impl_error(e)


def hx(b) -> str:
    if isinstance(b, str):
        return b
    return b.hex() if len(b) else "-"


# ---------------------------------------------------------------- independent reference predicates
def septets_value(b: bytes) -> int:
    v = 0
    for x in b:
        v = v * 128 + (x & 0x7F)
    return v


def flags_ok(b: bytes) -> bool:
    return len(b) >= 1 and all(x & 0x80 for x in b[:-1]) and not (b[-1] & 0x80)


def canon_u(b: bytes, v: int):
    """None if b is the canonical shortest unsigned form of v, else what is wrong"""
    if not flags_ok(b):
        return "continuation bits"
    if len(b) != max(1, (v.bit_length() + 6) // 7):
        return "not the shortest length"
    if len(b) > 1 and b[0] == 0x80:
        return "leading 0x80 septet"
    if septets_value(b) != v:
        return "septets do not spell the value"
    return None


def canon_s(b: bytes, v: int, neg: bool):
    if not flags_ok(b):
        return "continuation bits"
    m = abs(v)
    if len(b) != max(1, (m.bit_length() + 1 + 6) // 7):
        return "not the shortest length"
    if bool(b[0] & 0x40) != neg:
        return "sign bit"
    mag = b[0] & 0x3F
    for x in b[1:]:
        mag = mag * 128 + (x & 0x7F)
    if mag != m:
        return "septets do not spell the magnitude"
    return None


def frac_len(f: int, p: int) -> int:
    """septets of the fraction f/128^p without trailing zero septets (at least one)"""
    k = p
    while k > 1 and f % 128 == 0:
        f //= 128
        k -= 1
    return k


def dyadic(x: float):
    """(neg, num, exp) with x = ± num / 2^exp exactly"""
    n, d = abs(x).as_integer_ratio()
    return (math.copysign(1.0, x) < 0, n, d.bit_length() - 1)


def fstr(x, nxt) -> str:
    """canonical text of a float result: reduced dyadic and the new index"""
    if isinstance(x, str):
        return x
    neg, n, e = dyadic(x)
    return f"{'-' if neg else ''}{n}/{e} {nxt}"


# ---------------------------------------------------------------- generators
def uint_values(ctx):
    corpus = [128, 256, 896, 16384, 16512, 2**21, 2**28, 0, 1, 127, 129, 255, U_MAX, U_MAX - 127]
    dense = range(0, 2**21 if ctx.thorough() else 2**14)
    bnd = set()
    for k in range(1, 5):
        for j in list(range(1, 128)) if k < 4 else list(range(1, 16)):
            for d in (-1, 0, 1):
                x = j * 128**k + d
                if 0 <= x <= U_MAX:
                    bnd.add(x)
    for k in range(1, 33):
        for d in (-1, 0, 1):
            x = 2**k + d
            if 0 <= x <= U_MAX:
                bnd.add(x)
    rnd = []
    for _ in range(ctx.budget(3000, 300000)):
        bl = ctx.rng.randrange(1, 33)
        rnd.append(ctx.rng.randrange(2 ** (bl - 1), 2**bl))
    return corpus, dense, sorted(bnd), rnd


def trail(ctx):
    r = ctx.rng.randrange(6)
    if r == 0:
        return b""
    if r == 1:
        return b"\x00"
    if r == 2:
        return b"\x80"
    if r == 3:
        return b"\xff\xff"
    return bytes(ctx.rng.randrange(256) for _ in range(ctx.rng.randrange(1, 4)))


def prefix(ctx):
    if ctx.rng.randrange(3):
        return b""
    return bytes(ctx.rng.randrange(256) for _ in range(ctx.rng.randrange(1, 4)))


# ---------------------------------------------------------------- components
def run_uint(ctx, M):
    corpus, dense, bnd, rnd = uint_values(ctx)
    pw, pr = [], []
    n = 0
    for src, vals in (("corpus", corpus), ("dense", dense), ("boundary", bnd), ("random", rnd)):
        for v in vals:
            n += 1
            w = call(M.write_uintvar, v)
            pw.append((f"uv.write {v}", hx(w)))
            ctx.case(("u", v), nontrivial=v != 0,
                     sample={"op": "write_uintvar/read_uintvar", "value": v, "octets": hx(w)} if v in (16384, 300) else None)
            if isinstance(w, str):
                ctx.fail("uintvar-write-raises", {"op": "uintvar", "value": v}, f"write_uintvar({v}) raised {w}")
                continue
            why = canon_u(w, v)
            if why:
                ctx.fail("uintvar-not-canonical", {"op": "uintvar", "value": v},
                         f"write_uintvar({v}) = {w.hex()} is not the canonical shortest form: {why}", actual=w.hex())
            pre, tr = prefix(ctx), trail(ctx)
            data = pre + w + tr
            r = call(M.read_uintvar, data, len(pre))
            pr.append((f"uv.read {hx(data)} {len(pre)}", r if isinstance(r, str) else f"{r[0]} {r[1]}"))
            if r != (v, len(pre) + len(w)):
                ctx.fail("uintvar-roundtrip", {"op": "uintvar", "value": v, "prefix": pre.hex(), "trail": tr.hex()},
                         f"read_uintvar(write_uintvar({v})) returned {r}", expected=[v, len(pre) + len(w)],
                         actual=r if isinstance(r, str) else list(r))
        ctx.count(f"uint:{src}", len(vals))
    # out of range / negative: the writer must reject (model: AssertionError)
    for v in (U_MAX + 1, U_MAX + 2, 2**40, -1, -128, -(2**31)):
        w = call(M.write_uintvar, v)
        pw.append((f"uv.write {v}", hx(w)))
        ctx.case(("u-range", v))
    if not ctx.search_only and ctx.driver_ok:
        ctx.correspond("write_uintvar", pw)
        ctx.correspond("read_uintvar", pr)


def run_sint(ctx, M):
    corpus = [64, -64, 8192, -8192, 65, -65, 127, -127, 128, -128, 63, -63, 0, 1, -1, S_MAX, -S_MAX, 2**20, -(2**20)]
    lim = 2**20 if ctx.thorough() else 2**13
    dense = range(-lim, lim + 1)
    bnd = set()
    for k in range(0, 5):
        for base in (64 * 128**k, 128**k, 63 * 128**k, 127 * 128**k):
            for d in (-1, 0, 1):
                x = base + d
                if 0 <= x <= S_MAX:
                    bnd.add(x)
                    bnd.add(-x)
    for k in range(1, 32):
        for d in (-1, 0, 1):
            x = 2**k + d
            if 0 <= x <= S_MAX:
                bnd.add(x)
                bnd.add(-x)
    rnd = []
    for _ in range(ctx.budget(3000, 300000)):
        bl = ctx.rng.randrange(1, 32)
        x = ctx.rng.randrange(2 ** (bl - 1), 2**bl)
        rnd.append(x if ctx.rng.randrange(2) else -x)
    pw, pr = [], []
    seen = {}
    for src, vals in (("corpus", corpus), ("dense", dense), ("boundary", sorted(bnd)), ("random", rnd)):
        for v in vals:
            w = call(M.write_sintvar, v)
            pw.append((f"sv.write {v} 0", hx(w)))
            ctx.case(("s", v), nontrivial=v != 0,
                     sample={"op": "write_sintvar/read_sintvar", "value": v, "octets": hx(w)} if v in (64, -8192) else None)
            if isinstance(w, str):
                ctx.fail("sintvar-write-raises", {"op": "sintvar", "value": v}, f"write_sintvar({v}) raised {w}")
                continue
            why = canon_s(w, v, v < 0)
            if why:
                ctx.fail("sintvar-not-canonical", {"op": "sintvar", "value": v},
                         f"write_sintvar({v}) = {w.hex()} is not the canonical shortest form: {why}", actual=w.hex())
            other = seen.setdefault(w, v)
            if other != v:
                ctx.fail("sintvar-collision", {"op": "sintvar", "value": v, "other": other},
                         f"write_sintvar({v}) and write_sintvar({other}) are both {w.hex()}", actual=w.hex())
            pre, tr = prefix(ctx), trail(ctx)
            data = pre + w + tr
            r = call(M.read_sintvar, data, len(pre))
            pr.append((f"sv.read {hx(data)} {len(pre)}", r if isinstance(r, str) else f"{r[0]} {r[1]} {r[2]}"))
            exp = (v, len(pre) + len(w), -1 if v < 0 else 1)
            if r != exp:
                ctx.fail("sintvar-roundtrip", {"op": "sintvar", "value": v, "prefix": pre.hex(), "trail": tr.hex()},
                         f"read_sintvar(write_sintvar({v})) returned {r}", expected=list(exp),
                         actual=r if isinstance(r, str) else list(r))
        ctx.count(f"sint:{src}", len(vals))
    # negative zero (used by the float writer) and the flag on other values; out of range
    w = call(M.write_sintvar, 0, True)
    pw.append(("sv.write 0 1", hx(w)))
    ctx.case(("s-negzero",))
    if not isinstance(w, str):
        r = call(M.read_sintvar, w + b"\x05", 0)
        pr.append((f"sv.read {hx(w + bytes([5]))} 0", r if isinstance(r, str) else f"{r[0]} {r[1]} {r[2]}"))
        if r != (0, len(w), -1):
            ctx.fail("sintvar-negative-zero", {"op": "negzero"}, f"negative zero read back as {r}", expected=[0, len(w), -1],
                     actual=r if isinstance(r, str) else list(r))
    else:
        ctx.fail("sintvar-write-raises", {"op": "negzero"}, f"write_sintvar(0, negative_zero=True) raised {w}")
    for v in (5, 64, 8192, -7):
        pw.append((f"sv.write {v} 1", hx(call(M.write_sintvar, v, True))))
    for v in (S_MAX + 1, -(S_MAX + 1), 2**40, -(2**40)):
        pw.append((f"sv.write {v} 0", hx(call(M.write_sintvar, v))))
        ctx.case(("s-range", v))
    if not ctx.search_only and ctx.driver_ok:
        ctx.correspond("write_sintvar", pw)
        ctx.correspond("read_sintvar", pr)


def run_random_reads(ctx, M):
    """malformed stream: arbitrary octets / indices through the four readers (value or IndexError)"""
    lines_u, lines_s, flo = [], [], []
    for _ in range(ctx.budget(3000, 100000)):
        n = ctx.rng.randrange(0, 9)
        mode = ctx.rng.randrange(3)
        if mode == 0:
            data = bytes(ctx.rng.randrange(256) for _ in range(n))
        elif mode == 1:  # long continuation chains
            data = bytes(ctx.rng.randrange(128, 256) for _ in range(n)) + bytes([ctx.rng.randrange(256)])
        else:
            data = bytes(ctx.rng.choice((0x00, 0x80, 0x40, 0xC0, 0x7F, 0xFF, 0x01, 0x81)) for _ in range(n))
        idx = ctx.rng.randrange(0, len(data) + 2)
        ctx.case(("rr", data, idx), nontrivial=len(data) > 0)
        r = call(M.read_uintvar, data, idx)
        lines_u.append((f"uv.read {hx(data)} {idx}", r if isinstance(r, str) else f"{r[0]} {r[1]}"))
        r = call(M.read_sintvar, data, idx)
        lines_s.append((f"sv.read {hx(data)} {idx}", r if isinstance(r, str) else f"{r[0]} {r[1]} {r[2]}"))
        for op, fn in (("uf.read", M.read_ufloatvar), ("sf.read", M.read_sfloatvar)):
            r = call(fn, data, idx)
            flo.append((f"{op} {hx(data)} {idx}", r))
        ctx.count("reads:random-octets")
    if not ctx.search_only and ctx.driver_ok:
        ctx.correspond("read_uintvar(random octets)", lines_u)
        ctx.correspond("read_sintvar(random octets)", lines_s)
        correspond_floats(ctx, "read_*floatvar(random octets)", flo)


def correspond_floats(ctx, component, items):
    """items: (line, impl result (float, idx) | 'ERR …').  The model prints the exact dyadic value; the
    double computed by the code equals it whenever it is representable (numerator of at most 53 bits);
    otherwise only the new index is compared (IEEE rounding is not modelled)."""
    outs = ctx.drive([l for l, _ in items])
    bad = 0
    for (line, impl), model in zip(items, outs):
        if isinstance(impl, str):
            same = impl == model
            shown = impl
        else:
            shown = fstr(impl[0], impl[1])
            mm = re.match(r"^(-?)(\d+)/(\d+) (\d+)$", model)
            if mm and int(mm.group(2)).bit_length() > 53:
                same = int(mm.group(4)) == impl[1]
                ctx.count("float:inexact-value-not-compared")
            else:
                same = shown == model
        if not same:
            bad += 1
            if len(ctx.disagreements) < 50:
                ctx.disagreements.append({"component": component, "line": line, "impl": shown, "model": model})
    ctx.count(f"corr:{component}", len(items))
    if bad:
        ctx.count(f"corr-diff:{component}", bad)


def float_grid(ctx, signed: bool):
    imax = S_MAX if signed else U_MAX
    ints = [0, 1, 5, 37, 63, 64, 65, 127, 128, 129, 160, 255, 256, 8191, 8192, 16383, 16384, 2**21, 2**28, S_MAX, imax]
    ints = sorted({i for i in ints if i <= imax})
    out = []
    # historically failing first
    out += [(1, 1, 2), (1, 127, 2), (0, 1, 3), (0, 1, 2), (128, 0, 1), (64, 10, 1), (0, 10, 1), (160, 983, 2), (160, 896, 2)]
    for p in (1, 2, 3):
        top = 128**p
        fs = {0, 1, 2, 63, 64, 127, top - 1, top // 2, top - 128 if p > 1 else 1}
        if p >= 2:
            fs |= {128, 129, 255, 256, 16256, 127 * 128, 128 * 5, top - 127}
        if p == 3:
            fs |= {16383, 16384, 16385, 128 * 128 * 127, 128 * 128 * 5 + 1, 128 * 128 * 5, 128 * 77, 2**20}
        if p == 1:
            fs |= set(range(128))
        elif p == 2 and ctx.thorough():
            fs |= set(range(16384))
        for _ in range(ctx.budget(60, 3000)):
            fs.add(ctx.rng.randrange(top))
        fs = sorted(f for f in fs if 0 <= f < top)
        dense_ints = ints if (p == 1 or not ctx.thorough()) else ints
        for f in fs:
            # every fraction with a few integer parts; every integer part with the boundary fractions
            pick = dense_ints if (f < 3 or f in (127, 128, top - 1, top // 2) or p == 1) else [
                dense_ints[ctx.rng.randrange(len(dense_ints))] for _ in range(2)]
            for i in pick:
                out.append((i, f, p))
    return out


def run_floats(ctx, M):
    wl, rl = [], []
    for signed in (False, True):
        wfn = M.write_sfloatvar if signed else M.write_ufloatvar
        rfn = M.read_sfloatvar if signed else M.read_ufloatvar
        name = "sfloatvar" if signed else "ufloatvar"
        for (i, f, p) in float_grid(ctx, signed):
            for sgn in ((1, -1) if signed else (1,)):
                value = sgn * (i + f / 128**p)
                if signed and sgn < 0 and i == 0 and f == 0:
                    value = -0.0
                neg, num, exp = dyadic(value)
                w = call(wfn, value, p)
                wl.append((f"sf.write {1 if neg else 0} {num} {exp} {p}" if signed else f"uf.write {num} {exp} {p}", hx(w)))
                ctx.case((name, i, f, p, sgn), nontrivial=(i, f) != (0, 0),
                         sample={"op": f"write_{name}/read_{name}", "value": value, "precision": p, "octets": hx(w)}
                         if (i, f, p) in ((1, 1, 2), (0, 10, 1)) else None)
                ctx.count(f"float:{name}:p={p}")
                if sgn < 0 and i == 0 and f != 0:
                    ctx.count("float:negative-fraction-zero-integer")
                inp = {"op": name, "int": i, "frac": f, "precision": p, "sign": sgn}
                if isinstance(w, str):
                    ctx.fail("float-write-raises", inp, f"write_{name}({value!r}, {p}) raised {w}")
                    continue
                tr = trail(ctx)
                r = call(rfn, w + tr, 0)
                rl.append((f"{'sf' if signed else 'uf'}.read {hx(w + tr)} 0", r))
                if isinstance(r, str) or r[0] != value or r[1] != len(w) or (
                        value != 0 and math.copysign(1, r[0]) != math.copysign(1, value)):
                    ctx.fail("float-roundtrip", inp, f"read_{name}(write_{name}({value!r}, {p})) returned {r}",
                             expected=[value, len(w)], actual=r if isinstance(r, str) else list(r))
                ilen = len(call(M.write_sintvar, sgn * i, value < 0)) if signed else len(call(M.write_uintvar, i))
                if len(w) != ilen + frac_len(f, p):
                    ctx.fail("float-not-canonical", inp,
                             f"write_{name}({value!r}, {p}) = {w.hex()}: fraction is not {frac_len(f, p)} septet(s)",
                             expected=ilen + frac_len(f, p), actual=len(w))
        # arbitrary doubles (not on the grid): the writers' exact arithmetic, correspondence only
        for _ in range(ctx.budget(1500, 60000)):
            k = ctx.rng.randrange(-12, 34 if not signed else 33)
            value = ctx.rng.random() * 2.0**k
            if ctx.rng.randrange(8) == 0:
                value = float(ctx.rng.randrange(0, 2**20)) / 2 ** ctx.rng.randrange(0, 30)
            if signed and ctx.rng.randrange(2):
                value = -value
            p = ctx.rng.choice((1, 1, 2, 3, 4, 0))
            neg, num, exp = dyadic(value)
            w = call(wfn, value, p)
            wl.append((f"sf.write {1 if neg else 0} {num} {exp} {p}" if signed else f"uf.write {num} {exp} {p}", hx(w)))
            ctx.case((name, "double", value, p))
            ctx.count(f"float:{name}:arbitrary-double")
            if not isinstance(w, str):
                r = call(rfn, w, 0)
                rl.append((f"{'sf' if signed else 'uf'}.read {hx(w)} 0", r))
                # what is written is never further than one unit of the last fraction septet below |value|
                if isinstance(r, str) or not (0 <= abs(value) - abs(r[0]) <= 128.0**-p) or r[1] != len(w):
                    ctx.fail("float-truncation", {"op": name, "value": value.hex(), "precision": p},
                             f"write_{name}({value!r}, {p}) read back as {r}: not the value truncated to {p} septet(s)",
                             expected=value, actual=r if isinstance(r, str) else list(r))
    for d, p in ((0, 1), (0, 3), (128, 2), (128 * 128, 3), (1, 3), (127, 1), (16383, 2), (5 * 128, 2)):
        wl.append((f"fr.write {d} {p}", hx(call(M.write_fraction, d, p))))
    if not ctx.search_only and ctx.driver_ok:
        ctx.correspond("write_*floatvar", wl)
        correspond_floats(ctx, "read_*floatvar", rl)


# ---------------------------------------------------------------- XML view (real as_xml)
def xml_of(token_name, value):
    from okdmr.dmrlib.motorola.lrrp import LRRP
    from okdmr.dmrlib.motorola.mbxml import MBXMLDocumentIdentifier

    doc = LRRP(document_id=MBXMLDocumentIdentifier.LRRP_ImmediateLocationReport_NCDT)
    doc.parts.append(doc.get_token(name=token_name, value=value, attributes={}, is_request=False))
    return doc.as_xml()


def xml_latlon(lat: bytes, lon: bytes):
    x = call(xml_of, "point-2d", (lat, lon))
    if x.startswith("ERR "):
        return x, x
    a = re.search(r"<lat>([^<]*)</lat>", x)
    b = re.search(r"<long>([^<]*)</long>", x)
    return (a.group(1) if a else "ERR nolat"), (b.group(1) if b else "ERR nolong")


def micro(text: str) -> str:
    if text.startswith("ERR"):
        return text
    d = Decimal(text) * 1000000
    return str(int(d)) if d == int(d) else f"NOT-6-DECIMALS {text}"


def run_latlon(ctx, M):
    lat_ms = [12345345, 90000000, 0, 1, 89999999, 45000000, 351562, 351563]
    lon_ms = [24668866, 0, 1, 359999999, 180000000, 179999999, 703125]
    for j in range(0, 513):
        for d in (-1, 0, 1):
            x = j * 703125 + d
            if 0 <= x <= 90000000:
                lat_ms.append(x)
            if 0 <= x < 360000000:
                lon_ms.append(x)
    for _ in range(ctx.budget(1500, 120000)):
        lat_ms.append(ctx.rng.randrange(0, 90000001))
        lon_ms.append(ctx.rng.randrange(0, 360000000))
    wl, dl = [], []
    zero4 = bytes(4)
    for which, ms, wfn in (("lat", lat_ms, M.write_latitude), ("lon", lon_ms, M.write_longitude)):
        for m in ms:
            x = m / 1e6
            b = call(wfn, x)
            wl.append((f"{which}.write {m}", hx(b)))
            ctx.case((which, m), nontrivial=m != 0,
                     sample={"op": f"write_{'latitude' if which == 'lat' else 'longitude'} + as_xml", "degrees": x, "octets": hx(b)}
                     if m in (12345345, 24668866) else None)
            ctx.count(f"{which}:values")
            inp = {"op": which, "microdegrees": m}
            if isinstance(b, str):
                ctx.fail("latlon-write-raises", inp, f"write_{which}({x!r}) raised {b}")
                continue
            la, lo = xml_latlon(b, zero4) if which == "lat" else xml_latlon(zero4, b)
            text = la if which == "lat" else lo
            dl.append((f"{which}.decode {b.hex()}", micro(text)))
            ok = (not text.startswith("ERR")) and float(text) == x and text == str(x)
            if not ok:
                ctx.fail("latlon-roundtrip", inp, f"XML view of write_{which}({x!r}) shows {text}", expected=str(x), actual=text)
        # outside the domain: negative / too large values must raise (model: OverflowError), never wrap
        for m in ((-1, -1000000, -90000000, 180000000, 200000000) if which == "lat" else (-1, -180000000, 360000000, 400000000)):
            b = call(wfn, m / 1e6)
            wl.append((f"{which}.write {m}", hx(b)))
            ctx.case((which, "out", m))
    # the decoding formulas on arbitrary octets (ties the model's rounding to Python's round(x, 6))
    for _ in range(ctx.budget(600, 40000)):
        a = ctx.rng.randrange(2**32).to_bytes(4, "big")
        b = ctx.rng.randrange(2**32).to_bytes(4, "big")
        if ctx.rng.randrange(4) == 0:  # exact ties of the rounding
            a = ((2 * ctx.rng.randrange(256) + 1) << 23).to_bytes(4, "big")
            b = ((2 * ctx.rng.randrange(512) + 1) << 22).to_bytes(4, "big")
        la, lo = xml_latlon(a, b)
        dl.append((f"lat.decode {a.hex()}", micro(la)))
        dl.append((f"lon.decode {b.hex()}", micro(lo)))
        ctx.case(("decode", a, b))
        ctx.count("latlon:decode-arbitrary")
    if not ctx.search_only and ctx.driver_ok:
        ctx.correspond("write_latitude/longitude", wl)
        ctx.correspond("as_xml lat/long", dl)


def dim(y, m):
    if m == 2:
        return 29 if (y % 4 == 0 and y % 100 != 0) or y % 400 == 0 else 28
    return 30 if m in (4, 6, 9, 11) else 31


def run_infotime(ctx, M):
    cases = ["20030630073000"]
    times = ["000000", "235959", "073000", "120000", "005900", "230059"]
    years = range(2000, 2100) if ctx.thorough() else (2000, 2001, 2004, 2023, 2024, 2096, 2099)
    for y in years:
        for mo in range(1, 13):
            days = range(1, dim(y, mo) + 1) if ctx.thorough() else (1, 15, dim(y, mo))
            for d in days:
                for t in (times if not ctx.thorough() else (times[(y + mo + d) % 6], times[(y * 7 + d) % 6])):
                    cases.append(f"{y:04}{mo:02}{d:02}{t}")
    for _ in range(ctx.budget(1500, 60000)):
        y = ctx.rng.randrange(2000, 2100)
        mo = ctx.rng.randrange(1, 13)
        d = ctx.rng.randrange(1, dim(y, mo) + 1)
        cases.append(f"{y:04}{mo:02}{d:02}{ctx.rng.randrange(24):02}{ctx.rng.randrange(60):02}{ctx.rng.randrange(60):02}")
    wl, dl = [], []
    for n, s in enumerate(cases):
        form = n % 3
        arg = s if form == 0 else int(s) if form == 1 else datetime.datetime.strptime(s, "%Y%m%d%H%M%S")
        b = call(M.write_infotime, arg)
        wl.append((f"it.write {s}", hx(b)))
        ctx.case(("it", s), sample={"op": "write_infotime + as_xml", "value": s, "octets": hx(b)} if n == 0 else None)
        ctx.count(f"infotime:{('str', 'int', 'datetime')[form]}")
        if isinstance(b, str):
            ctx.fail("infotime-write-raises", {"op": "infotime", "value": s, "form": form}, f"write_infotime({arg!r}) raised {b}")
            continue
        x = call(xml_of, "info-time", b)
        mm = re.search(r"<info-time>([^<]*)</info-time>", x)
        text = mm.group(1) if mm else x
        dl.append((f"it.decode {b.hex()}", text.replace(" ", "_")))
        if text != s or len(b) != 5:
            ctx.fail("infotime-roundtrip", {"op": "infotime", "value": s, "form": form},
                     f"XML view of write_infotime({s}) shows {text!r}", expected=s, actual=text)
    # strings strptime must reject / accept at the calendar's edges (correspondence only)
    for s in ("20030230000000", "20031301000000", "20030631000000", "20030630240000", "20030630236000",
              "20030630235960", "20030600000000", "20030001000000", "00000101000000", "21000229000000",
              "20000229000000", "19991231235959", "99991231235959", "00010101000000", "21000228235959"):
        wl.append((f"it.write {s}", hx(call(M.write_infotime, s))))
        ctx.case(("it-edge", s))
    for _ in range(ctx.budget(300, 10000)):
        b = bytes(ctx.rng.randrange(256) for _ in range(5))
        x = call(xml_of, "info-time", b)
        mm = re.search(r"<info-time>([^<]*)</info-time>", x)
        dl.append((f"it.decode {b.hex()}", (mm.group(1) if mm else x).replace(" ", "_")))
        ctx.case(("it-decode", b))
    if not ctx.search_only and ctx.driver_ok:
        ctx.correspond("write_infotime", wl)
        ctx.correspond("as_xml info-time", dl)


def run(ctx):
    logging.disable(logging.CRITICAL)
    M = _mbxml()
    ctx.rule = (
        "unsigned: corpus of historically mis-encoded values (multiples of 128), dense 0..2^14 (quick) / 0..2^21 "
        "(thorough), j*128^k±1 and 2^k±1 up to 2^32-1, random with uniform bit length; each written, checked against "
        "an independent canonical-shortest-form predicate, and read back at a random offset inside random leading / "
        "trailing octets.  signed: the same on ±values (dense ±2^13 / ±2^20, sign-septet boundaries 64*128^k±1), plus "
        "negative zero and a collision check.  floats: grid i + f/128^p, p=1..3 (all f for p=1, all 16384 for p=2 in "
        "thorough, boundary + random f otherwise), both signs incl. zero integer part, plus arbitrary doubles.  "
        "latitude/longitude in micro-degrees (all multiples of 0.703125 degrees ±1e-6, random) and date-times of "
        "2000..2099 (month ends, leap days; str/int/datetime input) through the real as_xml.  random octets through "
        "all four readers.  A case is non-trivial unless the value is 0; distinct = distinct (codec, value[, precision])."
    )
    ctx.trusted_base += [
        "Lean 4.33 kernel",
        "tools/extract_mbxml.py (UINTVAR_MAX / SINTVAR_MAX read from the class)",
        "hand-written model of the readers/writers/XML formulas (Model/Mbxml.lean), tied to the code by this run's correspondence",
        "IEEE-754 doubles are modelled as exact dyadic rationals: the writers' float arithmetic (int(), % 1, * 128**p) is exact, "
        "the readers' `integer + decimal / 128**k` and the lat/long `round(x, 6) * 2**31 / 90` are only cross-checked "
        "(compared exactly whenever the exact result is a double, error-analysis argument in Model/Mbxml.lean for lat/long)",
        "Python's round(x, 6) is taken to be correctly rounded half-to-even on the exact binary value; datetime.strptime's calendar is modelled",
    ]
    ctx.assumptions += [
        "precision small enough that 128**precision is a finite double (p <= 146); the property asks for p = 1..3",
        "write_ufloatvar is only given non-negative values; latitude/longitude arguments are the doubles nearest to multiples of 1e-6",
        "negative latitudes/longitudes raise OverflowError in to_bytes (unsigned four octets): outside the writers' domain, not part of the property",
    ]
    run_uint(ctx, M)
    run_sint(ctx, M)
    run_floats(ctx, M)
    run_latlon(ctx, M)
    run_infotime(ctx, M)
    run_random_reads(ctx, M)
    ctx.exhaustive = False


def model_says(lines):
    """run the compiled Lean model on protocol lines (best effort: the driver may not be built)"""
    import os
    import subprocess

    from common import BIN

    exe = os.path.join(BIN, "drv_c14")
    if not os.path.exists(exe):
        print("model: driver not built")
        return
    out = subprocess.run([exe], input="\n".join(lines) + "\n", capture_output=True, text=True).stdout.split("\n")
    for l, o in zip(lines, out):
        print(f"model          {l} -> {o}")


def replay(obj):
    logging.disable(logging.CRITICAL)
    M = _mbxml()
    f = obj.get("failure") or {}
    inp = f.get("input", {})
    print(json.dumps(obj.get("type")), f.get("what"))
    for d in (obj.get("correspondence_differences") or [])[:5]:
        print("correspondence difference:", d)
    op = inp.get("op")
    still = 1
    if op == "uintvar":
        v = inp["value"]
        w = call(M.write_uintvar, v)
        pre, tr = bytes.fromhex(inp.get("prefix", "")), bytes.fromhex(inp.get("trail", ""))
        r = call(M.read_uintvar, pre + w, len(pre)) if isinstance(w, str) else call(M.read_uintvar, pre + w + tr, len(pre))
        print(f"implementation write_uintvar({v}) = {hx(w)}; read back {r}; canonical: {None if isinstance(w, str) else canon_u(w, v)}")
        model_says([f"uv.write {v}"] + ([] if isinstance(w, str) else [f"uv.read {hx(pre + w + tr)} {len(pre)}"]))
        still = 0 if (not isinstance(w, str) and canon_u(w, v) is None and r == (v, len(pre) + len(w))) else 1
    elif op == "sintvar":
        v = inp["value"]
        w = call(M.write_sintvar, v)
        r = w if isinstance(w, str) else call(M.read_sintvar, w, 0)
        print(f"implementation write_sintvar({v}) = {hx(w)}; read back {r}")
        model_says([f"sv.write {v} 0"] + ([] if isinstance(w, str) else [f"sv.read {hx(w)} 0"]))
        still = 0 if (not isinstance(w, str) and canon_s(w, v, v < 0) is None and r == (v, len(w), -1 if v < 0 else 1)) else 1
        if "other" in inp:
            o = call(M.write_sintvar, inp["other"])
            print(f"implementation write_sintvar({inp['other']}) = {hx(o)}")
            still = 1 if o == w else still
    elif op == "negzero":
        w = call(M.write_sintvar, 0, True)
        r = w if isinstance(w, str) else call(M.read_sintvar, w, 0)
        print(f"implementation write_sintvar(0, True) = {hx(w)}; read back {r}")
        still = 0 if r == (0, 1, -1) else 1
    elif op in ("ufloatvar", "sfloatvar"):
        signed = op == "sfloatvar"
        if "int" in inp:
            value = inp["sign"] * (inp["int"] + inp["frac"] / 128 ** inp["precision"])
        else:
            value = float.fromhex(inp["value"])
        p = inp["precision"]
        w = call(M.write_sfloatvar if signed else M.write_ufloatvar, value, p)
        r = w if isinstance(w, str) else call(M.read_sfloatvar if signed else M.read_ufloatvar, w, 0)
        print(f"implementation write_{op}({value!r}, {p}) = {hx(w)}; read back {r}")
        neg, num, exp = dyadic(value)
        model_says([f"sf.write {1 if neg else 0} {num} {exp} {p}" if signed else f"uf.write {num} {exp} {p}"]
                   + ([] if isinstance(w, str) else [f"{'sf' if signed else 'uf'}.read {hx(w)} 0"]))
        still = 0 if (not isinstance(r, str) and r[0] == value and r[1] == len(w)) else 1
    elif op in ("lat", "lon"):
        m = inp["microdegrees"]
        x = m / 1e6
        b = call(M.write_latitude if op == "lat" else M.write_longitude, x)
        if isinstance(b, str):
            print(f"implementation write raised {b}")
        else:
            la, lo = xml_latlon(b, bytes(4)) if op == "lat" else xml_latlon(bytes(4), b)
            text = la if op == "lat" else lo
            print(f"implementation write_{op}({x!r}) = {b.hex()}; XML view shows {text}")
            model_says([f"{op}.write {m}", f"{op}.decode {b.hex()}"])
            still = 0 if text == str(x) else 1
    elif op == "infotime":
        s = inp["value"]
        b = call(M.write_infotime, s)
        x = b if isinstance(b, str) else call(xml_of, "info-time", b)
        mm = re.search(r"<info-time>([^<]*)</info-time>", x)
        print(f"implementation write_infotime({s}) = {hx(b)}; XML view shows {mm.group(1) if mm else x!r}")
        model_says([f"it.write {s}"] + ([] if isinstance(b, str) else [f"it.decode {b.hex()}"]))
        still = 0 if (mm and mm.group(1) == s) else 1
    print("expected:", f.get("expected"), "actual:", f.get("actual"))
    return still
