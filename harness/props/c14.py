"""C14 — MBXML variable-length integers and floats decode to what was encoded (DESIGN §5 C14).

Correspondence: every writer / reader / XML-view formula of okdmr.dmrlib.motorola.mbxml against the Lean
model (Model/Mbxml.lean, Model/MbxmlX.lean) through drv_c14.  Oracle (property as stated, on the real code only):
read(write(v)) returns v and consumes exactly the written octets with arbitrary octets before and after; the written
octets satisfy an independently coded canonical-shortest-form predicate and equal an independent encoder's; float
writers round-trip every grid value i + f/128^p; latitude / longitude / info-time go through the real `as_xml`
(all three lat/long views), on a dense 1e-6 grid on both sides of every constant of the writers and on doubles off
the grid (rounding ties, midpoints, the edges of the pole window).

Ambient process configuration (hardening round): the date-time part of the oracle and a sample of every other codec
are repeated with the process switched — inside this process, os.environ + time.tzset / locale.setlocale /
decimal.setcontext, restored afterwards — to other time zones (POSIX TZ strings, no tzdata needed; the skipped and
repeated local hours are computed from the rule by the harness and confirmed by the Lean calendar and by libc),
locales (incl. a decimal-comma locale compiled with localedef) and decimal contexts.  The expected values come from
the digits themselves and from the Lean model: neither reads any ambient state.

Interpreter / process state (round 3): the same sample (a few hundred calls of every codec, info-time included) and
the date-time sample are repeated with the logging system switched on (root logger and the library's loggers at DEBUG
/ INFO / NOTSET with a handler that formats every record; `logging.disable` lifted), with `sys.stdout` / `sys.stderr`
replaced by a writer that raises, a closed file and None, with warnings turned into errors, with the global `random`
reseeded before every call, and in a worker thread; and ONE child interpreter per mode (`python -O`,
`PYTHONOPTIMIZE=2`, each with another PYTHONHASHSEED) re-runs the sample with the expected values handed over by the
parent and reports what differs as JSON.  Everything is restored afterwards.
"""
import ast
import atexit
import contextlib
import datetime
import decimal
import errno
import inspect
import io
import json
import locale
import logging
import math
import os
import random
import re
import subprocess
import sys
import tempfile
import textwrap
import threading
import time
import warnings
from fractions import Fraction

from common import impl_error, Infra

PROP = "C14"
MODULES = ["C14", "C14t"]
GEN = ["Mbxml", "TranslMbxml"]
MATCHERS = {}

U_MAX = 2**32 - 1
S_MAX = 2**31 - 1


def _mbxml():
    from okdmr.dmrlib.motorola.mbxml import MBXML

    return MBXML


def call(fn, *a, **kw):
    try:
        return fn(*a, **kw)
    except BaseException as e:  # noqa
        return impl_error(e)


def hx(b) -> str:
    if isinstance(b, str):
        return b
    return b.hex() if len(b) else "-"


# ---------------------------------------------------------------- independent reference predicates
def septets_value(b: bytes) -> int:
    v = 0
    for x in b:
        v = v * 128 + (x & 0x7F)
    return v


def flags_ok(b: bytes) -> bool:
    return len(b) >= 1 and all(x & 0x80 for x in b[:-1]) and not (b[-1] & 0x80)


def canon_u(b: bytes, v: int):
    """None if b is the canonical shortest unsigned form of v, else what is wrong"""
    if not flags_ok(b):
        return "continuation bits"
    if len(b) != max(1, (v.bit_length() + 6) // 7):
        return "not the shortest length"
    if len(b) > 1 and b[0] == 0x80:
        return "leading 0x80 septet"
    if septets_value(b) != v:
        return "septets do not spell the value"
    return None


def canon_s(b: bytes, v: int, neg: bool):
    if not flags_ok(b):
        return "continuation bits"
    m = abs(v)
    if len(b) != max(1, (m.bit_length() + 1 + 6) // 7):
        return "not the shortest length"
    if bool(b[0] & 0x40) != neg:
        return "sign bit"
    mag = b[0] & 0x3F
    for x in b[1:]:
        mag = mag * 128 + (x & 0x7F)
    if mag != m:
        return "septets do not spell the magnitude"
    return None


def frac_len(f: int, p: int) -> int:
    """septets of the fraction f/128^p without trailing zero septets (at least one)"""
    k = p
    while k > 1 and f % 128 == 0:
        f //= 128
        k -= 1
    return k


def dyadic(x: float):
    """(neg, num, exp) with x = ± num / 2^exp exactly"""
    n, d = abs(x).as_integer_ratio()
    return (math.copysign(1.0, x) < 0, n, d.bit_length() - 1)


def fstr(x, nxt) -> str:
    """canonical text of a float result: reduced dyadic and the new index"""
    if isinstance(x, str):
        return x
    neg, n, e = dyadic(x)
    return f"{'-' if neg else ''}{n}/{e} {nxt}"


# ---------------------------------------------------------------- independent encoders (the expected octets)
def enc_u(v: int) -> bytes:
    out = [v & 0x7F]
    v >>= 7
    while v:
        out.append(0x80 | (v & 0x7F))
        v >>= 7
    return bytes(reversed(out))


def enc_s(m: int, neg: bool) -> bytes:
    n = max(1, (m.bit_length() + 1 + 6) // 7)
    se = [(m >> (7 * k)) & 0x7F for k in range(n - 1, -1, -1)]
    se[0] |= 0x40 if neg else 0
    return bytes([x | 0x80 for x in se[:-1]] + se[-1:])


def enc_frac(f: int, p: int) -> bytes:
    k = frac_len(f, p)
    f >>= 7 * (p - k)
    se = [(f >> (7 * j)) & 0x7F for j in range(k - 1, -1, -1)]
    return bytes([x | 0x80 for x in se[:-1]] + se[-1:])


# ---------------------------------------------------------------- generators
def uint_values(ctx):
    corpus = [128, 256, 896, 16384, 16512, 2**21, 2**28, 0, 1, 127, 129, 255, U_MAX, U_MAX - 127]
    dense = range(0, 2**21 if ctx.thorough() else 2**14)
    bnd = set()
    for k in range(1, 5):
        for j in list(range(1, 128)) if k < 4 else list(range(1, 16)):
            for d in (-1, 0, 1):
                x = j * 128**k + d
                if 0 <= x <= U_MAX:
                    bnd.add(x)
    for k in range(1, 33):
        for d in (-1, 0, 1):
            x = 2**k + d
            if 0 <= x <= U_MAX:
                bnd.add(x)
    rnd = []
    for _ in range(ctx.budget(3000, 300000)):
        bl = ctx.rng.randrange(1, 33)
        rnd.append(ctx.rng.randrange(2 ** (bl - 1), 2**bl))
    return corpus, dense, sorted(bnd), rnd


def trail(ctx):
    r = ctx.rng.randrange(6)
    if r == 0:
        return b""
    if r == 1:
        return b"\x00"
    if r == 2:
        return b"\x80"
    if r == 3:
        return b"\xff\xff"
    return bytes(ctx.rng.randrange(256) for _ in range(ctx.rng.randrange(1, 4)))


def prefix(ctx):
    if ctx.rng.randrange(3):
        return b""
    return bytes(ctx.rng.randrange(256) for _ in range(ctx.rng.randrange(1, 4)))


# ---------------------------------------------------------------- components
def run_uint(ctx, M):
    corpus, dense, bnd, rnd = uint_values(ctx)
    pw, pr = [], []
    n = 0
    for src, vals in (("corpus", corpus), ("dense", dense), ("boundary", bnd), ("random", rnd)):
        for v in vals:
            n += 1
            w = call(M.write_uintvar, v)
            pw.append((f"uv.write {v}", hx(w)))
            ctx.case(("u", v), nontrivial=v != 0,
                     sample={"op": "write_uintvar/read_uintvar", "value": v, "octets": hx(w)} if v in (16384, 300) else None)
            if isinstance(w, str):
                ctx.fail("uintvar-write-raises", {"op": "uintvar", "value": v}, f"write_uintvar({v}) raised {w}")
                continue
            why = canon_u(w, v)
            if why:
                ctx.fail("uintvar-not-canonical", {"op": "uintvar", "value": v},
                         f"write_uintvar({v}) = {w.hex()} is not the canonical shortest form: {why}", actual=w.hex())
            pre, tr = prefix(ctx), trail(ctx)
            data = pre + w + tr
            r = call(M.read_uintvar, data, len(pre))
            pr.append((f"uv.read {hx(data)} {len(pre)}", r if isinstance(r, str) else f"{r[0]} {r[1]}"))
            if r != (v, len(pre) + len(w)):
                ctx.fail("uintvar-roundtrip", {"op": "uintvar", "value": v, "prefix": pre.hex(), "trail": tr.hex()},
                         f"read_uintvar(write_uintvar({v})) returned {r}", expected=[v, len(pre) + len(w)],
                         actual=r if isinstance(r, str) else list(r))
        ctx.count(f"uint:{src}", len(vals))
    # out of range / negative: the writer must reject (model: AssertionError)
    for v in (U_MAX + 1, U_MAX + 2, 2**40, -1, -128, -(2**31)):
        w = call(M.write_uintvar, v)
        pw.append((f"uv.write {v}", hx(w)))
        ctx.case(("u-range", v))
    if not ctx.search_only and ctx.driver_ok:
        ctx.correspond("write_uintvar", pw)
        ctx.correspond("read_uintvar", pr)


def run_sint(ctx, M):
    corpus = [64, -64, 8192, -8192, 65, -65, 127, -127, 128, -128, 63, -63, 0, 1, -1, S_MAX, -S_MAX, 2**20, -(2**20)]
    lim = 2**20 if ctx.thorough() else 2**13
    dense = range(-lim, lim + 1)
    bnd = set()
    for k in range(0, 5):
        for base in (64 * 128**k, 128**k, 63 * 128**k, 127 * 128**k):
            for d in (-1, 0, 1):
                x = base + d
                if 0 <= x <= S_MAX:
                    bnd.add(x)
                    bnd.add(-x)
    for k in range(1, 32):
        for d in (-1, 0, 1):
            x = 2**k + d
            if 0 <= x <= S_MAX:
                bnd.add(x)
                bnd.add(-x)
    rnd = []
    for _ in range(ctx.budget(3000, 300000)):
        bl = ctx.rng.randrange(1, 32)
        x = ctx.rng.randrange(2 ** (bl - 1), 2**bl)
        rnd.append(x if ctx.rng.randrange(2) else -x)
    pw, pr = [], []
    seen = {}
    for src, vals in (("corpus", corpus), ("dense", dense), ("boundary", sorted(bnd)), ("random", rnd)):
        for v in vals:
            w = call(M.write_sintvar, v)
            pw.append((f"sv.write {v} 0", hx(w)))
            ctx.case(("s", v), nontrivial=v != 0,
                     sample={"op": "write_sintvar/read_sintvar", "value": v, "octets": hx(w)} if v in (64, -8192) else None)
            if isinstance(w, str):
                ctx.fail("sintvar-write-raises", {"op": "sintvar", "value": v}, f"write_sintvar({v}) raised {w}")
                continue
            why = canon_s(w, v, v < 0)
            if why:
                ctx.fail("sintvar-not-canonical", {"op": "sintvar", "value": v},
                         f"write_sintvar({v}) = {w.hex()} is not the canonical shortest form: {why}", actual=w.hex())
            other = seen.setdefault(w, v)
            if other != v:
                ctx.fail("sintvar-collision", {"op": "sintvar", "value": v, "other": other},
                         f"write_sintvar({v}) and write_sintvar({other}) are both {w.hex()}", actual=w.hex())
            pre, tr = prefix(ctx), trail(ctx)
            data = pre + w + tr
            r = call(M.read_sintvar, data, len(pre))
            pr.append((f"sv.read {hx(data)} {len(pre)}", r if isinstance(r, str) else f"{r[0]} {r[1]} {r[2]}"))
            exp = (v, len(pre) + len(w), -1 if v < 0 else 1)
            if r != exp:
                ctx.fail("sintvar-roundtrip", {"op": "sintvar", "value": v, "prefix": pre.hex(), "trail": tr.hex()},
                         f"read_sintvar(write_sintvar({v})) returned {r}", expected=list(exp),
                         actual=r if isinstance(r, str) else list(r))
        ctx.count(f"sint:{src}", len(vals))
    # negative zero (used by the float writer) and the flag on other values; out of range
    w = call(M.write_sintvar, 0, True)
    pw.append(("sv.write 0 1", hx(w)))
    ctx.case(("s-negzero",))
    if not isinstance(w, str):
        r = call(M.read_sintvar, w + b"\x05", 0)
        pr.append((f"sv.read {hx(w + bytes([5]))} 0", r if isinstance(r, str) else f"{r[0]} {r[1]} {r[2]}"))
        if r != (0, len(w), -1):
            ctx.fail("sintvar-negative-zero", {"op": "negzero"}, f"negative zero read back as {r}", expected=[0, len(w), -1],
                     actual=r if isinstance(r, str) else list(r))
    else:
        ctx.fail("sintvar-write-raises", {"op": "negzero"}, f"write_sintvar(0, negative_zero=True) raised {w}")
    for v in (5, 64, 8192, -7):
        pw.append((f"sv.write {v} 1", hx(call(M.write_sintvar, v, True))))
    for v in (S_MAX + 1, -(S_MAX + 1), 2**40, -(2**40)):
        pw.append((f"sv.write {v} 0", hx(call(M.write_sintvar, v))))
        ctx.case(("s-range", v))
    if not ctx.search_only and ctx.driver_ok:
        ctx.correspond("write_sintvar", pw)
        ctx.correspond("read_sintvar", pr)


def run_random_reads(ctx, M):
    """malformed stream: arbitrary octets / indices through the four readers (value or IndexError)"""
    lines_u, lines_s, flo = [], [], []
    for _ in range(ctx.budget(3000, 100000)):
        n = ctx.rng.randrange(0, 9)
        mode = ctx.rng.randrange(3)
        if mode == 0:
            data = bytes(ctx.rng.randrange(256) for _ in range(n))
        elif mode == 1:  # long continuation chains
            data = bytes(ctx.rng.randrange(128, 256) for _ in range(n)) + bytes([ctx.rng.randrange(256)])
        else:
            data = bytes(ctx.rng.choice((0x00, 0x80, 0x40, 0xC0, 0x7F, 0xFF, 0x01, 0x81)) for _ in range(n))
        idx = ctx.rng.randrange(0, len(data) + 2)
        ctx.case(("rr", data, idx), nontrivial=len(data) > 0)
        r = call(M.read_uintvar, data, idx)
        lines_u.append((f"uv.read {hx(data)} {idx}", r if isinstance(r, str) else f"{r[0]} {r[1]}"))
        r = call(M.read_sintvar, data, idx)
        lines_s.append((f"sv.read {hx(data)} {idx}", r if isinstance(r, str) else f"{r[0]} {r[1]} {r[2]}"))
        for op, fn in (("uf.read", M.read_ufloatvar), ("sf.read", M.read_sfloatvar)):
            r = call(fn, data, idx)
            flo.append((f"{op} {hx(data)} {idx}", r))
        ctx.count("reads:random-octets")
    if not ctx.search_only and ctx.driver_ok:
        ctx.correspond("read_uintvar(random octets)", lines_u)
        ctx.correspond("read_sintvar(random octets)", lines_s)
        correspond_floats(ctx, "read_*floatvar(random octets)", flo)


def correspond_floats(ctx, component, items):
    """items: (line, impl result (float, idx) | 'ERR …').  The model prints the exact dyadic value; the
    double computed by the code equals it whenever it is representable (numerator of at most 53 bits);
    otherwise only the new index is compared (IEEE rounding is not modelled)."""
    outs = ctx.drive([l for l, _ in items])
    bad = 0
    for (line, impl), model in zip(items, outs):
        if isinstance(impl, str):
            same = impl == model
            shown = impl
        else:
            shown = fstr(impl[0], impl[1])
            mm = re.match(r"^(-?)(\d+)/(\d+) (\d+)$", model)
            if mm and int(mm.group(2)).bit_length() > 53:
                same = int(mm.group(4)) == impl[1]
                ctx.count("float:inexact-value-not-compared")
            else:
                same = shown == model
        if not same:
            bad += 1
            if len(ctx.disagreements) < 50:
                ctx.disagreements.append({"component": component, "line": line, "impl": shown, "model": model})
    ctx.count(f"corr:{component}", len(items))
    if bad:
        ctx.count(f"corr-diff:{component}", bad)


def float_grid(ctx, signed: bool):
    imax = S_MAX if signed else U_MAX
    ints = [0, 1, 5, 37, 63, 64, 65, 127, 128, 129, 160, 255, 256, 8191, 8192, 16383, 16384, 2**21, 2**28, S_MAX, imax]
    ints = sorted({i for i in ints if i <= imax})
    out = []
    # historically failing first
    out += [(1, 1, 2), (1, 127, 2), (0, 1, 3), (0, 1, 2), (128, 0, 1), (64, 10, 1), (0, 10, 1), (160, 983, 2), (160, 896, 2)]
    for p in (1, 2, 3):
        top = 128**p
        fs = {0, 1, 2, 63, 64, 127, top - 1, top // 2, top - 128 if p > 1 else 1}
        if p >= 2:
            fs |= {128, 129, 255, 256, 16256, 127 * 128, 128 * 5, top - 127}
        if p == 3:
            fs |= {16383, 16384, 16385, 128 * 128 * 127, 128 * 128 * 5 + 1, 128 * 128 * 5, 128 * 77, 2**20}
        if p == 1:
            fs |= set(range(128))
        elif p == 2 and ctx.thorough():
            fs |= set(range(16384))
        for _ in range(ctx.budget(60, 3000)):
            fs.add(ctx.rng.randrange(top))
        fs = sorted(f for f in fs if 0 <= f < top)
        dense_ints = ints if (p == 1 or not ctx.thorough()) else ints
        for f in fs:
            # every fraction with a few integer parts; every integer part with the boundary fractions
            pick = dense_ints if (f < 3 or f in (127, 128, top - 1, top // 2) or p == 1) else [
                dense_ints[ctx.rng.randrange(len(dense_ints))] for _ in range(2)]
            for i in pick:
                out.append((i, f, p))
    return out


def run_floats(ctx, M):
    wl, rl = [], []
    for signed in (False, True):
        wfn = M.write_sfloatvar if signed else M.write_ufloatvar
        rfn = M.read_sfloatvar if signed else M.read_ufloatvar
        name = "sfloatvar" if signed else "ufloatvar"
        for (i, f, p) in float_grid(ctx, signed):
            for sgn in ((1, -1) if signed else (1,)):
                value = sgn * (i + f / 128**p)
                if signed and sgn < 0 and i == 0 and f == 0:
                    value = -0.0
                neg, num, exp = dyadic(value)
                w = call(wfn, value, p)
                wl.append((f"sf.write {1 if neg else 0} {num} {exp} {p}" if signed else f"uf.write {num} {exp} {p}", hx(w)))
                ctx.case((name, i, f, p, sgn), nontrivial=(i, f) != (0, 0),
                         sample={"op": f"write_{name}/read_{name}", "value": value, "precision": p, "octets": hx(w)}
                         if (i, f, p) in ((1, 1, 2), (0, 10, 1)) else None)
                ctx.count(f"float:{name}:p={p}")
                if sgn < 0 and i == 0 and f != 0:
                    ctx.count("float:negative-fraction-zero-integer")
                inp = {"op": name, "int": i, "frac": f, "precision": p, "sign": sgn}
                if isinstance(w, str):
                    ctx.fail("float-write-raises", inp, f"write_{name}({value!r}, {p}) raised {w}")
                    continue
                tr = trail(ctx)
                r = call(rfn, w + tr, 0)
                rl.append((f"{'sf' if signed else 'uf'}.read {hx(w + tr)} 0", r))
                if isinstance(r, str) or r[0] != value or r[1] != len(w) or (
                        value != 0 and math.copysign(1, r[0]) != math.copysign(1, value)):
                    ctx.fail("float-roundtrip", inp, f"read_{name}(write_{name}({value!r}, {p})) returned {r}",
                             expected=[value, len(w)], actual=r if isinstance(r, str) else list(r))
                want = (enc_s(i, sgn < 0 and (i, f) != (0, 0)) if signed else enc_u(i)) + enc_frac(f, p)
                if w != want:
                    ctx.fail("float-not-canonical", inp,
                             f"write_{name}({value!r}, {p}) = {w.hex()}: not the shortest integer septets followed by the "
                             f"{frac_len(f, p)} fraction septet(s) {want.hex()}", expected=want.hex(), actual=w.hex())
        # arbitrary doubles (not on the grid): the writers' exact arithmetic, correspondence only
        for _ in range(ctx.budget(1500, 60000)):
            k = ctx.rng.randrange(-12, 34 if not signed else 33)
            value = ctx.rng.random() * 2.0**k
            if ctx.rng.randrange(8) == 0:
                value = float(ctx.rng.randrange(0, 2**20)) / 2 ** ctx.rng.randrange(0, 30)
            if signed and ctx.rng.randrange(2):
                value = -value
            p = ctx.rng.choice((1, 1, 2, 3, 4, 0))
            neg, num, exp = dyadic(value)
            w = call(wfn, value, p)
            wl.append((f"sf.write {1 if neg else 0} {num} {exp} {p}" if signed else f"uf.write {num} {exp} {p}", hx(w)))
            ctx.case((name, "double", value, p))
            ctx.count(f"float:{name}:arbitrary-double")
            if not isinstance(w, str):
                r = call(rfn, w, 0)
                rl.append((f"{'sf' if signed else 'uf'}.read {hx(w)} 0", r))
                # what is written is never further than one unit of the last fraction septet below |value|
                if isinstance(r, str) or not (0 <= abs(value) - abs(r[0]) <= 128.0**-p) or r[1] != len(w):
                    ctx.fail("float-truncation", {"op": name, "value": value.hex(), "precision": p},
                             f"write_{name}({value!r}, {p}) read back as {r}: not the value truncated to {p} septet(s)",
                             expected=value, actual=r if isinstance(r, str) else list(r))
    for d, p in ((0, 1), (0, 3), (128, 2), (128 * 128, 3), (1, 3), (127, 1), (16383, 2), (5 * 128, 2)):
        wl.append((f"fr.write {d} {p}", hx(call(M.write_fraction, d, p))))
    if not ctx.search_only and ctx.driver_ok:
        ctx.correspond("write_*floatvar", wl)
        correspond_floats(ctx, "read_*floatvar", rl)


# ---------------------------------------------------------------- XML view (real as_xml)
VIEWS = {
    "point-2d": lambda a, b: (a, b),
    "circle-2d": lambda a, b: (a, b, 1.5),
    "point-3d": lambda a, b: (a, b, 1.5),
}


def xml_of(token_name, value):
    from okdmr.dmrlib.motorola.lrrp import LRRP
    from okdmr.dmrlib.motorola.mbxml import MBXMLDocumentIdentifier

    doc = LRRP(document_id=MBXMLDocumentIdentifier.LRRP_ImmediateLocationReport_NCDT)
    doc.parts.append(doc.get_token(name=token_name, value=value, attributes={}, is_request=False))
    return doc.as_xml()


def xml_latlon(lat: bytes, lon: bytes, view: str = "point-2d"):
    x = call(xml_of, view, VIEWS[view](lat, lon))
    if x.startswith("ERR "):
        return x, x
    a = re.search(r"<lat>([^<]*)</lat>", x)
    b = re.search(r"<long>([^<]*)</long>", x)
    return (a.group(1) if a else "ERR nolat"), (b.group(1) if b else "ERR nolong")


def xml_infotime(b: bytes, token="info-time"):
    x = call(xml_of, token, b)
    mm = re.search(r"<info-time>([^<]*)</info-time>", x)
    return mm.group(1) if mm else x


def micro(text: str) -> str:
    """the shown decimal text in micro-degrees (exact rational arithmetic: no ambient decimal context)"""
    if text.startswith("ERR"):
        return text
    try:
        d = Fraction(text) * 1000000
    except (ValueError, ZeroDivisionError):
        return f"NOT-A-NUMBER {text}"
    return str(int(d)) if d.denominator == 1 else f"NOT-6-DECIMALS {text}"


def micro_round(x: float) -> int:
    """x in micro-degrees, correctly rounded (ties to even) from the exact binary value of the double"""
    fr = Fraction(x) * 1000000
    fl = fr.numerator // fr.denominator
    rem = fr - fl
    if rem > Fraction(1, 2) or (rem == Fraction(1, 2) and fl % 2 == 1):
        fl += 1
    return fl


def source_numbers(*fns):
    """absolute values of the numeric literals in the source of the given functions, as they are on this run:
    every one of them is treated as a potential special-cased constant / tolerance of the writers"""
    out = set()
    for fn in fns:
        try:
            tree = ast.parse(textwrap.dedent(inspect.getsource(fn)))
        except Exception:  # noqa
            continue
        for node in ast.walk(tree):
            if isinstance(node, ast.Constant) and type(node.value) in (int, float):
                v = abs(float(node.value))
                if math.isfinite(v):
                    out.add(v)
    return out


def source_env_names(*modules):
    """names of the environment variables the source of the given modules reads on this run (os.environ.get / [] /
    os.getenv with a literal name): each is treated as a switch somebody may have set"""
    out = set()
    for mod in modules:
        try:
            tree = ast.parse(inspect.getsource(mod))
        except Exception:  # noqa
            continue
        for node in ast.walk(tree):
            arg = None
            if isinstance(node, ast.Call) and node.args:
                fn = node.func
                name = fn.attr if isinstance(fn, ast.Attribute) else getattr(fn, "id", "")
                owner = fn.value if isinstance(fn, ast.Attribute) else None
                owner_txt = ast.dump(owner) if owner is not None else ""
                if name == "getenv" or (name in ("get", "pop", "setdefault") and "environ" in owner_txt):
                    arg = node.args[0]
            elif isinstance(node, ast.Subscript) and "environ" in ast.dump(node.value):
                arg = node.slice
            elif isinstance(node, ast.Compare) and any("environ" in ast.dump(c) for c in node.comparators):
                arg = node.left
            if isinstance(arg, ast.Constant) and isinstance(arg.value, str):
                out.add(arg.value)
    return sorted(out)


def ulps(x: float, n: int) -> float:
    for _ in range(abs(n)):
        x = math.nextafter(x, math.inf if n > 0 else -math.inf)
    return x


def latlon_plan(ctx, M):
    nums = source_numbers(M.write_latitude, M.write_longitude)
    plan = {
        "lat": dict(top=90000000, incl=True, prim=[0, 90000000], sec=[45000000], wfn=M.write_latitude, name="latitude"),
        "lon": dict(top=360000000, incl=False, prim=[0, 180000000, 360000000], sec=[90000000, 270000000],
                    wfn=M.write_longitude, name="longitude"),
    }
    for P in plan.values():
        for c in sorted(nums):  # literals of the writers read as degrees
            m = round(c * 1e6)
            if 0 < m < P["top"] and m not in P["prim"] and m not in P["sec"]:
                P["sec"].append(m)
        P["tol"] = sorted(t for t in nums if 0 < t < 0.01)  # literals that look like a tolerance
    return plan


def near(m, consts, w):
    return any(abs(m - c) <= w for c in consts)


def run_latlon(ctx, M):
    plan = latlon_plan(ctx, M)
    wp = 100000 if ctx.thorough() else 2500
    ws = 5000 if ctx.thorough() else 300
    wl, dl, fl = [], [], []
    zero4 = bytes(4)
    for which, P in plan.items():
        top, wfn = P["top"], P["wfn"]
        ms = [12345345, 90000000, 0, 1, 89999999, 45000000, 351562, 351563] if which == "lat" else [
            24668866, 0, 1, 359999999, 180000000, 179999999, 703125]
        # dense 1e-6 grid next to every special-cased constant of the writers (both sides, not only the constant)
        for c in P["prim"]:
            ms += range(c - wp, c + wp + 1)
        for c in P["sec"]:
            ms += range(c - ws, c + ws + 1)
        ctx.count(f"{which}:near-constant(dense ±{wp} / ±{ws} micro-degrees)", (2 * wp + 1) * len(P["prim"]) + (2 * ws + 1) * len(P["sec"]))
        # the edges of every window a tolerance literal could open around a constant (relative and absolute reading)
        for t in P["tol"]:
            for c in P["prim"] + P["sec"]:
                for width in {round(t * c), round(t * 1e6), round(t * top), round(t * 90e6)}:
                    for side in (-1, 1):
                        ms += range(c + side * width - 3, c + side * width + 4)
            ctx.count(f"{which}:tolerance-literal-edges")
        for j in range(0, 513):
            for d in (-1, 0, 1):
                ms.append(j * 703125 + d)
        for k in range(0, 32):  # powers of two of the raw value and of micro-degrees
            ms += [2**k - 1, 2**k, 2**k + 1, (2**k * 703125) // (2**24 if which == "lat" else 2**23)]
        for _ in range(ctx.budget(1500, 120000)):
            ms.append(ctx.rng.randrange(0, top + 1 if P["incl"] else top))
        # outside the domain (correspondence only): negative / too large values must raise (model: OverflowError) or
        # follow the same formula, never be special-cased
        ms += list(range(-60, 0)) + list(range(top + 1, top + 301))
        ms += [-1000000, -90000000, 180000000, 200000000] if which == "lat" else [-180000000, 400000000]
        consts = P["prim"] + P["sec"]
        for n, m in enumerate(dict.fromkeys(ms)):
            x = m / 1e6
            b = call(wfn, x)
            wl.append((f"{which}.write {m}", hx(b)))
            if not (0 <= m <= top if P["incl"] else 0 <= m < top):
                ctx.case((which, "out", m))
                ctx.count(f"{which}:outside-domain")
                continue
            ctx.case((which, m), nontrivial=m != 0,
                     sample={"op": f"write_{P['name']} + as_xml", "degrees": x, "octets": hx(b)}
                     if m in (12345345, 24668866) else None)
            ctx.count(f"{which}:values")
            inp = {"op": which, "microdegrees": m}
            if isinstance(b, str):
                ctx.fail("latlon-write-raises", inp, f"write_{which}({x!r}) raised {b}")
                continue
            if not (which == "lat" and m == top):
                fl.append((f"{which}.fl {m}", str(int.from_bytes(b, "big"))))
            views = ["point-2d"]
            if n % 17 == 0 or near(m, consts, 40):
                views += ["circle-2d", "point-3d"]
                ctx.count(f"{which}:all-three-xml-views")
            for view in views:
                la, lo = xml_latlon(b, zero4, view) if which == "lat" else xml_latlon(zero4, b, view)
                text = la if which == "lat" else lo
                if view == "point-2d":
                    dl.append((f"{which}.decode {b.hex()}", micro(text)))
                ok = (not text.startswith("ERR")) and text == str(x) and float(text) == x
                if not ok:
                    ctx.fail("latlon-roundtrip", dict(inp, view=view),
                             f"XML view ({view}) of write_{which}({x!r}) shows {text}", expected=str(x), actual=text)
    run_latlon_offgrid(ctx, M, plan, wl)
    # the decoding formulas on arbitrary octets (ties the model's rounding to Python's round(x, 6))
    for _ in range(ctx.budget(600, 40000)):
        a = ctx.rng.randrange(2**32).to_bytes(4, "big")
        b = ctx.rng.randrange(2**32).to_bytes(4, "big")
        if ctx.rng.randrange(4) == 0:  # exact ties of the rounding
            a = ((2 * ctx.rng.randrange(256) + 1) << 23).to_bytes(4, "big")
            b = ((2 * ctx.rng.randrange(512) + 1) << 22).to_bytes(4, "big")
        la, lo = xml_latlon(a, b)
        dl.append((f"lat.decode {a.hex()}", micro(la)))
        dl.append((f"lon.decode {b.hex()}", micro(lo)))
        ctx.case(("decode", a, b))
        ctx.count("latlon:decode-arbitrary")
    if not ctx.search_only and ctx.driver_ok:
        ctx.correspond("write_latitude/longitude", wl)
        ctx.correspond("as_xml lat/long", dl)
        ctx.correspond("int(round(v, 6) * 2**k / deg) in double arithmetic (model fl53) = code", fl)


def offgrid_values(ctx, which, P):
    """doubles that are NOT multiples of 1e-6: exact rounding ties (odd multiples of 1/128), the doubles at and next to
    every midpoint (k + 0.5) micro-degrees near the constants and at random, the edges of the pole window, random"""
    top = P["top"] / 1e6
    consts = P["prim"] + P["sec"]
    xs = []
    jmax = int(top * 128)
    odd = [j for j in range(1, jmax, 2)]
    ties = set(odd[:40] + odd[-40:])
    for c in consts:
        j0 = int(c / 1e6 * 128) | 1
        ties |= {j for j in range(j0 - 40, j0 + 41, 2) if 0 < j < jmax}
    if ctx.thorough():
        ties |= set(odd)
    else:
        ties |= {odd[ctx.rng.randrange(len(odd))] for _ in range(ctx.budget(500, 0))}
    for j in sorted(ties):
        for n in (0, -1, 1):
            xs.append(("tie", ulps(j / 128, n)))
    ks = set()
    for c in consts:
        ks |= {k for k in range(c - 40, c + 41) if 0 <= k < P["top"]}
    ks |= {ctx.rng.randrange(0, P["top"]) for _ in range(ctx.budget(400, 40000))}
    for k in sorted(ks):
        x0 = (k + 0.5) / 1e6
        for n in (-2, -1, 0, 1, 2):
            xs.append(("midpoint", ulps(x0, n)))
    if which == "lat":
        for e in (90.0 - 9e-8, 90.0 - 5e-7, 90.0 - 1e-9 * 90.0, 90.0):
            x = ulps(e, 40)
            for _ in range(81):
                if x <= 90.0:
                    xs.append(("pole-window-edge", x))
                x = math.nextafter(x, 0.0)
    for t in P["tol"]:
        for c in consts:
            for width in (t * c / 1e6, t, t * top, t * 90):
                for side in (-1, 1):
                    x = c / 1e6 + side * width
                    for n in (-1, 0, 1):
                        xs.append(("tolerance-literal-edge", ulps(x, n)))
    for _ in range(ctx.budget(400, 40000)):
        xs.append(("random", ctx.rng.random() * top))
    for x in (-0.0, -1e-7, -4.9e-7, 5e-324, 1e-7, 4.9e-7, 5.1e-7):
        xs.append(("tiny", x))
    return xs


def run_latlon_offgrid(ctx, M, plan, wl):
    zero4 = bytes(4)
    for which, P in plan.items():
        seen = set()
        for cls, x in offgrid_values(ctx, which, P):
            if x in seen and x != 0:
                continue
            seen.add(x)
            m = micro_round(x)
            b = call(P["wfn"], x)
            if x >= 0 and math.copysign(1, x) > 0:
                neg, num, exp = dyadic(x)
                wl.append((f"{which}.writed {num} {exp}", hx(b)))
                if which == "lat":  # the model's double-arithmetic isclose is the premise of pole_window_inside_rounding_cell
                    wl.append((f"lat.isclose {num} {exp}", "1" if math.isclose(x, 90.0) else "0"))
            ctx.case((which, "double", x))
            ctx.count(f"{which}:off-grid:{cls}")
            if not (0 <= m <= P["top"] if P["incl"] else 0 <= m < P["top"]):
                continue
            inp = {"op": which + "d", "value": x.hex()}
            if isinstance(b, str):
                ctx.fail("latlon-write-raises", inp, f"write_{which}({x!r}) raised {b}")
                continue
            la, lo = xml_latlon(b, zero4) if which == "lat" else xml_latlon(zero4, b)
            text = la if which == "lat" else lo
            want = str(m / 1e6)
            if text != want:
                ctx.fail("latlon-rounding", inp,
                         f"XML view of write_{which}({x!r}) shows {text}, not the value rounded to six decimals",
                         expected=want, actual=text)


# ---------------------------------------------------------------- calendar arithmetic of the harness (no datetime, no zone)
def leap(y):
    return (y % 4 == 0 and y % 100 != 0) or y % 400 == 0


def dim(y, m):
    if m == 2:
        return 29 if leap(y) else 28
    return 30 if m in (4, 6, 9, 11) else 31


def days_from_civil(y, m, d):
    """days since 1970-01-01 of the proleptic Gregorian date"""
    y -= m <= 2
    era = y // 400
    yoe = y - era * 400
    doy = (153 * (m + (-3 if m > 2 else 9)) + 2) // 5 + d - 1
    doe = yoe * 365 + yoe // 4 - yoe // 100 + doy
    return era * 146097 + doe - 719468


def civil_from_days(z):
    z += 719468
    era = z // 146097
    doe = z - era * 146097
    yoe = (doe - doe // 1460 + doe // 36524 - doe // 146096) // 365
    y = yoe + era * 400
    doy = doe - (365 * yoe + yoe // 4 - yoe // 100)
    mp = (5 * doy + 2) // 153
    d = doy - (153 * mp + 2) // 5 + 1
    m = mp + (3 if mp < 10 else -9)
    return (y + (m <= 2), m, d)


def fields(s):
    return (int(s[0:4]), int(s[4:6]), int(s[6:8]), int(s[8:10]), int(s[10:12]), int(s[12:14]))


def wall(t):
    """wall-clock second count -> 14 digits"""
    d, r = divmod(t, 86400)
    y, m, dd = civil_from_days(d)
    return f"{y:04}{m:02}{dd:02}{r // 3600:02}{r % 3600 // 60:02}{r % 60:02}"


def secs(s):
    y, mo, d, h, mi, se = fields(s)
    return days_from_civil(y, mo, d) * 86400 + h * 3600 + mi * 60 + se


def in_range(t):
    return secs("20000101000000") <= t <= secs("20991231235959")


# POSIX TZ strings (no tzdata needed): std offset [dst [offset] , start[/time] , end[/time]]
def _tz_name(s, i):
    if s[i] == "<":
        return s.index(">", i) + 1
    while i < len(s) and s[i].isalpha():
        i += 1
    return i


def _tz_hms(s, i):
    sign = 1
    if i < len(s) and s[i] in "+-":
        sign = -1 if s[i] == "-" else 1
        i += 1
    j = i
    while j < len(s) and (s[j].isdigit() or s[j] == ":"):
        j += 1
    parts = [int(p) for p in s[i:j].split(":")]
    parts += [0] * (3 - len(parts))
    return sign * (parts[0] * 3600 + parts[1] * 60 + parts[2]), j


def parse_posix_tz(s):
    """{'std': seconds east, 'dst': seconds east | None, 'start': rule, 'end': rule}; rule = (kind, a, b, c, time)"""
    i = _tz_name(s, 0)
    off, i = _tz_hms(s, i)
    z = {"std": -off, "dst": None}
    if i >= len(s):
        return z
    i = _tz_name(s, i)
    if i < len(s) and s[i] != ",":
        off, i = _tz_hms(s, i)
        z["dst"] = -off
    else:
        z["dst"] = z["std"] + 3600
    rules = s[i + 1:].split(",")
    for key, r in zip(("start", "end"), rules):
        date, _, tm = r.partition("/")
        t = _tz_hms(tm, 0)[0] if tm else 7200
        if date[0] == "M":
            a, b, c = (int(q) for q in date[1:].split("."))
            z[key] = ("M", a, b, c, t)
        elif date[0] == "J":
            z[key] = ("J", int(date[1:]), 0, 0, t)
        else:
            z[key] = ("D", int(date), 0, 0, t)
    return z


def rule_day(y, m, w, d):
    """day of the month of week w (5 = last) of weekday d (0 = Sunday) in month m"""
    dow1 = (days_from_civil(y, m, 1) + 4) % 7  # 1970-01-01 was a Thursday
    day = 1 + (d - dow1) % 7 + 7 * (w - 1)
    while day > dim(y, m):
        day -= 7
    return day


def rule_wall(rule, y):
    """wall-clock seconds of the transition of year y, on the clock in force before it"""
    kind, a, b, c, t = rule
    if kind == "M":
        base = days_from_civil(y, a, rule_day(y, a, b, c))
    elif kind == "J":  # 1..365, 29 February never counted
        base = days_from_civil(y, 1, 1) + a - 1 + (1 if leap(y) and a >= 60 else 0)
    else:  # 0..365, leap day counted
        base = days_from_civil(y, 1, 1) + a
    return base * 86400 + t


def transitions(z, y):
    """[('gap' | 'fold', lo, hi)]: wall-clock seconds lo <= t < hi that are skipped / occur twice in year y"""
    if z.get("dst") is None:
        return []
    save = z["dst"] - z["std"]
    out = []
    for rule, jump in ((z["start"], save), (z["end"], -save)):
        w = rule_wall(rule, y)
        out.append(("gap", w, w + jump) if jump > 0 else ("fold", w + jump, w))
    return out


# every ambient setting the process may run under is given to the library through these three switches
POSIX_ZONES = [
    "UTC0",
    "CET-1CEST,M3.5.0,M10.5.0/3",  # northern hemisphere, EU rule (skips 02:00-02:59 on the last Sunday of March)
    "EST5EDT,M3.2.0,M11.1.0",  # northern, US rule
    "GMT0BST,M3.5.0/1,M10.5.0",  # skips 01:00-01:59
    "EET-2EEST,M3.5.0/3,M10.5.0/4",
    "AEST-10AEDT,M10.1.0,M4.1.0/3",  # southern hemisphere: DST over the new year
    "NZST-12NZDT,M9.5.0,M4.1.0/3",  # southern, +12 / +13
    "LHST-10:30LHDT-11,M10.1.0,M4.1.0",  # half-hour DST shift
    "IST-5:30",  # half-hour offset, no DST
    "NPT-5:45",  # 45-minute offset
    "NST3:30NDT,M3.2.0,M11.1.0",  # half-hour offset west, with DST
    "<+1245>-12:45<+1345>,M9.5.0/2:45,M4.1.0/3:45",  # 45-minute offset, transitions at odd minutes
    "<+14>-14",  # far east
    "<+12>-12",
    "<-12>12",  # far west
    "<-11>11",
    "CST5CDT,M3.2.0/0,M11.1.0/1",  # the skipped hour starts at midnight
    "<-04>4<-03>,M9.1.6/24,M4.1.6/24",  # transition at 24:00 (the next day 00:00)
    "IST-1GMT0,M10.5.0,M3.5.0/1",  # negative DST (winter time is the 'daylight' zone)
    "<+0330>-3:30<+0430>,J79/24,J263/24",  # Julian-day rules
    "WET0WEST,59/2,300/2",  # zero-based day-of-year rules (leap day counted)
]
# named zones (used only when the tz database is installed): wall-clock times that never existed / existed twice
NAMED_ZONES = {
    "Europe/Prague": [],
    "Pacific/Apia": ["20111230000000", "20111230120000", "20111230235959", "20111229235959", "20111231000000"],
    "America/Caracas": ["20071209023000", "20071209025959", "20160501023000", "20160501025959", "20160501030000"],
    "Asia/Pyongyang": ["20150814233000", "20150815000000", "20180504233000", "20180504235959", "20180505000000"],
    "Europe/Moscow": ["20110327020000", "20110327023000", "20141026010000", "20141026013000"],
    "Australia/Lord_Howe": ["20211003020000", "20211003021500", "20210404013000", "20210404014500"],
    "America/St_Johns": ["20070311000100", "20070311003000", "20061029000100"],
    "Africa/Casablanca": ["20190505020000", "20190505023000", "20190609020000", "20220327020000"],
}
LOCALE_CANDIDATES = ["C", "POSIX", "C.UTF-8", "C.utf8", "en_US.UTF-8", "en_GB.UTF-8", "de_DE.UTF-8", "fr_FR.UTF-8",
                     "cs_CZ.UTF-8", "tr_TR.UTF-8", "ar_SA.UTF-8", "fa_IR.UTF-8", "hi_IN.UTF-8", "ja_JP.UTF-8"]
DECIMAL_CONTEXTS = {
    "prec=1,ROUND_UP": dict(prec=1, rounding=decimal.ROUND_UP),
    "prec=3,ROUND_FLOOR,traps=Inexact+Rounded": dict(prec=3, rounding=decimal.ROUND_FLOOR,
                                                     traps=[decimal.Inexact, decimal.Rounded]),
    "prec=60,ROUND_HALF_DOWN,Emax=9": dict(prec=60, rounding=decimal.ROUND_HALF_DOWN, Emax=9, Emin=-9),
}
_ENV_KEYS = ("TZ", "LC_ALL", "LANG", "LC_TIME", "LC_NUMERIC", "LOCPATH")

# A locale with a decimal comma, a thousands separator and non-English day / month / am-pm names, compiled on the spot
# with localedef (from this text and a 128-character charmap: no locale sources need to be installed).  It stands for
# the many national locales a dispatcher PC may run under; skipped (and counted) when localedef is not available.
CUSTOM_LOCALE = "cs_CZ"
_custom_locale_dir = []


def _locale_source():
    up = [f"<U{c:04X}>" for c in range(0x41, 0x5B)]
    lo = [f"<U{c:04X}>" for c in range(0x61, 0x7B)]
    dg = [f"<U{c:04X}>" for c in range(0x30, 0x3A)]
    cats = "\n".join(f'category "i18n:2012";{c}' for c in (
        "LC_IDENTIFICATION", "LC_CTYPE", "LC_COLLATE", "LC_TIME", "LC_NUMERIC", "LC_MONETARY", "LC_MESSAGES", "LC_PAPER",
        "LC_NAME", "LC_ADDRESS", "LC_TELEPHONE", "LC_MEASUREMENT"))
    ident = "\n".join(f'{k} ""' for k in ("source", "address", "contact", "email", "tel", "fax", "language", "territory"))
    return f"""comment_char %
escape_char /
LC_IDENTIFICATION
title "verification locale: decimal comma, non-English names"
{ident}
revision "1.0"
date "2026-01-01"
{cats}
END LC_IDENTIFICATION
LC_CTYPE
upper {";".join(up)}
lower {";".join(lo)}
digit {";".join(dg)}
space <U0020>;<U0009>;<U000A>;<U000B>;<U000C>;<U000D>
blank <U0020>;<U0009>
xdigit {";".join(dg + up[:6] + lo[:6])}
toupper {";".join(f"({a},{b})" for a, b in zip(lo, up))}
tolower {";".join(f"({a},{b})" for a, b in zip(up, lo))}
END LC_CTYPE
LC_COLLATE
order_start forward
UNDEFINED
order_end
END LC_COLLATE
LC_MONETARY
int_curr_symbol "CZK "
currency_symbol "Kc"
mon_decimal_point ","
mon_thousands_sep "."
mon_grouping 3;3
positive_sign ""
negative_sign "-"
int_frac_digits 2
frac_digits 2
p_cs_precedes 0
p_sep_by_space 1
n_cs_precedes 0
n_sep_by_space 1
p_sign_posn 1
n_sign_posn 1
END LC_MONETARY
LC_NUMERIC
decimal_point ","
thousands_sep "."
grouping 3;3
END LC_NUMERIC
LC_TIME
abday "ne";"po";"ut";"st";"ct";"pa";"so"
day "nedele";"pondeli";"utery";"streda";"ctvrtek";"patek";"sobota"
abmon "led";"uno";"bre";"dub";"kve";"cvn";"cvc";"srp";"zar";"rij";"lis";"pro"
mon "leden";"unor";"brezen";"duben";"kveten";"cerven";"cervenec";"srpen";"zari";"rijen";"listopad";"prosinec"
d_t_fmt "%a %e. %B %Y, %H:%M:%S"
d_fmt "%d.%m.%Y"
t_fmt "%H:%M:%S"
am_pm "dop";"odp"
t_fmt_ampm "%I:%M:%S %p"
week 7;19971130;4
first_weekday 2
END LC_TIME
LC_MESSAGES
yesexpr "^[+1aAyY]"
noexpr "^[-0nN]"
END LC_MESSAGES
LC_PAPER
height 297
width 210
END LC_PAPER
LC_NAME
name_fmt "%d%t%g%t%m%t%f"
END LC_NAME
LC_ADDRESS
postal_fmt "%f%N%a%N%d%N%b%N%s %h %e %r%N%z %T%N%c%N"
END LC_ADDRESS
LC_TELEPHONE
tel_int_fmt "+%c %a %l"
END LC_TELEPHONE
LC_MEASUREMENT
measurement 1
END LC_MEASUREMENT
"""


def custom_locale_dir():
    """directory for LOCPATH holding the compiled CUSTOM_LOCALE, or None when it cannot be built here"""
    if _custom_locale_dir:
        return _custom_locale_dir[0]
    import hashlib
    import shutil
    import subprocess
    import tempfile

    path = None
    try:
        exe = shutil.which("localedef")
        if exe:
            src = _locale_source()
            cm = "<code_set_name> ANSI_X3.4-1968\n<comment_char> %\n<escape_char> /\n<mb_cur_min> 1\n<mb_cur_max> 1\nCHARMAP\n"
            cm += "".join(f"<U{i:04X}> /x{i:02x} CHAR{i}\n" for i in range(128)) + "END CHARMAP\n"
            tag = hashlib.sha256((src + cm).encode()).hexdigest()[:12]
            base = os.path.join(tempfile.gettempdir(), f"verif-c14-locale-{tag}-{os.getuid()}")
            if not os.path.exists(os.path.join(base, CUSTOM_LOCALE, "LC_NUMERIC")):
                tmp = tempfile.mkdtemp(prefix="verif-c14-locale-")
                with open(os.path.join(tmp, "src"), "w") as fh:
                    fh.write(src)
                with open(os.path.join(tmp, "cm"), "w") as fh:
                    fh.write(cm)
                subprocess.run([exe, "--no-archive", "-c", "--no-warnings=intcurrsym", "-f", os.path.join(tmp, "cm"),
                                "-i", os.path.join(tmp, "src"), os.path.join(tmp, CUSTOM_LOCALE)],
                               capture_output=True, timeout=60, env={"PATH": os.environ.get("PATH", "")})
                if os.path.exists(os.path.join(tmp, CUSTOM_LOCALE, "LC_NUMERIC")):
                    try:
                        os.rename(tmp, base)
                    except OSError:  # somebody else was faster: use theirs, or ours if that failed
                        if not os.path.exists(os.path.join(base, CUSTOM_LOCALE, "LC_NUMERIC")):
                            base = tmp
                else:
                    base = None
            path = base
    except Exception:  # noqa
        path = None
    if path is not None:  # does the C library accept it?
        env = {k: os.environ.get(k) for k in _ENV_KEYS}
        loc = locale.setlocale(locale.LC_ALL)
        try:
            os.environ["LOCPATH"] = path
            locale.setlocale(locale.LC_ALL, CUSTOM_LOCALE)
            if locale.localeconv()["decimal_point"] != ",":
                path = None
        except locale.Error:
            path = None
        finally:
            for k, v in env.items():
                if v is None:
                    os.environ.pop(k, None)
                else:
                    os.environ[k] = v
            locale.setlocale(locale.LC_ALL, loc)
    _custom_locale_dir.append(path)
    return path


# ---------------------------------------------------------------- interpreter / process state (not an input either)
# loggers a tracing statement of the library could plausibly ask for (module paths, class names: utils/logging_trait.py
# names loggers after the class); every logger that exists when the setting is entered is switched as well, and a
# logger created later without a level of its own follows the root logger
LIB_LOGGERS = ("okdmr", "okdmr.dmrlib", "okdmr.dmrlib.motorola", "okdmr.dmrlib.motorola.mbxml", "okdmr.dmrlib.motorola.lrrp",
               "okdmr.dmrlib.motorola.arrp", "mbxml", "lrrp", "MBXML", "MBXMLToken", "MBXMLDocument", "LRRP", "ARRP")
LOGGING_SETTINGS = {  # name -> (level of the root logger, level of the library's loggers)
    "root=DEBUG,library=DEBUG": (logging.DEBUG, logging.DEBUG),
    "root=NOTSET,library=NOTSET": (logging.NOTSET, logging.NOTSET),  # a root logger at NOTSET processes everything
    "root=INFO,library=INFO": (logging.INFO, logging.INFO),
    "root=WARNING,library=DEBUG": (logging.WARNING, logging.DEBUG),
    "root=DEBUG,library=ERROR": (logging.DEBUG, logging.ERROR),
}
STDOUT_SETTINGS = ("stdout-raises-OSError", "stdout-closed", "stdout-None", "stdout-ascii-strict", "stdout-isatty", "stdout+stderr-raise-OSError",
                   "stdout+stderr-None")


class _Tty(io.StringIO):
    """an interactive terminal (what is written goes nowhere)"""

    def isatty(self):
        return True


def _no_trace(frame, event, arg):  # a debugger / coverage tool is attached: sys.gettrace() is not None
    return None
LOG_RECORDS = [0]


class _Capture(logging.Handler):
    """what a configured application has: a handler that formats every record it is given (so lazily formatted
    arguments are consumed as well); the text goes nowhere"""

    def emit(self, record):
        LOG_RECORDS[0] += 1
        try:
            record.getMessage()
        except Exception:  # noqa   (a real handler reports formatting errors on stderr and goes on)
            pass


class _Broken:
    """a stream whose consumer went away: every operation raises"""

    encoding = "utf-8"
    errors = "strict"
    closed = False

    def _fail(self, *a, **kw):
        raise OSError(errno.EPIPE, "Broken pipe")

    write = writelines = flush = fileno = _fail

    def writable(self):
        return True

    def isatty(self):
        return False


@contextlib.contextmanager
def logging_state(name):
    root_level, lib_level = LOGGING_SETTINGS[name]
    root = logging.getLogger()
    mgr = logging.Logger.manager
    saved = (mgr.disable, root.level, list(root.handlers), logging.lastResort)
    loggers = {n: lg for n, lg in list(mgr.loggerDict.items()) if isinstance(lg, logging.Logger)}
    existed = set(mgr.loggerDict)
    for n in LIB_LOGGERS:
        loggers[n] = logging.getLogger(n)
    levels = {n: (lg.level, lg.disabled, lg.propagate) for n, lg in loggers.items()}
    cap = _Capture(level=logging.NOTSET)
    try:
        logging.disable(logging.NOTSET)
        root.handlers[:] = [cap]
        root.setLevel(root_level)
        for lg in loggers.values():
            lg.setLevel(lib_level)
            lg.disabled = False
        before = LOG_RECORDS[0]
        root.log(max(root_level, logging.DEBUG), "harness self-test %s", name)
        logging.getLogger("MBXML").log(max(lib_level, logging.DEBUG), "harness self-test %s", name)
        if LOG_RECORDS[0] != before + 2:
            raise Infra(f"logging setting {name} is not in force: {LOG_RECORDS[0] - before} of 2 self-test records arrived")
        yield
    finally:
        for n, lg in loggers.items():
            lg.setLevel(levels[n][0])
            lg.disabled, lg.propagate = levels[n][1], levels[n][2]
        root.handlers[:] = saved[2]
        root.setLevel(saved[1])
        logging.lastResort = saved[3]
        logging.disable(saved[0])
        for n in set(mgr.loggerDict) - existed:  # loggers made here keep no trace in later settings
            lg = mgr.loggerDict[n]
            if isinstance(lg, logging.Logger):
                lg.setLevel(logging.NOTSET)
                lg.handlers[:] = []


@contextlib.contextmanager
def stdout_state(name):
    out, err = sys.stdout, sys.stderr
    try:
        if name == "stdout-closed":
            f = io.StringIO()
            f.close()
            sys.stdout = f
        elif name == "stdout-ascii-strict":  # a C-locale terminal: text outside ASCII cannot be printed
            sys.stdout = io.TextIOWrapper(io.BytesIO(), encoding="ascii", errors="strict", write_through=True)
        elif name == "stdout-sink":
            sys.stdout = io.StringIO()
        elif name == "stdout-isatty":
            sys.stdout = _Tty()
        else:
            sys.stdout = None if name.endswith("None") else _Broken()
            if name.startswith("stdout+stderr"):
                sys.stderr = sys.stdout
        yield
    finally:
        sys.stdout, sys.stderr = out, err


@contextlib.contextmanager
def ambient(cfg):
    """switch the process' time zone (TZ + tzset), locale (LC_ALL + setlocale), decimal context, logging configuration,
    standard streams, warning filters and global random state inside this process, and put everything back afterwards,
    whatever happens"""
    cfg = cfg or {}
    with contextlib.ExitStack() as stack:
        if cfg.get("logging") is not None:
            stack.enter_context(logging_state(cfg["logging"]))
        if cfg.get("warnings") is not None:
            stack.enter_context(warnings.catch_warnings())
            warnings.simplefilter(cfg["warnings"])
        if cfg.get("settrace") is not None:
            stack.callback(sys.settrace, sys.gettrace())
            stack.callback(threading.settrace, None)
            sys.settrace(_no_trace)
            threading.settrace(_no_trace)
        if cfg.get("random") is not None:
            state = random.getstate()
            stack.callback(random.setstate, state)
            random.seed(cfg["random"])
        if cfg.get("env") is not None:  # environment variables the source under test reads (found by source_env_names)
            old_env = {k: os.environ.get(k) for k in cfg["env"]}
            stack.callback(lambda: [os.environ.pop(k, None) if v is None else os.environ.__setitem__(k, v) for k, v in old_env.items()])
            os.environ.update(cfg["env"])
        if cfg.get("library_debug") is not None:  # the library's own switch: MBXML.DEBUG (set by from_bytes(debug=True))
            M = _mbxml()
            stack.callback(setattr, M, "DEBUG", M.DEBUG)
            M.DEBUG = bool(cfg["library_debug"])
            if cfg.get("stdout") is None:
                stack.enter_context(stdout_state("stdout-sink"))  # what it prints is not the harness' output
        if cfg.get("stdout") is not None:  # innermost: left first, so nothing of the harness meets the broken stream
            stack.enter_context(stdout_state(cfg["stdout"]))
        with _ambient_os(cfg):
            yield


@contextlib.contextmanager
def _ambient_os(cfg):
    env = {k: os.environ.get(k) for k in _ENV_KEYS}
    loc = locale.setlocale(locale.LC_ALL)
    dctx = decimal.getcontext()
    try:
        if cfg.get("tz") is not None:
            os.environ["TZ"] = cfg["tz"]
            time.tzset()
        if cfg.get("locale") is not None:
            if cfg.get("custom_locale"):
                os.environ["LOCPATH"] = custom_locale_dir() or ""
            os.environ["LC_ALL"] = cfg["locale"]
            os.environ["LANG"] = cfg["locale"]
            locale.setlocale(locale.LC_ALL, cfg["locale"])
        if cfg.get("decimal") is not None:
            decimal.setcontext(decimal.Context(**DECIMAL_CONTEXTS[cfg["decimal"]]))
        yield
    finally:
        for k, v in env.items():
            if v is None:
                os.environ.pop(k, None)
            else:
                os.environ[k] = v
        time.tzset()
        try:
            locale.setlocale(locale.LC_ALL, loc)
        except locale.Error:  # pragma: no cover
            locale.setlocale(locale.LC_ALL, "C")
        decimal.setcontext(dctx)


def available_locales():
    out = []
    loc = locale.setlocale(locale.LC_ALL)
    for name in LOCALE_CANDIDATES:
        try:
            locale.setlocale(locale.LC_ALL, name)
            out.append(name)
        except locale.Error:
            pass
    locale.setlocale(locale.LC_ALL, loc)
    return out


def amb_text(cfg):
    return ", ".join(f"{k}={v}" for k, v in (cfg or {}).items() if v is not None and k != "custom_locale") or "process default"


# ---------------------------------------------------------------- info-time
class _SubDatetime(datetime.datetime):
    pass


_AWARE = {
    "aware-utc": datetime.timezone.utc,
    "aware+0530": datetime.timezone(datetime.timedelta(hours=5, minutes=30)),
    "aware-1200": datetime.timezone(datetime.timedelta(hours=-12)),
    "aware+1400": datetime.timezone(datetime.timedelta(hours=14)),
}
NAIVE_FORMS = ("str", "int", "datetime", "datetime-fold1")
OTHER_FORMS = ("datetime-subclass", "datetime-microsecond") + tuple(_AWARE)
_OLD_FORMS = {0: "str", 1: "int", 2: "datetime"}


def it_arg(s, form):
    """the argument of write_infotime for the 14 digits s (built from the digits: no strptime, no zone)"""
    form = _OLD_FORMS.get(form, form)
    if form == "str":
        return s
    if form == "int":
        return int(s)
    f = fields(s)
    if form == "datetime":
        return datetime.datetime(*f)
    if form == "datetime-fold1":
        return datetime.datetime(*f, fold=1)
    if form == "datetime-subclass":
        return _SubDatetime(*f)
    if form == "datetime-microsecond":
        return datetime.datetime(*f, 999999)
    return datetime.datetime(*f, tzinfo=_AWARE[form])


def it_check(ctx, M, s, form, cfg, wl, dl, n=0):
    """write_infotime(s given as `form`) through the real XML view under the ambient setting that is active"""
    arg = it_arg(s, form)
    b = call(M.write_infotime, arg)
    wl[(f"it.write {s}", hx(b))] = None
    inp = {"op": "infotime", "value": s, "form": form}
    if cfg:
        inp["ambient"] = cfg
    where = f" [{amb_text(cfg)}]" if cfg else ""
    if isinstance(b, str):
        ctx.fail("infotime-write-raises", inp, f"write_infotime({arg!r}) raised {b}{where}")
        return
    text = xml_infotime(b, "info-time" if n % 8 else 0x35)
    dl[(f"it.decode {b.hex()}", text.replace(" ", "_"))] = None
    if text != s or len(b) != 5:
        ctx.fail("infotime-roundtrip", inp, f"XML view of write_infotime({arg!r}) shows {text!r}{where}", expected=s, actual=text)


def generic_instants(ctx):
    """date-times every ambient setting is tried on: first / last second of the range, year / month / day ends,
    leap days, the 32-bit time_t limit, round epoch numbers, the historical test vector"""
    out = ["20030630073000", "20000101000000", "20991231235959", "20000101000001", "20991231235958",
           "20380119031407", "20380119031408", "20010909014640", "20330518033320", "20210328023000"]
    for y in (2000, 2001, 2004, 2021, 2024, 2037, 2038, 2039, 2096, 2099):
        for mo in (1, 2, 3, 6, 10, 12):
            last = f"{y:04}{mo:02}{dim(y, mo):02}"
            out += [last + "235959", last + "000000", last + "120000", f"{y:04}{mo:02}01000000", f"{y:04}{mo:02}01235959"]
        if leap(y):
            out += [f"{y:04}0229000000", f"{y:04}0229235959", f"{y:04}0228235959", f"{y:04}0301000000"]
    return list(dict.fromkeys(out))


def zone_instants(ctx, z, years, n_rand):
    """(class, 14 digits) around every skipped / repeated local hour of the years, and the local wall-clock readings
    of remarkable UTC instants in this zone"""
    out = []
    for y in years:
        for kind, lo, hi in transitions(z, y):
            span = hi - lo
            offs = {-3600, -61, -60, -1, 0, 1, 59, 60, 61, span // 2, span - 61, span - 60, span - 1, span, span + 1,
                    span + 60, span + 61, span + 3600, -span, 2 * span - 1, 2 * span}
            offs |= set(range(0, span, 420))
            offs |= {ctx.rng.randrange(-span, 2 * span) for _ in range(n_rand)}
            for o in sorted(offs):
                t = lo + o
                if in_range(t):
                    cls = ("skipped-hour" if kind == "gap" else "repeated-hour") if lo <= t < hi else "next-to-transition"
                    out.append((cls, wall(t)))
            for off in {z["std"], z["dst"]}:  # the same instants on the UTC clock
                for t in (lo - off, hi - off):
                    if in_range(t):
                        out.append(("utc-reading-of-transition", wall(t)))
    for u in ("20000101000000", "20991231235959", "21000101000000", "19991231235959", "20380119031407", "20380119031408",
              "20240229120000", "20010909014640"):
        for off in {z["std"], z.get("dst") if z.get("dst") is not None else z["std"]}:
            for d in (-1, 0, 1):
                for t in (secs(u) + off + d, secs(u) - off + d):
                    if in_range(t):
                        out.append(("utc-landmark-on-local-clock", wall(t)))
    return out


def libc_confirms(kind, lo, hi):
    """does the C library, under the TZ that is active, agree that the middle of [lo, hi) is skipped / repeated?"""
    f = fields(wall(lo + (hi - lo) // 2))
    try:
        a = datetime.datetime(*f)
        if kind == "gap":
            return datetime.datetime.fromtimestamp(a.timestamp()) != a
        return a.timestamp() != a.replace(fold=1).timestamp()
    except (OverflowError, OSError, ValueError):
        return False


def run_infotime(ctx, M):
    cases = ["20030630073000"]
    times = ["000000", "235959", "073000", "120000", "005900", "230059"]
    years = range(2000, 2100) if ctx.thorough() else (2000, 2001, 2004, 2023, 2024, 2096, 2099)
    for y in years:
        for mo in range(1, 13):
            days = range(1, dim(y, mo) + 1) if ctx.thorough() else (1, 15, dim(y, mo))
            for d in days:
                for t in (times if not ctx.thorough() else (times[(y + mo + d) % 6], times[(y * 7 + d) % 6])):
                    cases.append(f"{y:04}{mo:02}{d:02}{t}")
    for _ in range(ctx.budget(1500, 60000)):
        y = ctx.rng.randrange(2000, 2100)
        mo = ctx.rng.randrange(1, 13)
        d = ctx.rng.randrange(1, dim(y, mo) + 1)
        cases.append(f"{y:04}{mo:02}{d:02}{ctx.rng.randrange(24):02}{ctx.rng.randrange(60):02}{ctx.rng.randrange(60):02}")
    wl, dl = {}, {}
    forms = NAIVE_FORMS[:3]
    for n, s in enumerate(cases):
        form = forms[n % 3] if n % 11 else ("datetime-fold1", "datetime-subclass")[(n // 11) % 2]
        ctx.case(("it", s), sample={"op": "write_infotime + as_xml", "value": s,
                                    "octets": hx(call(M.write_infotime, s))} if n == 0 else None)
        ctx.count(f"infotime:{form}")
        it_check(ctx, M, s, form, None, wl, dl, n)
    wl, dl = list(wl), list(dl)
    # strings strptime must reject / accept at the calendar's edges (correspondence only)
    for s in ("20030230000000", "20031301000000", "20030631000000", "20030630240000", "20030630236000",
              "20030630235960", "20030600000000", "20030001000000", "00000101000000", "21000229000000",
              "20000229000000", "19991231235959", "99991231235959", "00010101000000", "21000228235959"):
        wl.append((f"it.write {s}", hx(call(M.write_infotime, s))))
        ctx.case(("it-edge", s))
    for _ in range(ctx.budget(300, 10000)):
        b = bytes(ctx.rng.randrange(256) for _ in range(5))
        dl.append((f"it.decode {b.hex()}", xml_infotime(b).replace(" ", "_")))
        ctx.case(("it-decode", b))
    if not ctx.search_only and ctx.driver_ok:
        ctx.correspond("write_infotime", wl)
        ctx.correspond("as_xml info-time", dl)


# ---------------------------------------------------------------- a sample of every codec, re-executable from its key
def probe_keys(ctx, M):
    """[(key, expected | None)]: key is a JSON-able call description (see probe_exec); expected is the harness' own
    answer where it has one, otherwise the result under the process' default setting is the reference"""
    rng = ctx.rng
    out = []
    us = [0, 1, 127, 128, 129, 255, 256, 896, 16383, 16384, 16512, 2**21 - 1, 2**21, 2**28 - 1, 2**28, U_MAX - 127, U_MAX]
    us += [rng.randrange(2 ** rng.randrange(1, 33)) for _ in range(60)]
    for v in us:
        e = enc_u(v)
        out.append((["uw", v], e.hex()))
        out.append((["ur", (b"\xff" + e + b"\x80").hex(), 1], f"{v} {1 + len(e)}"))
    ss = [0, 1, -1, 63, 64, -64, 65, 8191, 8192, -8192, 2**20, -(2**20), S_MAX, -S_MAX]
    for k in range(0, 5):  # both sides of every sign-septet boundary (magnitudes whose bit length is a multiple of 7)
        for m in (64 * 128**k - 1, 64 * 128**k, 64 * 128**k + 1, 128 ** (k + 1) - 1, 128 ** (k + 1)):
            if m <= S_MAX:
                ss += [m, -m]
    ss = list(dict.fromkeys(ss))
    ss += [rng.choice((1, -1)) * rng.randrange(2 ** rng.randrange(1, 32)) for _ in range(60)]
    for v in ss:
        e = enc_s(abs(v), v < 0)
        out.append((["sw", v], e.hex()))
        out.append((["sr", (e + b"\x7f").hex(), 0], f"{v} {len(e)} {-1 if v < 0 else 1}"))
    grid = [(1, 1, 2), (1, 127, 2), (0, 1, 3), (0, 1, 2), (128, 0, 1), (64, 10, 1), (0, 10, 1), (160, 983, 2), (37, 64, 1)]
    grid += [(i, f, p) for p in (1, 2, 3) for i in (63, 64, 127, 128, 8191, 8192, 16383, 2**20, 2**21 - 1, 2**27, 2**28 - 1, S_MAX)
             for f in (0, 1, 128**p - 1)]
    grid += [(rng.randrange(2 ** rng.randrange(1, 31)), rng.randrange(128**p), p) for p in (1, 2, 3) for _ in range(25)]
    for (i, f, p) in grid:
        v = i + f / 128**p
        e = enc_u(i) + enc_frac(f, p)
        out.append((["ufw", v.hex(), p], e.hex()))
        out.append((["ufr", e.hex(), 0], fstr(v, len(e))))
        for sgn in (1, -1):
            e = enc_s(i, sgn < 0 and (i, f) != (0, 0)) + enc_frac(f, p)
            out.append((["sfw", (sgn * v).hex(), p], e.hex()))
            out.append((["sfr", e.hex(), 0], fstr(sgn * v if (i, f) != (0, 0) else 0.0, len(e))))
    for _ in range(40):
        data = bytes(rng.randrange(256) for _ in range(rng.randrange(1, 8)))
        for op in ("ur", "sr", "ufr", "sfr"):
            out.append(([op, data.hex(), 0], None))
    for m in [0, 1, 12345345, 45000000, 89999911, 89999999, 90000000] + [rng.randrange(90000001) for _ in range(40)]:
        out.append((["lat", m], str(m / 1e6)))
        out.append((["latb", m], None))
    for m in [0, 1, 24668866, 179999999, 180000000, 359999999] + [rng.randrange(360000000) for _ in range(40)]:
        out.append((["lon", m], str(m / 1e6)))
        out.append((["lonb", m], None))
    for x in [1 / 128, 11519 / 128, 0.5e-6, 89.9999995, 90 - 9e-8, 90 - 1e-9] + [rng.random() * 90 for _ in range(30)]:
        out.append((["latd", x.hex()], str(micro_round(x) / 1e6)))
    for x in [3 / 128, 46079 / 128 - 1, 1.5e-6, 359.9999994] + [rng.random() * 359.9 for _ in range(30)]:
        out.append((["lond", x.hex()], str(micro_round(x) / 1e6)))
    # date-times (every argument form) and the fraction writer on its own
    its = ["20030630073000", "20000101000000", "20991231235959", "20240229120000", "20380119031408", "20210328023000"]
    for _ in range(40):
        y, mo = rng.randrange(2000, 2100), rng.randrange(1, 13)
        its.append(f"{y:04}{mo:02}{rng.randrange(1, dim(y, mo) + 1):02}{rng.randrange(24):02}{rng.randrange(60):02}{rng.randrange(60):02}")
    for k, s in enumerate(its):
        for form in (NAIVE_FORMS if k < 6 else (NAIVE_FORMS[k % 4],)):
            out.append((["it", s, form], s))
        out.append((["itb", s, "str"], None))
    for p in (1, 2, 3):
        for f in [0, 1, 127, 128**p - 1, 128 ** (p - 1)] + [rng.randrange(128**p) for _ in range(12)]:
            out.append((["fw", f, p], enc_frac(f, p).hex()))
    return out


def wide_keys(ctx, M, cap=1500):
    """a fixed, seeded sample of the WHOLE oracle (the value generators of run_uint / run_sint / run_floats / run_latlon /
    run_infotime, thinned out), with the harness' own expected values: for the settings that change what the interpreter
    executes (logging switched on, asserts stripped, broken stdout, the library's DEBUG switch)"""
    rng = ctx.rng
    out = []

    def thin(vals):
        vals = list(dict.fromkeys(vals))
        if len(vals) > cap:
            vals = vals[:: len(vals) // cap + 1]
        return vals

    corpus, _dense, bnd, rnd = uint_values(ctx)
    for v in thin(corpus + list(range(0, 300)) + bnd + rnd[:400]):
        e = enc_u(v)
        out.append((["uw", v], e.hex()))
        out.append((["ur", (b"\x81" + e + b"\x00").hex(), 1], f"{v} {1 + len(e)}"))
    sb = set()
    for k in range(0, 5):
        for base in (64 * 128**k, 128**k, 63 * 128**k, 127 * 128**k):
            for d in (-1, 0, 1):
                if 0 <= base + d <= S_MAX:
                    sb |= {base + d, -(base + d)}
    for k in range(1, 32):
        for d in (-1, 0, 1):
            if 2**k + d <= S_MAX:
                sb |= {2**k + d, -(2**k + d)}
    sr = [rng.choice((1, -1)) * rng.randrange(2 ** (bl - 1), 2**bl) for bl in (rng.randrange(1, 32) for _ in range(400))]
    for v in thin(list(range(-150, 151)) + sorted(sb) + sr):
        e = enc_s(abs(v), v < 0)
        out.append((["sw", v], e.hex()))
        out.append((["sr", (e + b"\xff").hex(), 0], f"{v} {len(e)} {-1 if v < 0 else 1}"))
    for signed in (False, True):
        for (i, f, p) in thin(float_grid(ctx, signed)):
            v = i + f / 128**p
            if not signed:
                e = enc_u(i) + enc_frac(f, p)
                out.append((["ufw", v.hex(), p], e.hex()))
                out.append((["ufr", e.hex(), 0], fstr(v, len(e))))
                continue
            for sgn in (1, -1):
                e = enc_s(i, sgn < 0 and (i, f) != (0, 0)) + enc_frac(f, p)
                out.append((["sfw", (sgn * v).hex(), p], e.hex()))
                out.append((["sfr", e.hex(), 0], fstr(sgn * v if (i, f) != (0, 0) else 0.0, len(e))))
    for top, op in ((90000000, "lat"), (359999999, "lon")):
        ms = [c + d for c in (0, 45000000, 90000000, 180000000, 270000000, 359999999) for d in range(-3, 4)]
        ms += [j * 703125 + d for j in range(0, 513, 7) for d in (-1, 0, 1)] + [rng.randrange(top + 1) for _ in range(250)]
        for m in thin(m for m in ms if 0 <= m <= top):
            out.append(([op, m], str(m / 1e6)))
    for _ in range(250):
        y, mo = rng.randrange(2000, 2100), rng.randrange(1, 13)
        s = f"{y:04}{mo:02}{rng.randrange(1, dim(y, mo) + 1):02}{rng.randrange(24):02}{rng.randrange(60):02}{rng.randrange(60):02}"
        out.append((["it", s, NAIVE_FORMS[len(out) % 4]], s))
    for s in generic_instants(ctx):
        out.append((["it", s, NAIVE_FORMS[len(out) % 4]], s))
    return out


def probe_exec(M, key):
    op = key[0]
    if op == "uw":
        return hx(call(M.write_uintvar, key[1]))
    if op == "sw":
        return hx(call(M.write_sintvar, key[1]))
    if op in ("ur", "sr"):
        r = call(M.read_uintvar if op == "ur" else M.read_sintvar, bytes.fromhex(key[1]), key[2])
        return r if isinstance(r, str) else " ".join(str(q) for q in r)
    if op in ("ufw", "sfw"):
        return hx(call(M.write_ufloatvar if op == "ufw" else M.write_sfloatvar, float.fromhex(key[1]), key[2]))
    if op in ("ufr", "sfr"):
        r = call(M.read_ufloatvar if op == "ufr" else M.read_sfloatvar, bytes.fromhex(key[1]), key[2])
        return r if isinstance(r, str) else fstr(r[0], r[1])
    if op in ("lat", "latb", "latd", "lon", "lonb", "lond"):
        x = float.fromhex(key[1]) if op.endswith("d") else key[1] / 1e6
        lat = op.startswith("lat")
        b = call(M.write_latitude if lat else M.write_longitude, x)
        if isinstance(b, str) or op.endswith("b"):
            return hx(b)
        la, lo = xml_latlon(b, bytes(4)) if lat else xml_latlon(bytes(4), b)
        return la if lat else lo
    if op in ("it", "itb"):
        b = call(M.write_infotime, it_arg(key[1], key[2]))
        if isinstance(b, str) or op == "itb":
            return hx(b)
        return xml_infotime(b)
    if op == "fw":
        return hx(call(M.write_fraction, key[1], key[2]))
    raise ValueError(key)


def run_probe(ctx, M, keys, cfg, baseline, _in_thread=False):
    """the sample of every codec under the ambient setting that is active; returns the results"""
    if cfg and cfg.get("thread") and not _in_thread:  # the same, but every call is made in a thread that is not the main one
        box = []
        th = threading.Thread(target=lambda: box.append(run_probe(ctx, M, keys, cfg, baseline, True)))
        th.start()
        th.join()
        if not box:
            raise Infra("the worker thread of the ambient probe died")
        return box[0]
    res = []
    reseed = cfg.get("random") if cfg else None
    for n, (key, want) in enumerate(keys):
        if reseed is not None:
            random.seed(reseed)
        got = probe_exec(M, key)
        res.append(got)
        ref = want if want is not None else (baseline[n] if baseline is not None else None)
        ctx.case(("probe", amb_text(cfg), key), nontrivial=baseline is None)
        if ref is not None and got != ref:
            inp = {"op": "probe", "call": key}
            if cfg:
                inp["ambient"] = cfg
            ctx.fail("codec-result" if baseline is None or baseline[n] == got else "ambient-dependent-result", inp,
                     f"{key[0]}({', '.join(str(k) for k in key[1:])}) gives {got} under [{amb_text(cfg)}]",
                     expected=ref, actual=got)
    return res


# ---------------------------------------------------------------- the same sample in other interpreters
HARNESS = os.path.dirname(os.path.dirname(os.path.abspath(__file__)))
CHILD_MODES = {  # name -> (interpreter options, environment, sys.flags.optimize expected in the child)
    "python -O": (["-O"], {"PYTHONHASHSEED": "1"}, 1),
    "PYTHONOPTIMIZE=2": ([], {"PYTHONOPTIMIZE": "2", "PYTHONHASHSEED": "4242"}, 2),
}
CHILD_TIMEOUT = 120


def child_start(mode, items, extra_env=None):
    """start `python <options>` on the items [[key, expected], …]; the job and the answer travel in files"""
    argv, env_add, _opt = CHILD_MODES[mode]
    d = tempfile.mkdtemp(prefix="verif-c14-child-")
    with open(os.path.join(d, "job.json"), "w") as fh:
        json.dump({"items": items}, fh)
    env = dict(os.environ)
    env.pop("PYTHONOPTIMIZE", None)
    env.update(env_add)
    env.update(extra_env or {})
    env["PYTHONDONTWRITEBYTECODE"] = "1"  # no *.opt-N.pyc next to the sources under test
    code = f"import sys; sys.path.insert(0, {HARNESS!r}); import props.c14 as m; sys.exit(m.child_main(sys.argv[1]))"
    with open(os.path.join(d, "stderr"), "w") as err:
        p = subprocess.Popen([sys.executable] + argv + ["-c", code, d], stdin=subprocess.DEVNULL, stdout=subprocess.DEVNULL,
                             stderr=err, env=env, cwd=HARNESS)
    ch = {"mode": mode, "dir": d, "proc": p, "t0": time.time(), "n": len(items), "env": extra_env or None}
    atexit.register(_child_cleanup, ch)  # whatever happens in between, nothing is left behind
    return ch


def _child_cleanup(ch):
    import shutil

    if ch["proc"].poll() is None:
        ch["proc"].kill()
    shutil.rmtree(ch["dir"], ignore_errors=True)


def child_result(ch):
    """the child's answer (dict); Infra when it did not answer"""
    import shutil

    try:
        try:
            rc = ch["proc"].wait(timeout=CHILD_TIMEOUT)
        except subprocess.TimeoutExpired:
            ch["proc"].kill()
            raise Infra(f"child interpreter [{ch['mode']}] did not finish within {CHILD_TIMEOUT} s")
        try:
            with open(os.path.join(ch["dir"], "result.json")) as fh:
                res = json.load(fh)
        except (OSError, ValueError):
            err = open(os.path.join(ch["dir"], "stderr")).read()[-1500:]
            raise Infra(f"child interpreter [{ch['mode']}] gave no answer (rc={rc}): {err}")
        res["wall_s"] = round(time.time() - ch["t0"], 2)
        if res.get("fatal") is None and (res.get("optimize") != CHILD_MODES[ch["mode"]][2] or not res.get("asserts_stripped")):
            raise Infra(f"child interpreter [{ch['mode']}] does not run optimised: {res.get('optimize')}")
        return res
    finally:
        shutil.rmtree(ch["dir"], ignore_errors=True)


def children_start(items, extra_env=None):
    """one child per mode; the last one also gets the environment variables the source under test reads (set to 1)"""
    modes = list(CHILD_MODES)
    return [child_start(mode, items, extra_env if (extra_env and mode == modes[-1]) else None) for mode in modes]


def children_collect(ctx, children):
    for ch in children:
        res = child_result(ch)
        mode = ch["mode"]
        ctx.count(f"ambient:child-interpreter:{mode}:calls", res.get("done", 0))
        ctx.notes.append(f"child interpreter [{mode}]: {res.get('done', 0)} calls, {len(res.get('failures', []))} differences, "
                         f"sys.flags.optimize={res.get('optimize')}, {res.get('child_s')} s in the child after start-up (running beside the parent; "
                         f"collected after {res['wall_s']} s)")
        if res.get("fatal") is not None:
            ctx.fail("library-unusable-in-child-interpreter", dict({"op": "child", "mode": mode, "call": None}, **({"env": ch["env"]} if ch["env"] else {})),
                     f"under [{mode}] the library cannot even be imported: {res['fatal']}", actual=res["fatal"])
            continue
        for f in res.get("failures", []):
            ctx.case(("child", mode, f["key"]))
            ctx.fail("interpreter-option-dependent-result", dict({"op": "child", "mode": mode, "call": f["key"]}, **({"env": ch["env"]} if ch["env"] else {})),
                     f"{f['key'][0]}({', '.join(str(k) for k in f['key'][1:])}) gives {f['actual']} under [{mode}]",
                     expected=f["expected"], actual=f["actual"])


def child_main(d):
    """runs in the child interpreter: the sample of every codec against the expected values of the parent"""
    t0 = time.time()
    res = {"optimize": sys.flags.optimize, "hashseed": os.environ.get("PYTHONHASHSEED"), "fatal": None, "failures": [], "done": 0}
    try:
        assert False, "asserts are executed"
        res["asserts_stripped"] = True
    except AssertionError:
        res["asserts_stripped"] = False
    out = sys.stdout
    sys.stdout = open(os.devnull, "w")  # whatever the library prints is not part of the answer
    try:
        logging.disable(logging.CRITICAL)
        with open(os.path.join(d, "job.json")) as fh:
            job = json.load(fh)
        try:
            M = _mbxml()
            from okdmr.dmrlib.motorola.lrrp import LRRP  # noqa
        except BaseException as e:  # noqa
            res["fatal"] = f"{type(e).__name__}: {e}"
            M = None
        if M is not None:
            for key, want in job["items"]:
                got = probe_exec(M, key)
                res["done"] += 1
                if got != want and len(res["failures"]) < 200:
                    res["failures"].append({"key": key, "expected": want, "actual": got})
    finally:
        sys.stdout = out
        res["child_s"] = round(time.time() - t0, 2)
        tmp = os.path.join(d, "result.json.tmp")
        with open(tmp, "w") as fh:
            json.dump(res, fh)
        os.rename(tmp, os.path.join(d, "result.json"))
    return 0


# ---------------------------------------------------------------- the same codecs under other ambient settings
def run_ambient(ctx, M):
    """result depends on ambient process configuration: time zone, locale, decimal context.  The date-time part
    of the oracle (skipped / repeated local hours of each zone computed from its POSIX rule, the minutes around them,
    calendar boundaries) and a sample of every other codec are repeated under each setting; the expected values come
    from the harness' calendar arithmetic and the Lean model, which read no ambient state."""
    keys = probe_keys(ctx, M)
    baseline = run_probe(ctx, M, keys, None, None)
    ctx.count("ambient:probe-calls-per-setting", len(keys))
    # a wider sample of the whole oracle for the settings that change what the interpreter executes
    wkeys = keys + wide_keys(ctx, M)
    wbase = baseline + run_probe(ctx, M, wkeys[len(keys):], None, None)
    ctx.count("ambient:probe-calls-per-setting(wide sample: logging on / broken stdout / library DEBUG / child interpreters)", len(wkeys))
    import okdmr.dmrlib.motorola.lrrp as lrrp_mod
    import okdmr.dmrlib.motorola.mbxml as mbxml_mod

    env_names = [e for e in source_env_names(mbxml_mod, lrrp_mod) if e not in _ENV_KEYS]
    ctx.count("ambient:environment-variables-read-by-the-source-under-test", len(env_names))
    # the child interpreters work while this process goes on; their answers are collected at the end
    children = children_start([[key, want if want is not None else wbase[n]] for n, (key, want) in enumerate(wkeys)],
                              {e: "1" for e in env_names})
    generic = generic_instants(ctx)
    years = list(range(2000, 2100)) if ctx.thorough() else sorted(
        {2000, 2001, 2010, 2021, 2024, 2037, 2038, 2050, 2099} | {ctx.rng.randrange(2000, 2100) for _ in range(2)})
    wl, dl, cal = {}, {}, {}
    zones = [(tz, parse_posix_tz(tz)) for tz in POSIX_ZONES]
    zoneinfo = "/usr/share/zoneinfo"
    named = [(tz, None) for tz in NAMED_ZONES if os.path.exists(os.path.join(zoneinfo, tz))]
    ctx.count("ambient:named-zones-available", len(named))
    naive_later = []  # (cfg, s, form): the forms whose expected value is debatable run after all naive ones
    n = 0
    for tz, z in zones + named:
        cfg = {"tz": tz}
        inst = [("generic", s) for s in generic]
        if z is not None:
            inst = zone_instants(ctx, z, years, 3) + inst
            for y in years:  # the harness' transition arithmetic is confirmed by the Lean calendar (below)
                for kind, lo, hi in transitions(z, y):
                    cal[(f"cal.add {wall(lo)} {hi - lo}", wall(hi))] = None
                for rule in ((z["start"], z["end"]) if z["dst"] is not None else ()):
                    w = rule_wall(rule, y)
                    cal[(f"cal.add {y:04}0101000000 {w - secs(f'{y:04}0101000000')}", wall(w))] = None
                    if rule[0] == "M":
                        day = rule_day(y, rule[1], rule[2], rule[3])
                        cal[(f"cal.rule {y} {rule[1]} {rule[2]} {rule[3]}", str(day))] = None
                        cal[(f"cal.dow {y:04}{rule[1]:02}{day:02}000000", str(rule[3]))] = None
        else:
            inst = [("named-zone-anomaly", s) for s in NAMED_ZONES[tz]] + inst
        with ambient(cfg):
            if z is not None:
                for y in years:
                    for kind, lo, hi in transitions(z, y):
                        if in_range(lo) and in_range(hi):
                            ctx.count("ambient:transition-confirmed-by-libc" if libc_confirms(kind, lo, hi)
                                      else f"ambient:transition-NOT-confirmed-by-libc:{tz}")
            for k, (cls, s) in enumerate(dict.fromkeys(inst)):
                special = cls in ("skipped-hour", "repeated-hour", "named-zone-anomaly")
                forms = NAIVE_FORMS if special or k % 5 == 0 else (NAIVE_FORMS[k % 3],)
                for form in forms:
                    n += 1
                    ctx.case(("amb-it", tz, s, form))
                    ctx.count(f"ambient:infotime:{cls}")
                    it_check(ctx, M, s, form, cfg, wl, dl, n)
                if special or k % 7 == 0:
                    naive_later.append((cfg, s, OTHER_FORMS[k % len(OTHER_FORMS)]))
            run_probe(ctx, M, keys, cfg, baseline)
        ctx.count("ambient:time-zones")
    # locale and decimal context, alone and together with a DST zone
    others = []
    for loc in available_locales():
        others.append({"locale": loc})
        others.append({"locale": loc, "tz": "CET-1CEST,M3.5.0,M10.5.0/3"})
    if custom_locale_dir():
        others.append({"locale": CUSTOM_LOCALE, "custom_locale": True})
        others.append({"locale": CUSTOM_LOCALE, "custom_locale": True, "tz": "EST5EDT,M3.2.0,M11.1.0"})
        others.append({"locale": CUSTOM_LOCALE, "custom_locale": True, "decimal": "prec=3,ROUND_FLOOR,traps=Inexact+Rounded"})
        ctx.count("ambient:decimal-comma-locale-compiled-with-localedef")
    else:
        ctx.count("ambient:decimal-comma-locale-NOT-available(no localedef)")
    for name in DECIMAL_CONTEXTS:
        others.append({"decimal": name})
    others.append({"decimal": "prec=1,ROUND_UP", "tz": "AEST-10AEDT,M10.1.0,M4.1.0/3", "locale": "C"})
    # interpreter / process state: logging switched on, broken standard streams, warnings as errors, the global random
    # generator reseeded before every call, a thread that is not the main one; alone and combined
    state = [{"logging": name} for name in LOGGING_SETTINGS] + [{"stdout": name} for name in STDOUT_SETTINGS]
    for value in ("1", "0", ""):
        state += [{"env": {e: value}} for e in env_names]
    state += [{"library_debug": True}, {"library_debug": True, "logging": "root=DEBUG,library=DEBUG"},
              {"warnings": "error"}, {"random": 0}, {"random": 20030630}, {"thread": "worker"}, {"settrace": True},
              {"logging": "root=DEBUG,library=DEBUG", "stdout": "stdout-raises-OSError", "warnings": "error", "random": 1},
              {"logging": "root=DEBUG,library=DEBUG", "thread": "worker", "tz": "CET-1CEST,M3.5.0,M10.5.0/3"},
              {"logging": "root=NOTSET,library=NOTSET", "stdout": "stdout+stderr-None", "decimal": "prec=1,ROUND_UP"}]
    others += state
    wide = [state[0], {"stdout": "stdout-raises-OSError"}, {"library_debug": True}, state[-3]]
    ctx.count("ambient:interpreter-state-settings(logging / streams / warnings / random / thread)", len(state))
    cet = parse_posix_tz("CET-1CEST,M3.5.0,M10.5.0/3")
    sample = [s for _, s in zone_instants(ctx, cet, years[:4], 1)][::3] + generic[::2]
    for cfg in others:
        with ambient(cfg):
            for k, s in enumerate(dict.fromkeys(sample)):
                form = NAIVE_FORMS[k % 4]
                n += 1
                ctx.case(("amb-it", amb_text(cfg), s, form))
                ctx.count("ambient:infotime:locale/decimal-context")
                it_check(ctx, M, s, form, cfg, wl, dl, n)
            if cfg in wide:
                run_probe(ctx, M, wkeys, cfg, wbase)
                ctx.count("ambient:interpreter-state-settings-run-on-the-wide-sample")
            else:
                run_probe(ctx, M, keys, cfg, baseline)
        ctx.count("ambient:locale/decimal-settings" if cfg not in state else "ambient:interpreter-state-settings-run")
    for k, s in enumerate(generic):
        naive_later.append((None, s, OTHER_FORMS[k % len(OTHER_FORMS)]))
    for cfg, s, form in naive_later:
        with ambient(cfg):
            n += 1
            ctx.case(("amb-it", amb_text(cfg), s, form))
            ctx.count(f"ambient:infotime:form={form}")
            it_check(ctx, M, s, form, cfg, wl, dl, n)
    ctx.count("ambient:log-records-formatted-by-the-capturing-handler", LOG_RECORDS[0])
    children_collect(ctx, children)
    if not ctx.search_only and ctx.driver_ok:
        ctx.correspond("write_infotime (other time zones / locales / decimal contexts)", list(wl))
        ctx.correspond("as_xml info-time (other time zones / locales / decimal contexts)", list(dl))
        if ctx.correspond("calendar arithmetic of the harness = Lean calendar", list(cal)):
            raise Infra("the harness' transition arithmetic and the Lean calendar disagree: "
                        + json.dumps([d for d in ctx.disagreements if d["component"].startswith("calendar")][:3]))


def run_transl(ctx, M):
    """Differential validation of the source translator (tools/py2lean.py) and its prelude (Model/Py.lean), trusted base of
    Props/C14t: the readers TRANSLATED from the source (`Gen/TranslMbxml.lean`, driver operations `t.mb.*`) against the real
    read_uintvar / read_sintvar / read_uint8 / read_opaque / read_opaque_defined_size on octet strings made of continuation /
    terminal / sign-bit octets and random ones, at read positions inside, at, past the end and NEGATIVE (Python counts them
    from the end; a run of continuation octets then wraps around to index 0), with sizes below zero and past the end.
    A difference is a translator or prelude bug, never a finding about /repo."""
    if ctx.search_only or not ctx.driver_ok:
        return
    from common import impl_error as _ie
    rng = ctx.rng

    def hx(b):
        return b.hex() if b else "-"

    def res(fn, *a):
        try:
            r = fn(*a)
        except Exception as e:  # noqa
            return _ie(e)
        return " ".join(hx(x) if isinstance(x, (bytes, bytearray)) else str(x) for x in r)

    pairs = []
    n = 0
    special = [0x80, 0x81, 0xFF, 0x7F, 0x00, 0x40, 0xC0, 0x3F, 0xBF, 0x01]
    for _ in range(ctx.budget(1500, 15000)):
        k = rng.choice([0, 1, 2, 3, 4, 5, 6, 8, 12, 30])
        d = bytes(rng.choice(special) if rng.random() < 0.7 else rng.randrange(256) for _ in range(k))
        i = rng.choice([0, 1, 2, -1, -2, -k, -k - 1, k, k - 1, k + 1, rng.randrange(-35, 35)])
        size = rng.choice([0, 1, 2, k, k + 3, -1, -k, rng.randrange(-5, 40)])
        pairs.append((f"t.mb.ruint {hx(d)} {i}", res(M.read_uintvar, d, i)))
        pairs.append((f"t.mb.rsint {hx(d)} {i}", res(M.read_sintvar, d, i)))
        pairs.append((f"t.mb.ruint8 {hx(d)} {i}", res(M.read_uint8, d, i)))
        pairs.append((f"t.mb.ropaque {hx(d)} {i}", res(M.read_opaque, d, i)))
        pairs.append((f"t.mb.ropaquen {hx(d)} {i} {size}", res(M.read_opaque_defined_size, d, i, size)))
        n += 1
    # what the writers produce, embedded
    for _ in range(ctx.budget(300, 3000)):
        v = rng.getrandbits(rng.randrange(1, 33))
        pre, post = bytes(rng.randrange(256) for _ in range(rng.randrange(0, 4))), bytes(rng.randrange(256) for _ in range(rng.randrange(0, 4)))
        try:
            d = pre + M.write_uintvar(v) + post
            e = pre + M.write_sintvar(-v if rng.random() < 0.5 else v >> 1) + post
        except Exception:
            continue
        pairs.append((f"t.mb.ruint {hx(d)} {len(pre)}", res(M.read_uintvar, d, len(pre))))
        pairs.append((f"t.mb.rsint {hx(e)} {len(pre)}", res(M.read_sintvar, e, len(pre))))
        n += 1
    for name in ("read_uintvar", "read_sintvar", "read_uint8", "read_opaque", "read_opaque_defined_size"):
        ctx.count("transl:" + name, n)
    # the writers (t.mb.wuint / wsint / wsint1 / wfrac): boundaries of the septet count and of the asserted ranges, negative values,
    # the default negative_zero, fractions with trailing zero septets, precision <= 0, negative dec_part
    def hres(fn, *a):
        try:
            return hx(fn(*a))
        except Exception as e:  # noqa
            return _ie(e)

    vals = [0, 1, 2, 63, 64, 127, 128, 129, 16383, 16384, 2 ** 21 - 1, 2 ** 21, 2 ** 28, 2 ** 31 - 1, 2 ** 31, 2 ** 32 - 1, 2 ** 32, 2 ** 40, -1, -5]
    vals += [128 ** k * j + d for k in range(5) for j in (1, 63, 64, 127) for d in (-1, 0, 1)]
    vals += [rng.getrandbits(rng.randrange(1, 34)) for _ in range(ctx.budget(400, 4000))]
    m = 0
    for v in vals:
        pairs.append((f"t.mb.wuint {v}", hres(M.write_uintvar, v)))
        for sv in (v, -v):
            nz = rng.random() < 0.3
            pairs.append((f"t.mb.wsint {sv} {1 if nz else 0}", hres(M.write_sintvar, sv, nz)))
            pairs.append((f"t.mb.wsint1 {sv}", hres(M.write_sintvar, sv)))
        m += 1
    k = 0
    for _ in range(ctx.budget(600, 6000)):
        p = rng.choice([-1, 0, 1, 2, 3, 4, 5, 8])
        d = rng.choice([0, 1, 127, 128, 128 ** 2, rng.getrandbits(rng.randrange(1, 40)), -rng.getrandbits(10), 128 ** max(p, 0) - 1, 128 ** max(p, 0),
                        rng.getrandbits(7) << (7 * rng.randrange(0, 5))])
        pairs.append((f"t.mb.wfrac {d} {p}", hres(M.write_fraction, d, p)))
        k += 1
    ctx.count("transl:write_uintvar", m)
    ctx.count("transl:write_sintvar", 4 * m)
    ctx.count("transl:write_fraction", k)
    ctx.correspond("transl", pairs)


# ------------------------------------------------------------------------------------------------
# history / object-identity probes (harness/histories.py): the MBXML number / date-time writers and readers, described once
def ENTRY_POINTS():
    import datetime as _dt

    import histories as H

    M = _mbxml()
    zones = [_dt.timezone.utc, _dt.timezone(_dt.timedelta(hours=1)), _dt.timezone(_dt.timedelta(hours=-8)), _dt.timezone(_dt.timedelta(hours=5, minutes=45))]

    def u(rng):
        return rng.choice([0, 1, 127, 128, 16383, 16384, U_MAX, rng.getrandbits(rng.randrange(1, 33))])

    def infotime(rng):
        t = _dt.datetime(rng.randrange(2000, 2060), rng.randrange(1, 13), rng.randrange(1, 29), rng.randrange(24), rng.randrange(60), rng.randrange(60))
        r = rng.random()
        if r < 0.45:
            return (t.replace(tzinfo=rng.choice(zones)),)
        if r < 0.7:
            return (t,)
        if r < 0.85:
            return (t.strftime("%Y%m%d%H%M%S"),)
        return (int(t.strftime("%Y%m%d%H%M%S")),)

    def rd(write, gen):
        def make(rng):
            b = write(*gen(rng))
            pre = bytes(rng.getrandbits(8) | 0x80 for _ in range(rng.randrange(3)))
            return (pre + b + bytes(rng.getrandbits(8) for _ in range(rng.randrange(3))), len(pre))
        return make

    def fl(rng):
        return (rng.choice([0.0, 0.5, 1.0, 127.9921875, rng.randrange(2**20) / 128.0, rng.getrandbits(24) / 16384.0]), rng.randrange(1, 4))

    def sfl(rng):
        v, p = fl(rng)
        return (-v if rng.random() < 0.5 else v, p)

    def deg(hi):
        return lambda rng: (rng.choice([0.0, float(hi), rng.randrange(hi * 10**6) / 1e6]),)

    xml = lambda b: H.canon(b)  # noqa: E731
    return [
        H.EP("write_uintvar", M.write_uintvar, lambda rng: (u(rng),), canon=xml, domain="uint"),
        H.EP("write_sintvar", M.write_sintvar, lambda rng: (rng.choice([0, 1, -1, 63, 64, -64, S_MAX, -S_MAX, rng.getrandbits(31) - 2**30]),), canon=xml, domain="sint"),
        H.EP("read_uintvar", M.read_uintvar, rd(M.write_uintvar, lambda rng: (u(rng),)), kind="decode", domain="read"),
        H.EP("read_sintvar", M.read_sintvar, rd(M.write_sintvar, lambda rng: (rng.getrandbits(31) - 2**30,)), kind="decode", domain="read"),
        H.EP("write_ufloatvar", M.write_ufloatvar, fl, canon=xml, domain="float"),
        H.EP("write_sfloatvar", M.write_sfloatvar, sfl, canon=xml, domain="float"),
        H.EP("read_ufloatvar", M.read_ufloatvar, rd(M.write_ufloatvar, fl), kind="decode", domain="read"),
        H.EP("read_sfloatvar", M.read_sfloatvar, rd(M.write_sfloatvar, sfl), kind="decode", domain="read"),
        H.EP("write_latitude", M.write_latitude, deg(90), canon=xml, domain="deg"),
        H.EP("write_longitude", M.write_longitude, deg(180), canon=xml, domain="deg"),
        H.EP("write_infotime", M.write_infotime, infotime, canon=xml, draws=4),
    ]


def run(ctx):
    logging.disable(logging.CRITICAL)
    M = _mbxml()
    ctx.rule = (
        "unsigned: corpus of historically mis-encoded values (multiples of 128), dense 0..2^14 (quick) / 0..2^21 "
        "(thorough), j*128^k±1 and 2^k±1 up to 2^32-1, random with uniform bit length; each written, checked against "
        "an independent canonical-shortest-form predicate and an independent encoder, and read back at a random offset "
        "inside random leading / trailing octets.  signed: the same on ±values (dense ±2^13 / ±2^20, sign-septet "
        "boundaries 64*128^k±1), plus negative zero and a collision check.  floats: grid i + f/128^p, p=1..3 (all f for "
        "p=1, all 16384 for p=2 in thorough, boundary + random f otherwise), both signs incl. zero integer part, plus "
        "arbitrary doubles.  latitude/longitude in micro-degrees: a dense 1e-6 grid on both sides of every constant of "
        "the writers (0, 45, 90 / 0, 90, 180, 270, 360 degrees and every numeric literal found in the writers' source on "
        "this run; ±2500 resp. ±300 micro-degrees quick, ±100000 / ±5000 thorough), the edges of every window a "
        "tolerance literal could open, all multiples of 0.703125 degrees ±1e-6, random; doubles off the grid (exact "
        "rounding ties j/128, the doubles at and next to midpoints (k+0.5)e-6, the edges of the isclose window at the "
        "pole) must show the correctly rounded six decimals; all three XML views (point-2d, circle-2d, point-3d).  "
        "date-times of 2000..2099 (month ends, leap days; str / int / datetime / fold=1 / subclass / aware input) "
        "through the real as_xml.  AMBIENT SETTINGS, switched inside the process and restored afterwards: "
        f"{len(POSIX_ZONES)} POSIX TZ strings (UTC, northern and southern DST rules, half-hour and 45-minute offsets "
        "and shifts, ±11..14 h, midnight and 24:00 transitions, negative DST, Julian-day rules) plus named zones when "
        "the tz database is present, every locale available, three decimal contexts; for each zone the skipped and the "
        "repeated local hours of 11 years (all 100 in thorough) computed from the POSIX rule by the harness (confirmed "
        "by the Lean calendar and by libc), the seconds and minutes around them, their UTC readings, calendar "
        "boundaries, the 32-bit time_t limit, and a sample of every other codec.  INTERPRETER / PROCESS STATE: the same "
        "sample (uintvar / sintvar on both sides of every septet and sign-septet boundary, float grids p=1..3 with integer "
        "parts whose bit length is a multiple of 7, lat/long, info-time in every argument form, write_fraction) and the "
        f"date-time sample under {len(LOGGING_SETTINGS)} logging configurations (root and library loggers at DEBUG / NOTSET / INFO, "
        "root WARNING + library DEBUG, root DEBUG + library ERROR; logging.disable lifted, a handler that formats every record), "
        f"{len(STDOUT_SETTINGS)} broken standard-stream settings (write raises OSError, closed file, None; stdout alone and with stderr), "
        "warnings turned into errors, the global random generator reseeded before every call, a worker thread, and three "
        "combinations; one child interpreter per mode (python -O with PYTHONHASHSEED=1, PYTHONOPTIMIZE=2 with "
        "PYTHONHASHSEED=4242) re-runs the sample against the parent's expected values.  random octets through all four "
        "readers.  A case is non-trivial unless the value is 0; distinct = distinct (codec, value[, precision][, setting])."
    )
    ctx.trusted_base += [
        "tools/py2lean.py + tools/extract_transl.py (source translator: Gen/TranslMbxml.lean from inspect.getsource of the MBXML readers) and "
        "lean/DmrVerif/Model/Py.lean (semantics of the Python subset); validated on every run by the differential operations t.mb.* (run_transl); "
        "Props/C14t proves read_uintvar / read_uint8 / read_opaque / read_opaque_defined_size equal to the model for all byte strings and natural positions",
    ]
    run_transl(ctx, M)
    ctx.trusted_base += [
        "Lean 4.33 kernel",
        "tools/extract_mbxml.py (UINTVAR_MAX / SINTVAR_MAX read from the class)",
        "hand-written model of the readers/writers/XML formulas (Model/Mbxml.lean, Model/MbxmlX.lean), tied to the code by this run's correspondence",
        "IEEE-754 doubles are modelled as exact dyadic rationals: the writers' float arithmetic (int(), % 1, * 128**p) is exact, "
        "the readers' `integer + decimal / 128**k` is only cross-checked (compared exactly whenever the exact result is a double); "
        "the lat/long `round(x, 6) * 2**31 / 90` is modelled twice: as the integer formula m*2^24/703125 used by the theorems "
        "(error-analysis argument in Model/Mbxml.lean) and step by step in double arithmetic (fl53 of Model/MbxmlX.lean); "
        "both are compared with the code on every value of this run",
        "Python's round(x, 6) is taken to be correctly rounded half-to-even on the exact binary value; datetime.strptime's calendar is modelled",
        "the expected date-time fields come from the digits themselves (harness) and from the Lean model; neither reads TZ, locale or any other ambient state",
        "child interpreters (python -O / PYTHONOPTIMIZE=2) execute harness/props/c14.py::probe_exec on keys and expected values computed by the "
        "parent (independent encoders, or the parent's own result where the harness has no closed form); the child confirms that its asserts are stripped",
    ]
    ctx.assumptions += [
        "precision small enough that 128**precision is a finite double (p <= 146); the property asks for p = 1..3",
        "write_ufloatvar is only given non-negative values; latitude/longitude arguments are non-negative doubles "
        "(multiples of 1e-6 are inverted exactly, other doubles are shown rounded to six decimals)",
        "negative latitudes/longitudes raise OverflowError in to_bytes (unsigned four octets): outside the writers' domain, not part of the property",
        "an aware datetime / a datetime with microseconds is written with its own wall-clock fields (what the code does); "
        "ambient settings are switched with os.environ + time.tzset / locale.setlocale / decimal.setcontext in this process",
        "under python -O the writers' range assertions do not run: only values inside the ranges of the property are given to the child "
        "interpreters (rejection of out-of-range values is an assert and is checked in the parent only)",
        "forced thread interleavings and a logging handler / sys.stdout that raises from inside logging are not exercised "
        "(the property does not speak of concurrency; print() is only reached with from_bytes(debug=True))",
    ]
    run_uint(ctx, M)
    run_sint(ctx, M)
    run_floats(ctx, M)
    run_latlon(ctx, M)
    run_infotime(ctx, M)
    run_ambient(ctx, M)
    run_random_reads(ctx, M)
    import histories

    histories.run(ctx, ENTRY_POINTS)
    ctx.exhaustive = False


SAID = []


def say(*a):
    SAID.append(" ".join(str(x) for x in a))


def model_says(lines):
    """run the compiled Lean model on protocol lines (best effort: the driver may not be built)"""
    import subprocess

    from common import BIN

    exe = os.path.join(BIN, "drv_c14")
    if not os.path.exists(exe):
        say("model: driver not built")
        return
    out = subprocess.run([exe], input="\n".join(lines) + "\n", capture_output=True, text=True).stdout.split("\n")
    for l, o in zip(lines, out):
        say(f"model          {l} -> {o}")


def replay(obj):
    logging.disable(logging.CRITICAL)
    M = _mbxml()
    f = obj.get("failure") or {}
    inp = f.get("input", {})
    print(json.dumps(obj.get("type")), f.get("what"))
    for d in (obj.get("correspondence_differences") or [])[:5]:
        print("correspondence difference:", d)
    if str(f.get("kind", "")).startswith("history:"):
        import histories

        return histories.replay(inp, ENTRY_POINTS)
    op = inp.get("op")
    cfg = inp.get("ambient")
    if cfg:
        print(f"ambient setting of the process for this replay: {amb_text(cfg)}")
    if op == "child":
        mode = inp["mode"]
        print(f"re-running the call in a child interpreter [{mode}]")
        if inp.get("call") is None:
            res = child_result(child_start(mode, [], inp.get("env")))
            print("child:", res.get("fatal"))
            return 1 if res.get("fatal") is not None else 0
        print(f"this interpreter: {inp['call']} -> {probe_exec(M, inp['call'])}")
        res = child_result(child_start(mode, [[inp["call"], f.get("expected")]], inp.get("env")))
        for x in res.get("failures", []):
            print(f"child [{mode}, sys.flags.optimize={res.get('optimize')}]: {x['key']} -> {x['actual']}   expected {x['expected']}")
        if res.get("fatal") is not None:
            print("child:", res["fatal"])
        return 1 if res.get("failures") or res.get("fatal") is not None else 0
    del SAID[:]
    try:
        with ambient(cfg):
            still = _replay_in(M, op, inp, f, cfg)
    finally:
        for line in SAID:  # said while the setting (maybe a broken stdout) was active: printed now
            print(line)
    print("expected:", f.get("expected"), "actual:", f.get("actual"))
    return still


def _replay_in(M, op, inp, f, cfg):
    if cfg and cfg.get("thread"):
        box = []
        th = threading.Thread(target=lambda: box.append(_replay(M, op, inp, f.get("expected"))))
        th.start()
        th.join()
        return box[0] if box else 1
    return _replay(M, op, inp, f.get("expected"))


def _replay(M, op, inp, expected=None):
    still = 1
    if op == "uintvar":
        v = inp["value"]
        w = call(M.write_uintvar, v)
        pre, tr = bytes.fromhex(inp.get("prefix", "")), bytes.fromhex(inp.get("trail", ""))
        r = call(M.read_uintvar, pre + w, len(pre)) if isinstance(w, str) else call(M.read_uintvar, pre + w + tr, len(pre))
        say(f"implementation write_uintvar({v}) = {hx(w)}; read back {r}; canonical: {None if isinstance(w, str) else canon_u(w, v)}")
        model_says([f"uv.write {v}"] + ([] if isinstance(w, str) else [f"uv.read {hx(pre + w + tr)} {len(pre)}"]))
        still = 0 if (not isinstance(w, str) and canon_u(w, v) is None and w == enc_u(v) and r == (v, len(pre) + len(w))) else 1
    elif op == "sintvar":
        v = inp["value"]
        w = call(M.write_sintvar, v)
        r = w if isinstance(w, str) else call(M.read_sintvar, w, 0)
        say(f"implementation write_sintvar({v}) = {hx(w)}; read back {r}")
        model_says([f"sv.write {v} 0"] + ([] if isinstance(w, str) else [f"sv.read {hx(w)} 0"]))
        still = 0 if (not isinstance(w, str) and canon_s(w, v, v < 0) is None and r == (v, len(w), -1 if v < 0 else 1)) else 1
        if "other" in inp:
            o = call(M.write_sintvar, inp["other"])
            say(f"implementation write_sintvar({inp['other']}) = {hx(o)}")
            still = 1 if o == w else still
    elif op == "negzero":
        w = call(M.write_sintvar, 0, True)
        r = w if isinstance(w, str) else call(M.read_sintvar, w, 0)
        say(f"implementation write_sintvar(0, True) = {hx(w)}; read back {r}")
        still = 0 if r == (0, 1, -1) else 1
    elif op in ("ufloatvar", "sfloatvar"):
        signed = op == "sfloatvar"
        if "int" in inp:
            value = inp["sign"] * (inp["int"] + inp["frac"] / 128 ** inp["precision"])
        else:
            value = float.fromhex(inp["value"])
        p = inp["precision"]
        w = call(M.write_sfloatvar if signed else M.write_ufloatvar, value, p)
        r = w if isinstance(w, str) else call(M.read_sfloatvar if signed else M.read_ufloatvar, w, 0)
        say(f"implementation write_{op}({value!r}, {p}) = {hx(w)}; read back {r}")
        neg, num, exp = dyadic(value)
        model_says([f"sf.write {1 if neg else 0} {num} {exp} {p}" if signed else f"uf.write {num} {exp} {p}"]
                   + ([] if isinstance(w, str) else [f"{'sf' if signed else 'uf'}.read {hx(w)} 0"]))
        still = 0 if (not isinstance(r, str) and r[0] == value and r[1] == len(w)) else 1
    elif op in ("lat", "lon"):
        m = inp["microdegrees"]
        x = m / 1e6
        view = inp.get("view", "point-2d")
        b = call(M.write_latitude if op == "lat" else M.write_longitude, x)
        if isinstance(b, str):
            say(f"implementation write raised {b}")
        else:
            la, lo = xml_latlon(b, bytes(4), view) if op == "lat" else xml_latlon(bytes(4), b, view)
            text = la if op == "lat" else lo
            say(f"implementation write_{op}({x!r}) = {b.hex()}; XML view ({view}) shows {text}")
            model_says([f"{op}.write {m}", f"{op}.decode {b.hex()}"])
            still = 0 if text == str(x) else 1
    elif op in ("latd", "lond"):
        x = float.fromhex(inp["value"])
        which = op[:3]
        b = call(M.write_latitude if which == "lat" else M.write_longitude, x)
        if isinstance(b, str):
            say(f"implementation write raised {b}")
        else:
            la, lo = xml_latlon(b, bytes(4)) if which == "lat" else xml_latlon(bytes(4), b)
            text = la if which == "lat" else lo
            want = str(micro_round(x) / 1e6)
            say(f"implementation write_{which}({x!r}) = {b.hex()}; XML view shows {text}; six decimals of the value: {want}")
            if x >= 0:
                neg, num, exp = dyadic(x)
                model_says([f"{which}.writed {num} {exp}", f"{which}.decode {b.hex()}"])
            still = 0 if text == want else 1
    elif op == "infotime":
        s, form = inp["value"], inp.get("form", "str")
        arg = it_arg(s, form)
        b = call(M.write_infotime, arg)
        text = b if isinstance(b, str) else xml_infotime(b)
        say(f"implementation write_infotime({arg!r}) = {hx(b)}; XML view shows {text!r}")
        model_says([f"it.write {s}"] + ([] if isinstance(b, str) else [f"it.decode {b.hex()}"]))
        still = 0 if text == s else 1
    elif op == "probe":
        key = inp["call"]
        got = probe_exec(M, key)
        say(f"implementation {key} -> {got}")
        still = 0 if got == expected else 1
    return still
